"""C14 — coordinated operations release every resource on every exit path (fault enumeration).

Ownership model + snapshots: before each call the harness snapshots (owner, hold_count) of every
registered lock; stubs for work / validate / checkpoint conditions log invocation order and sample
ownership from INSIDE work_fn; after the call the real state is compared with the model. The
product (preemption mask x request list x pre-existing holder x fault point) is enumerated; on top
of every enumerated case independent modifiers are drawn from the case rng (controller checkpoint
configuration, watchdog time scale, priority arithmetic, validation verdict, a re-registration of a
resource while it is held, read-only API calls interleaved everywhere, a second differently
configured instance used alternately, a case-differing resource id held by a bystander, mutation of
the request list after the call started). After the enumeration come long single-instance sessions
(> 20 000 operations each) judged by the same obligations.
"""
import math
import sys
import time as _rtime

from rv import core
from rv.vclock import VClock, patched
from rv.faults import enable_unprintable, make_exception

enable_unprintable()      # "whatever the user code raises" includes exceptions that cannot be turned into text

PID = "C14"
LEVEL = "fault_enumeration"
TECHNIQUE = "runtime monitoring with fault injection: enumerated request lists x holders x fault points driven through the real controller; ownership snapshots, in-work ownership sampling and callback order logs checked against an ownership model"
RULE = ("enumeration: preemption mask (4) x request lists of length <= 3 (quick) / <= 4 (thorough) over {r1,r2,r3,unknown} incl. repeats x "
        "pre-existing holder (none | holding each non-empty subset at lower/equal/higher priority | holding r1 twice) x fault point "
        "(none, G0/G1/S/G2 checkpoint false or raising, work raises, work falsy, validate false/raises/absent, kill / shutdown / watchdog timeout from inside work or from inside validate, "
        "a nested coordinated operation run from inside work (also one that preempts the outer operation's own resources) followed by failure, manual kill / shutdown / watchdog kill delivered from a checkpoint condition) "
        "+ per-case modifiers drawn from the case rng: checkpoint configuration (default | user-supplied full dict | partial dict | G2 list replaced | G2 list empty), watchdog time scale "
        "(100 s | sub-second | more than a day with a two-day jump | None | zero), priority arithmetic (small ints | zero/negative | above 2**53 | last-bit floats | signed zero | inf | nan), "
        "validation verdict for fault points that reach validation (True | False | 0 | raises | absent | truthy non-bool), re-registration of a resource id before the call / from work / validate / a checkpoint, "
        "read-only API calls at every callback and between calls, a second differently configured instance with the same ids, a bystander holding a case-differing id, request list mutated from inside work "
        "+ seeded follow-ups (second operation reusing ids, holder complete/abort/manual kill/watchdog, shutdown, re-registration, reads) and a final shutdown of every case; 1 case in 7 goes through IntegratedCell; "
        "+ long sessions (quick 2 x 38 000, thorough 6 x 45 000 steps on one instance: > 25 000 coordinated operations and > 20 000 distinct operation ids each); "
        "non-trivial = case has a fault or a contended / repeated / unknown resource; distinct = (mask, list, holder, fault)")
ASSUMPTIONS = ["'untouched' = owner and hold_count of locks the operation never obtained; waiting lists may change",
               "a kill issued from inside work_fn is a fault point; ownership is sampled before the kill",
               "'validation returning false' covers the falsy verdicts False and 0 (the unchanged tree tests truthiness); truthy non-bool verdicts carry no obligation",
               "a resource id registered again by the USER while it is held is the user's action: that id is exempt from 'untouched', never from 'not owned by the finished operation'",
               "'raising' = Exception subclasses whose str() works; BaseException-only signals and exceptions with a raising __str__ are not judged",
               "whether a watchdog configured with a zero timeout kills is not judged (either outcome accepted); an expired positive timeout must kill"]

RES = ["r1", "r2", "r3"]
SYMS = ["r1", "r2", "r3", "unknown"]
MASKS = [(False, False), (True, False), (False, True), (True, True)]
FAULTS = ["none", "g0_false", "g1_false", "g1_raise", "s_false", "s_raise", "g2_false", "g2_raise", "work_raises", "work_falsy",
          "validate_false", "validate_raises", "validate_absent", "kill_in_work", "watchdog_in_work",
          "nested_work_raises", "nested_validate_false", "nested_validate_raises", "nested_ok",
          "kill_in_g0_cp", "shutdown_in_g0_cp", "watchdog_in_g0_cp", "kill_in_s_cp", "kill_in_g2_cp",
          "work_raises_empty", "validate_raises_empty", "validate_assert", "g1_raise_empty",
          "kill_in_validate", "shutdown_in_work", "shutdown_in_validate", "watchdog_in_validate", "nested_preempts"]
WORK_EXC = ("work_raises", "nested_work_raises", "work_raises_empty")
VMODE_OF_FAULT = {"validate_absent": "absent", "validate_false": "false", "nested_validate_false": "false", "validate_raises": "raises",
                  "nested_validate_raises": "raises", "validate_raises_empty": "raises_empty", "validate_assert": "assert"}
SESSIONS = {"quick": 2, "thorough": 6}
SESSION_OPS = {"quick": 38000, "thorough": 45000}
RESULT = {"answer": 42}     # one module-level object returned by every work function of every case


def holders():
    hs = [None]
    subsets = [("r1",), ("r2",), ("r3",), ("r1", "r2"), ("r1", "r3"), ("r2", "r3"), ("r1", "r2", "r3")]
    for s in subsets:
        for rel in (-1, 0, 1):
            hs.append((s, rel))
    hs.append((("r1", "r1"), 0))
    hs.append((("r1", "r1", "r2"), -1))
    return hs


HOLDERS = holders()


def lists(maxlen):
    out = [()]
    cur = [()]
    for _ in range(maxlen):
        cur = [l + (s,) for l in cur for s in SYMS]
        out += cur
    return out


LISTS3 = lists(3)
LISTS4 = lists(4)


def space(tier):
    L = LISTS3 if tier == "quick" else LISTS4
    return len(MASKS) * len(L) * len(HOLDERS) * len(FAULTS), L


def plan(tier):
    total, _ = space(tier)
    return {"cases": total + SESSIONS[tier], "shards": 8 if tier == "quick" else 14, "min_nontrivial": 1000,
            "timeout": 600 if tier == "quick" else 2400, "exhaustive": True, "min_fraction": 1.0,
            "require": {"execute_calls": total, "work_runs_sampled": 5000, "blocked_acquisitions": 5000, "preemptions": 500,
                        "reentrant_requests": 2000, "checkpoint_faults_hit": 2000, "kills_inside_work": 1000,
                        "followup_ops": 5000, "holder_exits_checked": 3000, "cell_entry": 1000, "nested_operations": 1000,
                        "kills_from_checkpoint": 2000,
                        # round 3
                        "kills_inside_validate": 300, "custom_checkpoint_configs": 10000, "validation_rejected_after_work": 1500,
                        "rejected_under_custom_config": 300, "rejected_after_kill": 40, "reregistrations": 5000,
                        "reregistered_while_held": 1000, "reads_interleaved": 10000, "twin_instances": 5000, "twin_checks": 5000,
                        "bystander_cases": 5000, "odd_priority_cases": 10000, "odd_timeout_cases": 10000,
                        "watchdog_expiry_judged": 1500, "final_shutdowns": 20000, "request_list_mutated": 200,
                        "session_operations": 9000, "session_holder_exits": 300, "session_distinct_ids": 7000}}


class Boom(Exception):
    pass


def pick(rng, weighted):
    tot = sum(w for _, w in weighted)
    x = rng.random() * tot
    for v, w in weighted:
        x -= w
        if x < 0:
            return v
    return weighted[-1][0]


def fresh(s):
    """an equal but distinct str object (never the interned literal)"""
    return s[:1] + s[1:] if len(s) > 1 else s


def priorities(scheme, rel):
    """(priority of the judged operation, priority of the pre-existing holder) for holder relation rel in -1/0/+1"""
    if scheme == "int5":
        return 5, 5 + rel
    if scheme == "zero":
        return 0, rel
    if scheme == "big":
        return 2 ** 53 + 1, 2 ** 53 + 1 + rel
    if scheme == "ulp":
        a = 0.1 + 0.2
        return a, {-1: 0.3, 0: 0.1 + 0.2, 1: math.nextafter(a, 1.0)}[rel]
    if scheme == "signedzero":
        return 0.0, {-1: -5e-324, 0: -0.0, 1: 5e-324}[rel]
    if scheme == "inf":
        return {-1: (float("inf"), 1e308), 0: (float("inf"), float("inf")), 1: (1e308, float("inf"))}[rel]
    if scheme == "nan_op":
        return float("nan"), 5 + rel
    if scheme == "nan_holder":
        return 5, float("nan")
    raise AssertionError(scheme)


def make_checkpoints(kind, Checkpoint, Phase):
    """user-supplied checkpoint configurations (None = library default)"""
    if kind == "custom_full":
        return {ph: [Checkpoint(phase=ph, condition=lambda c: True, name="user-%s" % ph.value)] for ph in (Phase.G0, Phase.G1, Phase.S, Phase.G2, Phase.M)}
    if kind == "custom_partial":
        return {Phase.G1: [Checkpoint(phase=Phase.G1, condition=lambda c: c.resources_acquired, name="user-g1")]}
    return None


def run_case(ctx, n):
    import operon_ai.coordination.controller as cmod
    import operon_ai.coordination.types as tmod
    import operon_ai.coordination.watchdog as wmod
    from operon_ai.coordination.system import CoordinationSystem
    from operon_ai.coordination.controller import Checkpoint, CellCycleController
    from operon_ai.coordination.types import Phase
    from datetime import timedelta

    total, L = space(ctx.tier)
    if n >= total:
        return session_case(ctx, n - total)
    idx = n
    idx, fi = divmod(idx, len(FAULTS))
    idx, hi = divmod(idx, len(HOLDERS))
    idx, li = divmod(idx, len(L))
    mi = idx % len(MASKS)
    fault, holder, req, mask = FAULTS[fi], HOLDERS[hi], list(L[li]), MASKS[mi]
    rng = ctx.rng(n)
    rrng = ctx.rng(n, "reads")
    use_cell = rng.random() < 0.15      # (not a function of n modulo anything: every fault point must meet both entry points)
    # ---- modifiers (independent of the enumerated coordinates)
    cfg = pick(rng, [("default", 52), ("custom_full", 12), ("custom_partial", 12), ("g2_replaced", 12), ("g2_empty", 12)])
    tmo = pick(rng, [("100s", 58), ("subsecond", 11), ("multiday", 11), ("none", 10), ("zero", 10)])
    if tmo == "zero" and fault == "watchdog_in_g0_cp":
        tmo = "100s"        # (whether a zero timeout kills is not judged; here the acquisition model would depend on it)
    scheme = pick(rng, [("int5", 46), ("zero", 8), ("big", 8), ("ulp", 8), ("signedzero", 6), ("inf", 8), ("nan_op", 8), ("nan_holder", 8)])
    vmode = VMODE_OF_FAULT.get(fault) or pick(rng, [("true", 52), ("false", 18), ("zero", 8), ("raises", 10), ("absent", 6), ("truthy", 6)])
    reads = rng.random() < 0.3
    rereg = None
    if rng.random() < 0.25:
        rereg = {"point": rng.choice(["pre", "work", "work", "validate", "cp"]), "res": rng.choice(RES), "flip": rng.random() < 0.5}
        if rereg["point"] == "cp" and not fault.startswith(("s_", "g2_", "kill_in_s", "kill_in_g2")):
            rereg["point"] = "work"
    twin_on = rng.random() < 0.2
    bystander = rng.random() < 0.3
    mutate_req = rng.random() < 0.1
    mutate_clear = rng.random() < 0.5
    maskstyle = rng.choice(["bool", "bool", "int", "sparse"])
    extra_timeouts = rng.random() < 0.15
    tmo_td, adv = {"100s": (timedelta(seconds=100), 1000.0), "subsecond": (timedelta(seconds=0.25), 0.9),
                   "multiday": (timedelta(days=1, seconds=100), 2 * 86400 + 50.0), "none": (None, 1000.0), "zero": (timedelta(0), 1000.0)}[tmo]
    wd_kills = tmo in ("100s", "subsecond", "multiday")
    wd_unjudged = tmo == "zero"
    clock = VClock()   # real 'now' as base: dataclass default factories captured the real utcnow
    rel = holder[1] if holder else 0
    OP_PRIO, H_PRIO = priorities(scheme, rel)
    if scheme != "int5":
        ctx.count("odd_priority_cases")
    if tmo != "100s":
        ctx.count("odd_timeout_cases")
    desc = {"preemptable": {"r1": mask[0], "r2": mask[1], "r3": False}, "request": req, "holder": holder, "fault": fault,
            "entry": "IntegratedCell.execute" if use_cell else "CoordinationSystem.execute_operation", "followups": [],
            "checkpoints": cfg, "max_operation_time": tmo, "priorities": [scheme, repr(OP_PRIO), repr(H_PRIO)], "validation": vmode,
            "reregister": rereg, "reads": reads, "twin": twin_on, "bystander": bystander, "mask_style": maskstyle}

    def viol(mech, what):
        ctx.violation(mech, what, desc)

    def flagval(b):
        if maskstyle == "int":
            return 1 if b else 0
        if maskstyle == "sparse" and not b:
            return None
        return bool(b)

    def register(target, rid, b):
        if maskstyle == "sparse" and not b and rng.random() < 0.5:
            target.register_resource(rid)               # the default of the optional parameter
        else:
            target.register_resource(rid, flagval(b))

    def build(as_cell, kind, td, **kw):
        cps = make_checkpoints(kind, Checkpoint, Phase)
        if as_cell:
            from operon_ai.cell import IntegratedCell
            c = IntegratedCell(max_operation_time=td)
            s = c.coordination
            if cps is not None:
                s.controller.checkpoints = cps
        else:
            c = None
            if cps is not None:
                s = CoordinationSystem(max_operation_time=td, controller=CellCycleController(checkpoints=cps), **kw)
            else:
                s = CoordinationSystem(max_operation_time=td, **kw)
        if kind == "g2_replaced":
            s.controller.checkpoints[Phase.G2] = [Checkpoint(phase=Phase.G2, condition=lambda c_: True, name="user-g2")]
        elif kind == "g2_empty":
            s.controller.checkpoints[Phase.G2] = []
        return c, s

    with patched(clock, cmod, tmod, wmod):
        kw = {}
        if extra_timeouts and not use_cell:
            kw = {"starvation_timeout": timedelta(seconds=rng.choice([0.5, 50, 90000])), "progress_timeout": timedelta(seconds=rng.choice([0.5, 50, 90000]))}
        cell, system = build(use_cell, cfg, tmo_td, **kw)
        if use_cell:
            ctx.count("cell_entry")
        if cfg != "default":
            ctx.count("custom_checkpoint_configs")
        ctl = system.controller
        front = cell if cell is not None else system
        register(front, "r1", mask[0])
        register(front, "r2", mask[1])
        register(front, "r3", False)
        register(front, "r4", False)     # only ever used by the nested operation
        ALL = list(RES)
        if bystander:
            # a live bystander holds a resource whose id differs from r1 only in case; nobody ever requests it
            ctx.count("bystander_cases")
            front.register_resource("R1", True)
            xctx = system.start_operation("X", "agent-x", priority=-1)
            ctl.acquire_resource(xctx, "R1")
            ALL = RES + ["R1"]
        # ---- a second instance, configured differently, with the same resource / operation ids
        twin = tcell = None
        if twin_on:
            ctx.count("twin_instances")
            tcell, twin = build(rng.random() < 0.3, rng.choice(["default", "custom_full", "g2_empty"]), timedelta(seconds=7))
            tfront = tcell if tcell is not None else twin
            tfront.register_resource("r1", not mask[0])
            tfront.register_resource("r2", not mask[1])
            tfront.register_resource("r3", True)
            tfront.register_resource("r4", True)
            t_op = twin.start_operation("op", "agent-a", priority=9)
            twin.controller.acquire_resource(t_op, "r1")
            twin.controller.acquire_resource(t_op, "r4")
            t_h = twin.start_operation("H", "agent-h", priority=9)
            twin.controller.acquire_resource(t_h, "r2")

        def twin_state():
            tc = twin.controller
            return ({r: (tc.resources[r].owner, tc.resources[r].hold_count) for r in RES + ["r4"]}, sorted(tc.active_operations))

        def twin_unchanged(t0, when):
            ctx.count("twin_checks")
            t1 = twin_state()
            if t1 != t0:
                viol("other-instance-touched", "%s changed a second CoordinationSystem instance: %s -> %s" % (when, t0, t1))
                return False
            return True

        # ---- pre-existing holder
        hctx = None
        if holder is not None:
            hres = holder[0]
            hctx = system.start_operation("H", "agent-h", priority=H_PRIO)
            for r in hres:
                ctl.acquire_resource(hctx, fresh(r))
        # ---- fault wiring
        log = []
        sampled = {}
        reregd = set()

        def snap():
            res_ = ctl.resources
            return {r: ((res_[r].owner, res_[r].hold_count) if r in res_ else ("<not registered>", 0)) for r in ALL}

        def do_reads(where):
            if not reads:
                return
            for _ in range(rrng.randint(1, 3)):
                ctx.count("reads_interleaved")
                which = rrng.randrange(10)
                try:
                    if which == 0:
                        system.health()
                    elif which == 1:
                        (cell.health() if cell is not None else system.health())
                    elif which == 2:
                        ctl.stats()
                    elif which == 3:
                        system.watchdog.stats()
                        system.watchdog.check(ctl)
                    elif which == 4:
                        ctl.check_deadlock()
                    elif which == 5:
                        system.priority_manager.stats()
                        system.priority_manager.is_boosted(fresh("op"))
                        system.priority_manager.get_boost("H")
                    elif which == 6:
                        repr(system)
                        repr(ctl.active_operations.get("op"))
                    elif which == 7:
                        for lk in list(ctl.resources.values()):
                            lk.is_available
                            lk.hold_duration
                            repr(lk)
                    elif which == 8:
                        if clock.offset == 0:       # nothing can have expired yet: maintenance must be a no-op for ownership
                            ctx.count("maintenance_without_expiry")
                            (cell.run_maintenance() if cell is not None and rrng.random() < 0.5 else system.run_maintenance())
                    else:
                        list(ctl.active_operations.items())
                        dict(ctl.resources)
                except Exception as e:      # a reporting API that raises is not a C14 matter; keep the session going
                    ctx.count("read_api_raised")
                    desc.setdefault("read_errors", []).append("%s:%d:%r" % (where, which, e))

        def do_rereg(where):
            rid = rereg["res"]
            cur = bool(ctl.resources[rid].allow_preemption)
            new = (not cur) if rereg["flip"] else cur
            ctx.count("reregistrations")
            if ctl.resources[rid].owner is not None:
                ctx.count("reregistered_while_held")
            front.register_resource(fresh(rid), flagval(new))
            desc["preemptable"][rid] = new
            if where != "pre":
                reregd.add(rid)

        def shutdown():
            (cell.shutdown() if cell is not None else system.shutdown())

        def expire_and_maintain(via_cell_ok=True):
            clock.advance(adv)
            sampled["slack_ok"] = (_rtime.time() - clock.base) < 0.5 * (adv - (tmo_td.total_seconds() if tmo_td else 0.0))
            if cell is not None and via_cell_ok:
                cell.run_maintenance()
            else:
                system.run_maintenance()

        def cp_fault(kind):
            def cond(c):
                if c.operation_id != "op":
                    return True
                log.append("cp:" + kind)
                ctx.count("checkpoint_faults_hit")
                do_reads("cp")
                if rereg and rereg["point"] == "cp" and "cp_rereg" not in sampled and "main_done" not in sampled:
                    sampled["cp_rereg"] = True
                    do_rereg("cp")
                if kind.endswith("raise_empty"):
                    raise Boom()
                if kind.endswith("raise"):
                    raise make_exception(n + 5, "checkpoint exploded")
                if kind.startswith("kill_in"):
                    if "killed" not in sampled:
                        sampled["killed"] = True
                        ctx.count("kills_from_checkpoint")
                        system.kill_operation(fresh("op"), "killed from a checkpoint condition")
                    return True
                if kind.startswith("shutdown_in"):
                    if "killed" not in sampled:
                        sampled["killed"] = True
                        ctx.count("kills_from_checkpoint")
                        shutdown()
                    return True
                if kind.startswith("watchdog_in"):
                    if "killed" not in sampled:
                        sampled["killed"] = True
                        ctx.count("kills_from_checkpoint")
                        expire_and_maintain(False)
                    return True
                return False
            return cond
        phase_of = {"g0": Phase.G0, "g1": Phase.G1, "s": Phase.S, "g2": Phase.G2}
        ph = phase_of.get(fault.split("_")[0]) if fault.endswith(("_false", "_raise", "_raise_empty")) else None
        if fault.endswith("_cp"):
            ph = phase_of[fault.split("_")[2]]
        if ph is not None:
            ctl.checkpoints[ph] = list(ctl.checkpoints.get(ph, [])) + [Checkpoint(phase=ph, condition=cp_fault(fault), name="injected")]
        req_obj = [fresh(r) for r in req]

        def work():
            log.append("work")
            sampled["own"] = {r: ctl.resources[r].owner for r in RES}
            sampled["active"] = "op" in ctl.active_operations
            ctx.count("work_runs_sampled")
            do_reads("work")
            if fault.startswith("nested"):
                ctx.count("nested_operations")
                if fault == "nested_preempts":
                    # an inner operation of higher priority asks for the outer operation's own resources (+ r4)
                    inner = system.execute_operation("inner", "agent-i", lambda: RESULT, resources=[fresh(r) for r in req] + ["r4"],
                                                     priority=OP_PRIO + 1 if isinstance(OP_PRIO, int) else OP_PRIO)
                else:
                    inner = system.execute_operation("inner", "agent-i", lambda: "inner-result", resources=["r4"], priority=OP_PRIO)
                sampled["inner_success"] = inner.success
            if rereg and rereg["point"] == "work":
                do_rereg("work")
            if mutate_req:
                ctx.count("request_list_mutated")
                if mutate_clear:
                    del req_obj[:]
                else:
                    req_obj.append("unknown")
            if fault == "work_raises_empty":
                raise Boom()            # an exception without a message
            if fault in ("work_raises", "nested_work_raises"):
                raise make_exception(n, "work failed")
            if fault == "kill_in_work":
                ctx.count("kills_inside_work")
                system.kill_operation(fresh("op"), "killed from inside")
            if fault == "shutdown_in_work":
                ctx.count("kills_inside_work")
                shutdown()
            if fault == "watchdog_in_work":
                ctx.count("kills_inside_work")
                expire_and_maintain()
            return 0 if fault == "work_falsy" else RESULT

        def validate(res):
            log.append("validate")
            do_reads("validate")
            if rereg and rereg["point"] == "validate":
                do_rereg("validate")
            if fault == "kill_in_validate":
                ctx.count("kills_inside_validate")
                system.kill_operation(fresh("op"), "killed from inside the validator")
            if fault == "shutdown_in_validate":
                ctx.count("kills_inside_validate")
                shutdown()
            if fault == "watchdog_in_validate":
                ctx.count("kills_inside_validate")
                expire_and_maintain()
            if vmode == "raises_empty":
                raise ValueError()
            if vmode == "assert":
                assert res is None      # a bare assert: AssertionError without a message
            if vmode == "raises":
                raise make_exception(n + 3, "validator exploded")
            return {"true": True, "truthy": "accepted", "false": False, "zero": 0}[vmode]

        if rereg and rereg["point"] == "pre":
            do_rereg("pre")         # the holder (if it held that id) keeps an orphaned lock object; the registered one is new
        do_reads("pre")
        # ---- model: which acquisitions succeed
        before = snap()
        twin_before = twin_state() if twin is not None else None
        own = dict((r, before[r][0]) for r in RES)
        if fault == "shutdown_in_g0_cp" or (fault == "watchdog_in_g0_cp" and wd_kills):
            own = {r: (None if o == "H" else o) for r, o in own.items()}     # the holder is gone before the acquisitions start
        prio = {"H": H_PRIO}
        obtained = {}          # resource -> times obtained by op
        stopped = None
        for r in req:
            if r == "unknown":
                stopped = "unknown"
                break
            if own[r] is None:
                own[r] = "op"
                obtained[r] = obtained.get(r, 0) + 1
            elif own[r] == "op":
                obtained[r] = obtained.get(r, 0) + 1
                ctx.count("reentrant_requests")
            elif desc["preemptable"][r] and OP_PRIO > prio[own[r]]:
                own[r] = "op"
                obtained[r] = obtained.get(r, 0) + 1
                ctx.count("preemptions")
            else:
                stopped = "blocked"
                ctx.count("blocked_acquisitions")
                break
        ctx.count("execute_calls")
        vf = None if vmode == "absent" else validate
        try:
            if cell is not None:
                cres = cell.execute("agent-a", fresh("op"), work, resources=req_obj, validate_fn=vf, priority=OP_PRIO)
                success = cres.success
            else:
                res = system.execute_operation(fresh("op"), "agent-a", work, resources=req_obj, validate_fn=vf, priority=OP_PRIO)
                success = res.success
        except BaseException as e:
            viol("execute-raises", "execute raised %r" % (e,))
            return
        sampled["main_done"] = True
        do_reads("post")
        after = snap()
        desc["log"] = list(log)
        desc["before"], desc["after"] = before, after
        desc["success"] = success
        path = fault if stopped is None else stopped
        # 1. nothing owned, not active
        for r in RES:
            if after[r][0] == "op":
                mech = "reentrant-hold-leak" if obtained.get(r, 0) > 1 else "resource-leak:%s" % path
                viol(mech, "%s still owned by the finished operation (hold_count %d) after exit path %s" % (r, after[r][1], path))
                return
        if ctl.resources["r4"].owner is not None or "inner" in ctl.active_operations or any(after[r][0] == "inner" for r in RES):
            viol("resource-leak:nested-operation", "nested operation left %s owned / active=%s" % (
                [r for r in RES + ["r4"] if ctl.resources[r].owner == "inner"], "inner" in ctl.active_operations))
            return
        if "op" in ctl.active_operations:
            viol("still-active:%s" % path, "operation still listed as active after exit path %s" % path)
            return
        # 2. never-obtained resources untouched (a holder killed by a shutdown / expired watchdog fault legitimately loses its locks;
        #    an id the harness registered again during the call is the harness's own doing)
        wd_ran = (fault == "watchdog_in_work" and "work" in log) or (fault == "watchdog_in_validate" and "validate" in log) or (
            fault == "watchdog_in_g0_cp" and "killed" in sampled)
        sd_ran = (fault == "shutdown_in_work" and "work" in log) or (fault == "shutdown_in_validate" and "validate" in log) or (
            fault == "shutdown_in_g0_cp" and "killed" in sampled)
        holders_killed = sd_ran or (wd_ran and wd_kills)
        for r in ALL:
            if r in obtained or r in reregd or after[r] == before[r]:
                continue
            if before[r][0] in ("H", "X") and after[r] == (None, 0) and (holders_killed or (wd_ran and wd_unjudged)):
                continue
            viol("untouched-resource-changed:%s" % path, "%s was never obtained by the operation but went %s -> %s" % (r, before[r], after[r]))
            return
        if wd_ran and wd_kills and sampled.get("slack_ok"):
            ctx.count("watchdog_expiry_judged")
            for oid in ("H", "X"):
                if oid in ctl.active_operations:
                    viol("watchdog-timeout-not-enforced", "operation %s exceeded max_operation_time (%s, clock advanced %s s) and is still active after maintenance" % (oid, tmo, adv))
                    return
        if twin is not None and not twin_unchanged(twin_before, "the judged operation"):
            return
        # 3. work / validate discipline
        nwork, nval = log.count("work"), log.count("validate")
        if nwork > 1:
            viol("work-ran-twice", "work_fn ran %d times" % nwork)
            return
        cp_blocks_before_work = fault in ("g0_false", "g1_false", "g1_raise", "g1_raise_empty")
        if nwork == 1:
            if stopped is not None:
                viol("work-without-resources:%s" % stopped, "work_fn ran although acquisition stopped (%s)" % stopped)
                return
            missing = [r for r in set(req) if r != "unknown" and sampled["own"].get(r) != "op"]
            if missing:
                viol("work-without-holding", "work_fn ran while %s not owned by the operation (owners %s)" % (missing, sampled["own"]))
                return
            if cp_blocks_before_work and fault != "g0_false":
                viol("work-after-failed-checkpoint", "work_fn ran although the injected %s checkpoint rejected" % fault)
                return
        if nval > 1:
            viol("validate-ran-twice", "validate_fn ran %d times" % nval)
            return
        if nval == 1:
            if nwork != 1 or fault in WORK_EXC or log.index("validate") < log.index("work"):
                viol("validate-before-work-completed", "validate ran with log %s" % log)
                return
        # 4. success only if both succeeded
        val_ok = vmode in ("true", "truthy", "absent")
        if nval == 1 and not val_ok:
            ctx.count("validation_rejected_after_work")
            if cfg != "default":
                ctx.count("rejected_under_custom_config")
            if fault in ("kill_in_work", "shutdown_in_work", "watchdog_in_work", "kill_in_validate", "shutdown_in_validate", "watchdog_in_validate",
                         "kill_in_s_cp"):
                ctx.count("rejected_after_kill")
        if success:
            ok = nwork == 1 and fault not in WORK_EXC and (vf is None or (nval == 1 and val_ok))
            if not ok:
                key = fault if (val_ok or fault in VMODE_OF_FAULT) else "%s+validate_%s" % (fault, vmode)
                viol("success-without-work-and-validation:%s" % key, "success reported with log %s under fault %s, validation verdict %s, checkpoints %s" % (log, fault, vmode, cfg))
                return
            if stopped is not None:
                viol("success-without-resources", "success reported although acquisition stopped (%s)" % stopped)
                return
        # ---- follow-ups
        for k in range(rng.randint(0, 3)):
            ctx.count("followup_ops")
            choice = rng.choice(["op2", "holder_complete", "holder_abort", "holder_kill", "watchdog", "shutdown", "op_again", "k_hold", "k_hold",
                                 "holder_release_one", "holder_release_one", "reregister", "reads"])
            desc["followups"].append(choice)
            b2 = snap()
            tb2 = twin_state() if twin is not None else None
            try:
                if choice == "reads":
                    do_reads("between")
                    if reads and snap() != b2:
                        viol("read-api-changes-ownership", "read-only calls between operations changed ownership: %s -> %s" % (b2, snap()))
                        return
                    continue
                if choice == "reregister":
                    rid = rng.choice(RES)
                    ctx.count("reregistrations")
                    if ctl.resources[rid].owner is not None:
                        ctx.count("reregistered_while_held")
                    newflag = rng.random() < 0.5
                    front.register_resource(rid, newflag)
                    desc["followups"][-1] = "reregister:%s:%s" % (rid, newflag)
                    continue
                if choice == "holder_release_one":
                    if hctx is not None and "H" in ctl.active_operations and hctx.acquired_resources:
                        rr = rng.choice(sorted(hctx.acquired_resources))
                        okr = ctl.release_resource(hctx, rr)
                        desc["followups"][-1] = "holder_release_one:%s:%s" % (rr, okr)
                        ctx.count("manual_releases")
                    continue
                if choice == "k_hold" and "K" not in ctl.active_operations:
                    # a second live operation takes (possibly preempts) a resource and keeps it
                    kctx = system.start_operation("K", "agent-k", priority=9)
                    rk = rng.choice(RES)
                    got = ctl.acquire_resource(kctx, rk)
                    desc["followups"][-1] = "k_hold:%s:%s" % (rk, got.value)
                    continue
                if choice in ("op2", "op_again"):
                    oid = "op2" if choice == "op2" else "op"
                    req2 = [rng.choice(SYMS[:3]) for _ in range(rng.randint(0, 3))]
                    ran = []
                    r2 = system.execute_operation(oid, "agent-b", lambda: ran.append(1) or "x", resources=req2, priority=rng.choice([1, 5, 9]))
                    a2 = snap()
                    for r in ALL:
                        if b2[r][0] not in (None, oid) and a2[r] != b2[r] and not (a2[r] == (None, 0) and ctl.resources[r].allow_preemption and r in req2):
                            viol("exit-touches-foreign-lock:followup", "operation %s requesting %s changed %s, owned by %s: %s -> %s" % (
                                oid, req2, r, b2[r][0], b2[r], a2[r]))
                            return
                    leak = [r for r in ALL if a2[r][0] == oid]
                    if leak or oid in ctl.active_operations:
                        mech = "reentrant-hold-leak" if any(req2.count(r) > 1 for r in leak) else "resource-leak:followup"
                        viol(mech, "follow-up operation %s requesting %s left %s owned / active=%s" % (oid, req2, leak, oid in ctl.active_operations))
                        return
                    if len(ran) > 1:
                        viol("work-ran-twice", "follow-up work ran %d times" % len(ran))
                        return
                elif hctx is not None and choice.startswith("holder"):
                    if "H" in ctl.active_operations:
                        if choice == "holder_complete":
                            ctl.complete_operation(hctx)
                        elif choice == "holder_abort":
                            ctl.abort_operation(hctx, "test")
                        else:
                            system.kill_operation(fresh("H"), "manual")
                        ctx.count("holder_exits_checked")
                        a2 = snap()
                        for r in ALL:
                            if b2[r][0] not in (None, "H") and a2[r] != b2[r]:
                                viol("exit-touches-foreign-lock:%s" % choice, "holder exit via %s changed %s, owned by %s: %s -> %s" % (
                                    choice, r, b2[r][0], b2[r], a2[r]))
                                return
                        leak = [r for r in ALL if a2[r][0] == "H"]
                        if leak or "H" in ctl.active_operations:
                            multi = any(holder[0].count(r) > 1 for r in leak)
                            viol("reentrant-hold-leak" if multi else "resource-leak:%s" % choice,
                                 "holder exit via %s left %s owned by H" % (choice, leak))
                            return
                elif choice == "watchdog":
                    expire_and_maintain()
                    ctx.count("holder_exits_checked")
                    a2 = snap()
                    for oid in ("H", "op", "op2", "K", "X"):
                        leak = [r for r in ALL if a2[r][0] == oid]
                        if leak and oid not in ctl.active_operations:
                            multi = oid == "H" and holder and any(holder[0].count(r) > 1 for r in leak)
                            viol("reentrant-hold-leak" if multi else "resource-leak:watchdog", "watchdog kill left %s owned by %s" % (leak, oid))
                            return
                    if wd_kills and sampled.get("slack_ok"):
                        ctx.count("watchdog_expiry_judged")
                        still = [o for o in ("H", "K", "X") if o in ctl.active_operations]
                        if still:
                            viol("watchdog-timeout-not-enforced", "operation(s) %s exceeded max_operation_time (%s, clock advanced by %s s) and are still active after watchdog.execute" % (still, tmo, adv))
                            return
                elif choice == "shutdown":
                    shutdown()
                    ctx.count("holder_exits_checked")
                    a2 = snap()
                    owned = {r: a2[r] for r in ALL if a2[r][0] is not None}
                    if owned or ctl.active_operations:
                        multi = holder and any(holder[0].count(r) > 1 for r in owned)
                        viol("reentrant-hold-leak" if multi else "resource-leak:shutdown", "after shutdown: owned=%s active=%s" % (owned, list(ctl.active_operations)))
                        return
            except BaseException as e:
                viol("followup-raises:%s" % choice, "%s raised %r" % (choice, e))
                return
            if twin is not None and not twin_unchanged(tb2, "follow-up %s" % choice):
                return
        # ---- the other instance is used in turn: it must work on its own locks only
        try:
            if twin is not None:
                b3 = snap()
                act3 = sorted(ctl.active_operations)
                tran = []
                tres = twin.execute_operation("t", "agent-t", lambda: tran.append(1) or RESULT, resources=["r3", "r1", "r4"], priority=rng.choice([0, 5]))
                tc = twin.controller
                if any(tc.resources[r].owner == "t" for r in RES + ["r4"]) or "t" in tc.active_operations:
                    viol("resource-leak:followup", "operation on the second instance left %s owned / active=%s" % (
                        [r for r in RES + ["r4"] if tc.resources[r].owner == "t"], "t" in tc.active_operations))
                    return
                if tres.success or tran:
                    viol("work-without-resources:blocked", "operation on the second instance ran (success=%s, work runs %d) although r1 is held there by a live operation of equal or higher priority" % (tres.success, len(tran)))
                    return
                (tcell.shutdown() if tcell is not None else twin.shutdown())
                towned = [r for r in RES + ["r4"] if tc.resources[r].owner is not None]
                if towned or tc.active_operations:
                    viol("resource-leak:shutdown", "after shutdown of the second instance: owned=%s active=%s" % (towned, list(tc.active_operations)))
                    return
                if snap() != b3 or sorted(ctl.active_operations) != act3:
                    viol("other-instance-touched", "operation + shutdown on the second instance changed the first: %s -> %s, active %s -> %s" % (
                        b3, snap(), act3, sorted(ctl.active_operations)))
                    return
            # ---- every case ends with a shutdown: nothing registered stays owned, nothing stays active
            ctx.count("final_shutdowns")
            shutdown()
            a3 = {r: (lk.owner, lk.hold_count) for r, lk in ctl.resources.items()}
            owned = {r: v for r, v in a3.items() if v[0] is not None}
            if owned or ctl.active_operations:
                multi = holder and any(holder[0].count(r) > 1 for r in owned)
                viol("reentrant-hold-leak" if multi else "resource-leak:shutdown", "after the final shutdown: owned=%s active=%s" % (owned, list(ctl.active_operations)))
                return
        except BaseException as e:
            viol("followup-raises:final", "final twin operation / shutdown raised %r" % (e,))
            return
    if fault != "none" or stopped is not None or any(v > 1 for v in obtained.values()) or holder is not None:
        ctx.nontrivial((mi, li, hi, fi))
    if n % 9973 == 0:
        ctx.sample(desc)


# ------------------------------------------------------------------------------------------------------------------
def session_case(ctx, k):
    """One long-lived instance, tens of thousands of operations with distinct ids, holders coming and going, maintenance,
    re-registrations and a few watchdog expiries; after EVERY call the same obligations as in the enumerated cases."""
    import operon_ai.coordination.controller as cmod
    import operon_ai.coordination.types as tmod
    import operon_ai.coordination.watchdog as wmod
    from operon_ai.coordination.system import CoordinationSystem
    from operon_ai.coordination.controller import Checkpoint
    from operon_ai.coordination.types import Phase
    from datetime import timedelta

    rng = ctx.rng("session", k)
    nops = SESSION_OPS[ctx.tier]
    clock = VClock()
    SRES = ["s0", "s1", "s2", "s3"]
    TIMEOUT = 3 * 86400.0
    desc = {"session": k, "operations": nops, "trail": []}

    def viol(mech, what):
        ctx.violation(mech, what, dict(desc, trail=desc["trail"][-12:]))

    with patched(clock, cmod, tmod, wmod):
        cell = None
        if k % 3 == 2:
            from operon_ai.cell import IntegratedCell
            cell = IntegratedCell(max_operation_time=timedelta(seconds=TIMEOUT), pool_capacity=10 ** 6)
            system = cell.coordination
        else:
            system = CoordinationSystem(max_operation_time=timedelta(seconds=TIMEOUT))
        ctl = system.controller
        front = cell if cell is not None else system
        for i, r in enumerate(SRES):
            front.register_resource(r, bool((k + i) % 2))
        cpf = {}

        def cond_for(phase):
            def cond(c):
                f = cpf.get(c.operation_id)
                if f and f[0] == phase:
                    if f[1] == "raise":
                        raise make_exception(len(desc["trail"]), "checkpoint exploded")
                    return False
                return True
            return cond
        for phs in (Phase.G0, Phase.G1, Phase.S, Phase.G2):
            ctl.checkpoints[phs] = list(ctl.checkpoints.get(phs, [])) + [Checkpoint(phase=phs, condition=cond_for(phs), name="injected")]
        live = {}           # holder id -> context
        SFAULTS = ["none"] * 6 + ["work_raises", "validate_false", "validate_raises", "kill_in_work", "cp_false", "cp_raise", "validate_absent", "kill_in_validate"]

        def snap():
            res_ = ctl.resources
            return {r: (res_[r].owner, res_[r].hold_count) for r in SRES}

        expired = False
        for i in range(nops):
            x = rng.random()
            b = snap()
            try:
                if x < 0.72:
                    ctx.count("session_operations")
                    req = [rng.choice(SRES) for _ in range(rng.randint(0, 3))]
                    if rng.random() < 0.03:
                        req.insert(rng.randint(0, len(req)), "nope")
                    prio = rng.choice([0, 1, 5, 9, -3, 2 ** 53 + 1, 0.5])
                    fault = rng.choice(SFAULTS)
                    # model (preemption decided from the public fields of the live lock)
                    own = {r: b[r][0] for r in SRES}
                    obtained, stopped = set(), None
                    for r in req:
                        if r == "nope":
                            stopped = "unknown"
                            break
                        lk = ctl.resources[r]
                        if own[r] is None or own[r] == "self" or (lk.allow_preemption and prio > lk.owner_priority):
                            own[r] = "self"
                            obtained.add(r)
                        else:
                            stopped = "blocked"
                            break
                    if stopped == "blocked" or rng.random() < 0.05:
                        oid = "b%d" % (i % 150)         # (blocked ids come from a pool: waiting lists are never pruned by the library)
                    else:
                        oid = "o%d" % i
                        ctx.count("session_distinct_ids")
                    if oid in live or oid in ctl.active_operations:
                        continue
                    log = []
                    own_in_work = {}
                    if fault.startswith("cp_"):
                        cpf[oid] = (rng.choice([Phase.G1, Phase.S, Phase.G2]), "raise" if fault == "cp_raise" else "false")

                    def work():
                        log.append("work")
                        own_in_work.update({r: ctl.resources[r].owner for r in set(req) if r != "nope"})
                        if fault == "work_raises":
                            raise make_exception(i, "work failed")
                        if fault == "kill_in_work":
                            system.kill_operation(oid, "from inside")
                        return RESULT

                    def validate(res):
                        log.append("validate")
                        if fault == "kill_in_validate":
                            system.kill_operation(oid, "from inside the validator")
                        if fault == "validate_raises":
                            raise make_exception(i + 3, "validator exploded")
                        return fault != "validate_false"
                    vf = None if fault == "validate_absent" else validate
                    desc["trail"].append(("op", oid, req, repr(prio), fault))
                    if cell is not None and rng.random() < 0.5:
                        success = cell.execute("agent-%d" % (i % 7), oid, work, resources=list(req), validate_fn=vf, priority=prio).success
                    else:
                        success = system.execute_operation(oid, "agent-%d" % (i % 7), work, resources=list(req), validate_fn=vf, priority=prio).success
                    cpf.pop(oid, None)
                    a = snap()
                    path = fault if stopped is None else stopped
                    leak = [r for r in SRES if a[r][0] == oid]
                    if leak:
                        viol("reentrant-hold-leak" if any(req.count(r) > 1 for r in leak) else "resource-leak:%s" % path,
                             "long session, operation %d: %s still owned by the finished operation %s" % (i, leak, oid))
                        return
                    if oid in ctl.active_operations:
                        viol("still-active:%s" % path, "long session, operation %d: %s still listed as active" % (i, oid))
                        return
                    for r in SRES:
                        if r not in obtained and a[r] != b[r]:
                            viol("untouched-resource-changed:%s" % path, "long session, operation %d (%s requesting %s): %s never obtained but went %s -> %s" % (i, oid, req, r, b[r], a[r]))
                            return
                    nwork, nval = log.count("work"), log.count("validate")
                    if nwork > 1:
                        viol("work-ran-twice", "long session: work_fn ran %d times" % nwork)
                        return
                    if nwork and stopped is not None:
                        viol("work-without-resources:%s" % stopped, "long session: work_fn ran although acquisition stopped (%s)" % stopped)
                        return
                    if nwork and any(o != oid for o in own_in_work.values()):
                        viol("work-without-holding", "long session: work_fn ran with owners %s" % own_in_work)
                        return
                    if nval > 1 or (nval and (not nwork or fault == "work_raises" or log.index("validate") < log.index("work"))):
                        viol("validate-before-work-completed" if nval == 1 else "validate-ran-twice", "long session: log %s" % log)
                        return
                    if success and (nwork != 1 or stopped is not None or fault in ("work_raises", "validate_false", "validate_raises") or (vf is not None and nval != 1)):
                        viol("success-without-work-and-validation:%s" % path, "long session: success reported with log %s under %s" % (log, path))
                        return
                elif x < 0.82:
                    hid = "h%d" % rng.randrange(6)
                    if hid in live:
                        continue
                    hp = rng.choice([0, 2, 7])
                    hc = system.start_operation(hid, "agent-h", priority=hp)
                    live[hid] = hc
                    for r in rng.sample(SRES, rng.randint(1, 2)):
                        lk = ctl.resources[r]
                        if lk.owner is not None and not (lk.allow_preemption and hp > lk.owner_priority):
                            continue        # (a holder never waits: no wait-for cycles, so maintenance has nothing to break)
                        ctl.acquire_resource(hc, r)
                        if rng.random() < 0.2:
                            ctl.acquire_resource(hc, r)
                    desc["trail"].append(("hold", hid))
                elif x < 0.92:
                    if not live:
                        continue
                    hid = rng.choice(sorted(live))
                    hc = live.pop(hid)
                    how = rng.choice(["complete", "abort", "kill"])
                    desc["trail"].append(("exit", hid, how))
                    if how == "complete":
                        ctl.complete_operation(hc)
                    elif how == "abort":
                        ctl.abort_operation(hc, "test")
                    else:
                        system.kill_operation(hid, "manual")
                    ctx.count("session_holder_exits")
                    a = snap()
                    leak = [r for r in SRES if a[r][0] == hid]
                    if leak or hid in ctl.active_operations:
                        viol("resource-leak:holder_%s" % how, "long session: holder %s exit via %s left %s owned / active=%s" % (hid, how, leak, hid in ctl.active_operations))
                        return
                    for r in SRES:
                        if b[r][0] not in (None, hid) and a[r] != b[r]:
                            viol("exit-touches-foreign-lock:holder_%s" % how, "long session: exit of %s changed %s: %s -> %s" % (hid, r, b[r], a[r]))
                            return
                elif x < 0.975:
                    # reporting APIs and maintenance; nothing has expired unless the clock was pushed past the timeout
                    desc["trail"].append(("maintenance", expired))
                    system.health()
                    ctl.stats()
                    system.watchdog.check(ctl)
                    (cell.run_maintenance() if cell is not None else system.run_maintenance())
                    a = snap()
                    if expired:
                        still = [h for h in live if h in ctl.active_operations]
                        if still:
                            viol("watchdog-timeout-not-enforced", "long session: %s older than max_operation_time still active after maintenance" % still)
                            return
                        leak = [r for r in SRES if a[r][0] is not None]
                        if leak:
                            viol("resource-leak:watchdog", "long session: watchdog kill of every live holder left %s owned" % leak)
                            return
                        live.clear()
                    elif a != b or any(h not in ctl.active_operations for h in live):
                        viol("untouched-resource-changed:maintenance", "long session: maintenance with nothing expired changed ownership %s -> %s" % (b, a))
                        return
                elif x < 0.99:
                    r = rng.choice(SRES)
                    desc["trail"].append(("reregister", r))
                    ctx.count("reregistrations")
                    if ctl.resources[r].owner is not None:
                        ctx.count("reregistered_while_held")
                    front.register_resource(r, rng.random() < 0.5)
                elif not expired and i > nops // 2 and rng.random() < 0.2:
                    # a jump of more than four days: from now on every operation that is still alive at a maintenance call is overdue
                    clock.advance(TIMEOUT + 86400.0 + 50.0)
                    expired = True
                    desc["trail"].append(("clock-jump",))
            except BaseException as e:
                viol("followup-raises:session", "long session step %d raised %r" % (i, e))
                return
        try:
            (cell.shutdown() if cell is not None else system.shutdown())
        except BaseException as e:
            viol("followup-raises:final", "long session: shutdown raised %r" % (e,))
            return
        ctx.count("final_shutdowns")
        owned = {r: (lk.owner, lk.hold_count) for r, lk in ctl.resources.items() if lk.owner is not None}
        if owned or ctl.active_operations:
            viol("resource-leak:shutdown", "long session: after shutdown owned=%s active=%s" % (owned, list(ctl.active_operations)[:5]))
            return
    ctx.nontrivial(("session", k))


if __name__ == "__main__":
    core.main(sys.modules[__name__])
