"""C14 — coordinated operations release every resource on every exit path (fault enumeration).

Ownership model + snapshots: before each call the harness snapshots (owner, hold_count) of every
registered lock; stubs for work / validate / checkpoint conditions log invocation order and sample
ownership from INSIDE work_fn; after the call the real state is compared with the model. The
product (preemption mask x request list x pre-existing holder x fault point) is enumerated.
"""
import sys

from rv import core
from rv.vclock import VClock, patched
from rv.faults import make_exception

PID = "C14"
LEVEL = "fault_enumeration"
TECHNIQUE = "runtime monitoring with fault injection: enumerated request lists x holders x fault points driven through the real controller; ownership snapshots, in-work ownership sampling and callback order logs checked against an ownership model"
RULE = ("enumeration: preemption mask (4) x request lists of length <= 3 (quick) / <= 4 (thorough) over {r1,r2,r3,unknown} incl. repeats x "
        "pre-existing holder (none | holding each non-empty subset at lower/equal/higher priority | holding r1 twice) x fault point "
        "(none, G0/G1/S/G2 checkpoint false or raising, work raises, work falsy, validate false/raises/absent, kill or watchdog timeout from inside work, "
        "a nested coordinated operation run from inside work followed by failure, manual kill / shutdown / watchdog kill delivered from a checkpoint condition) "
        "+ seeded follow-ups (second operation reusing ids, holder complete/abort/manual kill/watchdog, shutdown); 1 case in 8 goes through IntegratedCell.execute; "
        "non-trivial = case has a fault or a contended / repeated / unknown resource; distinct = (mask, list, holder, fault)")
ASSUMPTIONS = ["'untouched' = owner and hold_count of locks the operation never obtained; waiting lists may change",
               "a kill issued from inside work_fn is a fault point; ownership is sampled before the kill"]

RES = ["r1", "r2", "r3"]
SYMS = ["r1", "r2", "r3", "unknown"]
MASKS = [(False, False), (True, False), (False, True), (True, True)]
FAULTS = ["none", "g0_false", "g1_false", "g1_raise", "s_false", "s_raise", "g2_false", "g2_raise", "work_raises", "work_falsy",
          "validate_false", "validate_raises", "validate_absent", "kill_in_work", "watchdog_in_work",
          "nested_work_raises", "nested_validate_false", "nested_validate_raises", "nested_ok",
          "kill_in_g0_cp", "shutdown_in_g0_cp", "watchdog_in_g0_cp", "kill_in_s_cp", "kill_in_g2_cp",
          "work_raises_empty", "validate_raises_empty", "validate_assert", "g1_raise_empty"]


def holders():
    hs = [None]
    subsets = [("r1",), ("r2",), ("r3",), ("r1", "r2"), ("r1", "r3"), ("r2", "r3"), ("r1", "r2", "r3")]
    for s in subsets:
        for rel in (-1, 0, 1):
            hs.append((s, rel))
    hs.append((("r1", "r1"), 0))
    hs.append((("r1", "r1", "r2"), -1))
    return hs


HOLDERS = holders()


def lists(maxlen):
    out = [()]
    cur = [()]
    for _ in range(maxlen):
        cur = [l + (s,) for l in cur for s in SYMS]
        out += cur
    return out


LISTS3 = lists(3)
LISTS4 = lists(4)


def space(tier):
    L = LISTS3 if tier == "quick" else LISTS4
    return len(MASKS) * len(L) * len(HOLDERS) * len(FAULTS), L


def plan(tier):
    total, _ = space(tier)
    return {"cases": total, "shards": 8 if tier == "quick" else 14, "min_nontrivial": 1000,
            "timeout": 600 if tier == "quick" else 2400, "exhaustive": True, "min_fraction": 1.0,
            "require": {"execute_calls": total, "work_runs_sampled": 5000, "blocked_acquisitions": 5000, "preemptions": 500,
                        "reentrant_requests": 2000, "checkpoint_faults_hit": 2000, "kills_inside_work": 1000,
                        "followup_ops": 5000, "holder_exits_checked": 3000, "cell_entry": 1000, "nested_operations": 1000,
                        "kills_from_checkpoint": 2000}}


class Boom(Exception):
    pass


def run_case(ctx, n):
    import operon_ai.coordination.controller as cmod
    import operon_ai.coordination.types as tmod
    import operon_ai.coordination.watchdog as wmod
    from operon_ai.coordination.system import CoordinationSystem
    from operon_ai.coordination.controller import Checkpoint
    from operon_ai.coordination.types import Phase, LockResult
    from datetime import timedelta

    total, L = space(ctx.tier)
    idx = n
    idx, fi = divmod(idx, len(FAULTS))
    idx, hi = divmod(idx, len(HOLDERS))
    idx, li = divmod(idx, len(L))
    mi = idx % len(MASKS)
    fault, holder, req, mask = FAULTS[fi], HOLDERS[hi], list(L[li]), MASKS[mi]
    rng = ctx.rng(n)
    use_cell = rng.random() < 0.15      # (not a function of n modulo anything: every fault point must meet both entry points)
    clock = VClock()   # real 'now' as base: dataclass default factories captured the real utcnow
    desc = {"preemptable": {"r1": mask[0], "r2": mask[1], "r3": False}, "request": req, "holder": holder, "fault": fault,
            "entry": "IntegratedCell.execute" if use_cell else "CoordinationSystem.execute_operation", "followups": []}

    def viol(mech, what):
        ctx.violation(mech, what, desc)

    with patched(clock, cmod, tmod, wmod):
        if use_cell:
            from operon_ai.cell import IntegratedCell
            cell = IntegratedCell(max_operation_time=timedelta(seconds=100))
            system = cell.coordination
            ctx.count("cell_entry")
        else:
            cell = None
            system = CoordinationSystem(max_operation_time=timedelta(seconds=100))
        ctl = system.controller
        system.register_resource("r1", allow_preemption=mask[0])
        system.register_resource("r2", allow_preemption=mask[1])
        system.register_resource("r3", allow_preemption=False)
        system.register_resource("r4", allow_preemption=False)     # only ever used by the nested operation
        locks = ctl.resources
        OP_PRIO = 5
        # ---- pre-existing holder
        hctx = None
        if holder is not None:
            hres, rel = holder
            hctx = system.start_operation("H", "agent-h", priority=OP_PRIO + rel)
            for r in hres:
                ctl.acquire_resource(hctx, r)
        # ---- fault wiring
        log = []
        sampled = {}

        def cp_fault(kind):
            def cond(c):
                if c.operation_id != "op":
                    return True
                log.append("cp:" + kind)
                ctx.count("checkpoint_faults_hit")
                if kind.endswith("raise_empty"):
                    raise Boom()
                if kind.endswith("raise"):
                    raise make_exception(n + 5, "checkpoint exploded")
                if kind.startswith("kill_in"):
                    if "killed" not in sampled:
                        sampled["killed"] = True
                        ctx.count("kills_from_checkpoint")
                        system.kill_operation("op", "killed from a checkpoint condition")
                    return True
                if kind.startswith("shutdown_in"):
                    if "killed" not in sampled:
                        sampled["killed"] = True
                        ctx.count("kills_from_checkpoint")
                        system.shutdown()
                    return True
                if kind.startswith("watchdog_in"):
                    if "killed" not in sampled:
                        sampled["killed"] = True
                        ctx.count("kills_from_checkpoint")
                        clock.advance(1000.0)
                        system.run_maintenance()
                    return True
                return False
            return cond
        phase_of = {"g0": Phase.G0, "g1": Phase.G1, "s": Phase.S, "g2": Phase.G2}
        ph = phase_of.get(fault.split("_")[0]) if fault.endswith(("_false", "_raise", "_raise_empty")) else None
        if fault.endswith("_cp"):
            ph = phase_of[fault.split("_")[2]]
        if ph is not None:
            ctl.checkpoints[ph] = list(ctl.checkpoints[ph]) + [Checkpoint(phase=ph, condition=cp_fault(fault), name="injected")]

        def snap():
            return {r: (locks[r].owner, locks[r].hold_count) for r in RES}

        def work():
            log.append("work")
            sampled["own"] = {r: locks[r].owner for r in RES}
            sampled["active"] = "op" in ctl.active_operations
            ctx.count("work_runs_sampled")
            if fault.startswith("nested"):
                ctx.count("nested_operations")
                inner = system.execute_operation("inner", "agent-i", lambda: "inner-result", resources=["r4"], priority=OP_PRIO)
                sampled["inner_success"] = inner.success
            if fault == "work_raises_empty":
                raise Boom()            # an exception without a message
            if fault in ("work_raises", "nested_work_raises"):
                raise make_exception(n, "work failed")
            if fault == "kill_in_work":
                ctx.count("kills_inside_work")
                system.kill_operation("op", "killed from inside")
            if fault == "watchdog_in_work":
                ctx.count("kills_inside_work")
                clock.advance(1000.0)
                if cell is not None:
                    cell.run_maintenance()
                else:
                    system.run_maintenance()
            return 0 if fault == "work_falsy" else {"answer": 42}

        def validate(res):
            log.append("validate")
            if fault == "validate_raises_empty":
                raise ValueError()
            if fault == "validate_assert":
                assert res is None      # a bare assert: AssertionError without a message
            if fault in ("validate_raises", "nested_validate_raises"):
                raise make_exception(n + 3, "validator exploded")
            return fault not in ("validate_false", "nested_validate_false")

        # ---- model: which acquisitions succeed
        before = snap()
        own = dict((r, before[r][0]) for r in RES)
        if fault in ("shutdown_in_g0_cp", "watchdog_in_g0_cp"):
            own = {r: (None if o == "H" else o) for r, o in own.items()}     # the holder is gone before the acquisitions start
        prio = {"H": OP_PRIO + (holder[1] if holder else 0)}
        obtained = {}          # resource -> times obtained by op
        stopped = None
        for r in req:
            if r == "unknown":
                stopped = "unknown"
                break
            if own[r] is None:
                own[r] = "op"
                obtained[r] = obtained.get(r, 0) + 1
            elif own[r] == "op":
                obtained[r] = obtained.get(r, 0) + 1
                ctx.count("reentrant_requests")
            elif desc["preemptable"][r] and OP_PRIO > prio[own[r]]:
                own[r] = "op"
                obtained[r] = obtained.get(r, 0) + 1
                ctx.count("preemptions")
            else:
                stopped = "blocked"
                ctx.count("blocked_acquisitions")
                break
        ctx.count("execute_calls")
        vf = None if fault == "validate_absent" else validate
        try:
            if cell is not None:
                cres = cell.execute("agent-a", "op", work, resources=list(req), validate_fn=vf, priority=OP_PRIO)
                success = cres.success
            else:
                res = system.execute_operation("op", "agent-a", work, resources=list(req), validate_fn=vf, priority=OP_PRIO)
                success = res.success
        except BaseException as e:
            viol("execute-raises", "execute raised %r" % (e,))
            return
        after = snap()
        desc["log"] = list(log)
        desc["before"], desc["after"] = before, after
        desc["success"] = success
        path = fault if stopped is None else stopped
        # 1. nothing owned, not active
        for r in RES:
            if after[r][0] == "op":
                mech = "reentrant-hold-leak" if obtained.get(r, 0) > 1 else "resource-leak:%s" % path
                viol(mech, "%s still owned by the finished operation (hold_count %d) after exit path %s" % (r, after[r][1], path))
                return
        if locks["r4"].owner is not None or "inner" in ctl.active_operations:
            viol("resource-leak:nested-operation", "nested operation left r4 owned by %r / active=%s" % (locks["r4"].owner, "inner" in ctl.active_operations))
            return
        if "op" in ctl.active_operations:
            viol("still-active:%s" % path, "operation still listed as active after exit path %s" % path)
            return
        # 2. never-obtained resources untouched (a holder killed by the watchdog fault legitimately loses its locks)
        holder_killed = (fault == "watchdog_in_work" and "work" in log) or fault in ("shutdown_in_g0_cp", "watchdog_in_g0_cp")
        for r in RES:
            if r not in obtained and after[r] != before[r] and not (holder_killed and before[r][0] == "H"):
                viol("untouched-resource-changed:%s" % path, "%s was never obtained by the operation but went %s -> %s" % (r, before[r], after[r]))
                return
        # 3. work / validate discipline
        nwork, nval = log.count("work"), log.count("validate")
        if nwork > 1:
            viol("work-ran-twice", "work_fn ran %d times" % nwork)
            return
        cp_blocks_before_work = fault in ("g0_false", "g1_false", "g1_raise", "g1_raise_empty")
        if nwork == 1:
            if stopped is not None:
                viol("work-without-resources:%s" % stopped, "work_fn ran although acquisition stopped (%s)" % stopped)
                return
            missing = [r for r in set(req) if r != "unknown" and sampled["own"].get(r) != "op"]
            if missing:
                viol("work-without-holding", "work_fn ran while %s not owned by the operation (owners %s)" % (missing, sampled["own"]))
                return
            if cp_blocks_before_work and fault != "g0_false":
                viol("work-after-failed-checkpoint", "work_fn ran although the injected %s checkpoint rejected" % fault)
                return
        if nval > 1:
            viol("validate-ran-twice", "validate_fn ran %d times" % nval)
            return
        if nval == 1:
            if nwork != 1 or fault in ("work_raises", "nested_work_raises", "work_raises_empty") or log.index("validate") < log.index("work"):
                viol("validate-before-work-completed", "validate ran with log %s" % log)
                return
        # 4. success only if both succeeded
        if success:
            ok = nwork == 1 and fault not in ("work_raises", "nested_work_raises", "work_raises_empty") and (
                vf is None or (nval == 1 and fault not in ("validate_false", "validate_raises", "nested_validate_false", "nested_validate_raises",
                                                           "validate_raises_empty", "validate_assert")))
            if not ok:
                viol("success-without-work-and-validation:%s" % fault, "success reported with log %s under fault %s" % (log, fault))
                return
            if stopped is not None:
                viol("success-without-resources", "success reported although acquisition stopped (%s)" % stopped)
                return
        # ---- follow-ups
        for k in range(rng.randint(0, 3)):
            ctx.count("followup_ops")
            choice = rng.choice(["op2", "holder_complete", "holder_abort", "holder_kill", "watchdog", "shutdown", "op_again", "k_hold", "k_hold", "holder_release_one", "holder_release_one"])
            desc["followups"].append(choice)
            b2 = snap()
            try:
                if choice == "holder_release_one":
                    if hctx is not None and "H" in ctl.active_operations and hctx.acquired_resources:
                        rr = rng.choice(sorted(hctx.acquired_resources))
                        okr = ctl.release_resource(hctx, rr)
                        desc["followups"][-1] = "holder_release_one:%s:%s" % (rr, okr)
                        ctx.count("manual_releases")
                    continue
                if choice == "k_hold" and "K" not in ctl.active_operations:
                    # a second live operation takes (possibly preempts) a resource and keeps it
                    kctx = system.start_operation("K", "agent-k", priority=9)
                    rk = rng.choice(RES)
                    got = ctl.acquire_resource(kctx, rk)
                    desc["followups"][-1] = "k_hold:%s:%s" % (rk, got.value)
                    continue
                if choice in ("op2", "op_again"):
                    oid = "op2" if choice == "op2" else "op"
                    req2 = [rng.choice(SYMS[:3]) for _ in range(rng.randint(0, 3))]
                    ran = []
                    r2 = system.execute_operation(oid, "agent-b", lambda: ran.append(1) or "x", resources=req2, priority=rng.choice([1, 5, 9]))
                    a2 = snap()
                    for r in RES:
                        if b2[r][0] not in (None, oid) and a2[r] != b2[r] and not (a2[r] == (None, 0) and locks[r].allow_preemption):
                            viol("exit-touches-foreign-lock:followup", "operation %s requesting %s changed %s, owned by %s: %s -> %s" % (
                                oid, req2, r, b2[r][0], b2[r], a2[r]))
                            return
                    leak = [r for r in RES if a2[r][0] == oid]
                    if leak or oid in ctl.active_operations:
                        mech = "reentrant-hold-leak" if any(req2.count(r) > 1 for r in leak) else "resource-leak:followup"
                        viol(mech, "follow-up operation %s requesting %s left %s owned / active=%s" % (oid, req2, leak, oid in ctl.active_operations))
                        return
                    if len(ran) > 1:
                        viol("work-ran-twice", "follow-up work ran %d times" % len(ran))
                        return
                elif hctx is not None and choice.startswith("holder"):
                    if "H" in ctl.active_operations:
                        if choice == "holder_complete":
                            ctl.complete_operation(hctx)
                        elif choice == "holder_abort":
                            ctl.abort_operation(hctx, "test")
                        else:
                            system.kill_operation("H", "manual")
                        ctx.count("holder_exits_checked")
                        a2 = snap()
                        for r in RES:
                            if b2[r][0] not in (None, "H") and a2[r] != b2[r]:
                                viol("exit-touches-foreign-lock:%s" % choice, "holder exit via %s changed %s, owned by %s: %s -> %s" % (
                                    choice, r, b2[r][0], b2[r], a2[r]))
                                return
                        leak = [r for r in RES if a2[r][0] == "H"]
                        if leak or "H" in ctl.active_operations:
                            multi = any(holder[0].count(r) > 1 for r in leak)
                            viol("reentrant-hold-leak" if multi else "resource-leak:%s" % choice,
                                 "holder exit via %s left %s owned by H" % (choice, leak))
                            return
                elif choice == "watchdog":
                    clock.advance(1000.0)
                    system.run_maintenance()
                    ctx.count("holder_exits_checked")
                    a2 = snap()
                    for oid in ("H", "op", "op2", "K"):
                        leak = [r for r in RES if a2[r][0] == oid]
                        if leak and oid not in ctl.active_operations:
                            multi = oid == "H" and holder and any(holder[0].count(r) > 1 for r in leak)
                            viol("reentrant-hold-leak" if multi else "resource-leak:watchdog", "watchdog kill left %s owned by %s" % (leak, oid))
                            return
                    if "H" in ctl.active_operations or "K" in ctl.active_operations:
                        viol("watchdog-timeout-not-enforced", "operation H exceeded max_operation_time and is still active after watchdog.execute")
                        return
                elif choice == "shutdown":
                    system.shutdown()
                    ctx.count("holder_exits_checked")
                    a2 = snap()
                    owned = {r: a2[r] for r in RES if a2[r][0] is not None}
                    if owned or ctl.active_operations:
                        multi = holder and any(holder[0].count(r) > 1 for r in owned)
                        viol("reentrant-hold-leak" if multi else "resource-leak:shutdown", "after shutdown: owned=%s active=%s" % (owned, list(ctl.active_operations)))
                        return
            except BaseException as e:
                viol("followup-raises:%s" % choice, "%s raised %r" % (choice, e))
                return
    if fault != "none" or stopped is not None or any(v > 1 for v in obtained.values()) or holder is not None:
        ctx.nontrivial((mi, li, hi, fi))
    if n % 9973 == 0:
        ctx.sample(desc)


if __name__ == "__main__":
    core.main(sys.modules[__name__])
