"""C14 — coordinated operations release every resource on every exit path (fault enumeration).

Ownership model + snapshots: before each call the harness snapshots (owner, hold_count) of every
registered lock; stubs for work / validate / checkpoint conditions log invocation order and sample
ownership from INSIDE work_fn; after the call the real state is compared with the model. The
product (preemption mask x request list x pre-existing holder x fault point) is enumerated; on top
of every enumerated case independent modifiers are drawn from the case rng (controller checkpoint
configuration, watchdog time scale, priority arithmetic, validation verdict, a re-registration of a
resource while it is held, read-only API calls interleaved everywhere, a second differently
configured instance used alternately, a case-differing resource id held by a bystander, mutation of
the request list after the call started). Long single-instance sessions (> 20 000 operations each) judged by the
same obligations run first.

Round 4 adds, again as independent modifiers with their own rng stream: the shape of the user callables (optional / variadic extra
parameters, callable objects, FALSY callable objects, partials, bound methods, Mocks) x the exception type they raise; the request
handed over as tuple / generator / iterator / map / filter / deque / dict view / str subclasses / None; watchdog limit assigned or
withdrawn after construction; the preemption flag assigned in place on the registered lock; the checkpoint table replaced from inside
work; work results that look like the library's own result objects; bool / Fraction / Decimal priorities; the session continued on a
copy.deepcopy / copy.copy of the system (the original must stay untouched); a process time zone far from UTC (with a 26 h step of the
local clock at the watchdog expiry) and a maintenance run before anything is overdue; resource / agent ids with braces, %, regex
metacharacters, NUL, newline and lone surrogates under a strict UTF-8 stdout; follow-ups that drive an operation by hand through the
controller API, break a two-operation deadlock, call the rarely used waiter / priority / dependency-graph methods and queue 70-130
distinct waiters behind one holder; and a sample of the enumeration in a child interpreter started with -O.
"""
import collections
import contextlib
import copy
import functools
import gc
import io
import json
import math
import os
import subprocess
import sys
import time as _rtime
from decimal import Decimal
from fractions import Fraction

from rv import core
from rv.vclock import VClock, patched
from rv.faults import enable_unprintable, make_exception

enable_unprintable()      # "whatever the user code raises" includes exceptions that cannot be turned into text

PID = "C14"
LEVEL = "fault_enumeration"
TECHNIQUE = "runtime monitoring with fault injection: enumerated request lists x holders x fault points driven through the real controller; ownership snapshots, in-work ownership sampling and callback order logs checked against an ownership model"
RULE = ("enumeration: preemption mask (4) x request lists of length <= 3 (quick) / <= 4 (thorough) over {r1,r2,r3,unknown} incl. repeats x "
        "pre-existing holder (none | holding each non-empty subset at lower/equal/higher priority | holding r1 twice) x fault point "
        "(none, G0/G1/S/G2 checkpoint false or raising, work raises, work falsy, validate false/raises/absent, kill / shutdown / watchdog timeout from inside work or from inside validate, "
        "a nested coordinated operation run from inside work (also one that preempts the outer operation's own resources) followed by failure, manual kill / shutdown / watchdog kill delivered from a checkpoint condition) "
        "+ per-case modifiers drawn from the case rng: checkpoint configuration (default | user-supplied full dict | partial dict | G2 list replaced | G2 list empty), watchdog time scale "
        "(100 s | sub-second | more than a day with a two-day jump | None | zero), priority arithmetic (small ints | zero/negative | above 2**53 | last-bit floats | signed zero | inf | nan), "
        "validation verdict for fault points that reach validation (True | False | 0 | raises | absent | truthy non-bool), re-registration of a resource id before the call / from work / validate / a checkpoint, "
        "read-only API calls at every callback and between calls, a second differently configured instance with the same ids, a bystander holding a case-differing id, request list mutated from inside work "
        "+ seeded follow-ups (second operation reusing ids, holder complete/abort/manual kill/watchdog, shutdown, re-registration, reads) and a final shutdown of every case; 1 case in 7 goes through IntegratedCell; "
        "+ long sessions (quick 2 x 38 000, thorough 6 x 45 000 steps on one instance: > 25 000 coordinated operations and > 20 000 distinct operation ids each); "
        "+ round-4 modifiers: callable shapes (plain | optional extra positional | *args/**kwargs | keyword-only optional | callable object | falsy callable object (__len__ 0 / __bool__ False) | partial | bound method | Mock) for work, validate and the injected checkpoint condition "
        "x raised exception type (the shared family | TypeError incl. one that reads like a signature mismatch, TimeoutError, KeyError, AssertionError, StopIteration, ...); "
        "request as list | tuple | generator | iterator | map | filter | deque | dict keys view | list of str subclasses | None when empty; max_operation_time from the constructor | assigned later | withdrawn later; "
        "allow_preemption assigned in place (bool / int / str / None); checkpoint table replaced from inside work; work result dict | None | exception instance | duck-typed result object | LockResult.BLOCKED | a failed CoordinationResult; "
        "priorities bool | Fraction | Decimal; deep / shallow copy of the system taking over the session; TZ unset | UTC | UTC+14 | UTC-12 | UTC+5:45 with a 26 h local-clock step at expiry and a maintenance run while nothing is overdue; "
        "hostile resource / agent ids + strict UTF-8 stdout in 1 case of 4; follow-ups manual step-by-step operation x 7 exit routes, deadlock between two bystanders resolved by maintenance (strategy priority | oldest | unknown | None), "
        "waiter / priority-inheritance / dependency-graph calls, a shaped second operation, 70 / 130 distinct waiters behind one holder; 1500 (quick) / 5000 (thorough) enumerated cases repeated under python -O; "
        "non-trivial = case has a fault or a contended / repeated / unknown resource; distinct = (mask, list, holder, fault)")
ASSUMPTIONS = ["'untouched' = owner and hold_count of locks the operation never obtained; waiting lists may change",
               "a kill issued from inside work_fn is a fault point; ownership is sampled before the kill",
               "'validation returning false' covers the falsy verdicts False and 0 (the unchanged tree tests truthiness); truthy non-bool verdicts carry no obligation",
               "a resource id registered again by the USER while it is held is the user's action: that id is exempt from 'untouched', never from 'not owned by the finished operation'",
               "'raising' = Exception subclasses (those whose own __str__ / __repr__ fail included); BaseException-only signals are not judged",
               "whether a watchdog configured with a zero timeout kills is not judged (either outcome accepted); an expired positive timeout must kill",
               "a validate_fn that was supplied (is not None) must have run and accepted before success is reported, whatever its own truth value (falsy callable objects included)",
               "settings follow their CURRENT value: a watchdog limit assigned to system.watchdog.max_operation_time after construction is enforced, a withdrawn one (None) kills nobody; allow_preemption assigned on the registered lock counts by truthiness",
               "any iterable of ids is a request list (one-shot iterables included); the library may pass extra arguments to tolerant callables, but still runs work at most once",
               "a deep copy of a system is an independent system (operations on it never change the original); a shallow copy shares the controller",
               "which operation a deadlock resolution kills is not judged, only that the victim owns nothing and the survivor keeps its lock"]

RES = ["r1", "r2", "r3"]
SYMS = ["r1", "r2", "r3", "unknown"]
MASKS = [(False, False), (True, False), (False, True), (True, True)]
FAULTS = ["none", "g0_false", "g1_false", "g1_raise", "s_false", "s_raise", "g2_false", "g2_raise", "work_raises", "work_falsy",
          "validate_false", "validate_raises", "validate_absent", "kill_in_work", "watchdog_in_work",
          "nested_work_raises", "nested_validate_false", "nested_validate_raises", "nested_ok",
          "kill_in_g0_cp", "shutdown_in_g0_cp", "watchdog_in_g0_cp", "kill_in_s_cp", "kill_in_g2_cp",
          "work_raises_empty", "validate_raises_empty", "validate_assert", "g1_raise_empty",
          "kill_in_validate", "shutdown_in_work", "shutdown_in_validate", "watchdog_in_validate", "nested_preempts"]
WORK_EXC = ("work_raises", "nested_work_raises", "work_raises_empty")
VMODE_OF_FAULT = {"validate_absent": "absent", "validate_false": "false", "nested_validate_false": "false", "validate_raises": "raises",
                  "nested_validate_raises": "raises", "validate_raises_empty": "raises_empty", "validate_assert": "assert"}
SESSIONS = {"quick": 2, "thorough": 6}
SESSION_OPS = {"quick": 38000, "thorough": 45000}
RESULT = {"answer": 42}     # one module-level object returned by every work function of every case


def holders():
    hs = [None]
    subsets = [("r1",), ("r2",), ("r3",), ("r1", "r2"), ("r1", "r3"), ("r2", "r3"), ("r1", "r2", "r3")]
    for s in subsets:
        for rel in (-1, 0, 1):
            hs.append((s, rel))
    hs.append((("r1", "r1"), 0))
    hs.append((("r1", "r1", "r2"), -1))
    return hs


HOLDERS = holders()


def lists(maxlen):
    out = [()]
    cur = [()]
    for _ in range(maxlen):
        cur = [l + (s,) for l in cur for s in SYMS]
        out += cur
    return out


LISTS3 = lists(3)
LISTS4 = lists(4)


def space(tier):
    L = LISTS3 if tier == "quick" else LISTS4
    return len(MASKS) * len(L) * len(HOLDERS) * len(FAULTS), L


def plan(tier):
    total, _ = space(tier)
    return {"cases": total + SESSIONS[tier], "shards": 8 if tier == "quick" else 14, "min_nontrivial": 1000,
            "timeout": 1500 if tier == "quick" else 4800, "exhaustive": True, "min_fraction": 1.0,
            "require": {"execute_calls": total, "work_runs_sampled": 5000, "blocked_acquisitions": 5000, "preemptions": 500,
                        "reentrant_requests": 2000, "checkpoint_faults_hit": 2000, "kills_inside_work": 1000,
                        "followup_ops": 5000, "holder_exits_checked": 3000, "cell_entry": 1000, "nested_operations": 1000,
                        "kills_from_checkpoint": 2000,
                        # round 3
                        "kills_inside_validate": 300, "custom_checkpoint_configs": 10000, "validation_rejected_after_work": 1500,
                        "rejected_under_custom_config": 300, "rejected_after_kill": 40, "reregistrations": 5000,
                        "reregistered_while_held": 1000, "reads_interleaved": 10000, "twin_instances": 5000, "twin_checks": 5000,
                        "bystander_cases": 5000, "odd_priority_cases": 10000, "odd_timeout_cases": 10000,
                        "watchdog_expiry_judged": 1500, "final_shutdowns": 20000, "request_list_mutated": 200,
                        "session_operations": 9000, "session_holder_exits": 300, "session_distinct_ids": 7000,
                        # round 4
                        "callable_shapes": 20000, "falsy_validator_cases": 2000, "resources_not_a_list": 20000, "work_raised_under_tolerant_signature": 150,
                        "work_raised_discriminable_type_under_tolerant_signature": 30, "timezone_cases": 8000, "timezone_steps": 500,
                        "hostile_name_cases": 6000, "strict_stdout_cases": 6000, "timeout_assigned_after_construction": 8000,
                        "preemption_flag_assigned_in_place": 3000, "checkpoints_swapped_in_flight": 200, "duplicated_instances": 2000,
                        "duplicate_checks": 1500, "deadlock_kills_checked": 3000, "manual_operations": 7000, "misc_api_calls": 3000,
                        "shaped_followups": 3000, "waiter_floods": 1000, "optimized_interpreter_cases": 300, "optimized_interpreter_work_runs": 20,
                        "optimized_interpreter_blocked": 60}}


class Boom(Exception):
    pass


def pick(rng, weighted):
    tot = sum(w for _, w in weighted)
    x = rng.random() * tot
    for v, w in weighted:
        x -= w
        if x < 0:
            return v
    return weighted[-1][0]


def fresh(s):
    """an equal but distinct str object (never the interned literal)"""
    return s[:1] + s[1:] if len(s) > 1 else s


class SId(str):
    """a str subclass: equal to and hashing like the plain id"""
    __slots__ = ()


class CallObj:
    """a callable OBJECT (not a function); accepts any extra arguments"""
    def __init__(self, fn):
        self.fn = fn

    def __call__(self, *a, **k):
        return self.fn(*a, **k)

    def run(self, *a, **k):
        return self.fn(*a, **k)


class FalsyLen(CallObj):
    """a callable that is falsy because it is an (empty) collection as well, e.g. a validator that records its failures"""
    def __len__(self):
        return 0


class FalsyBool(CallObj):
    def __bool__(self):
        return False


SHAPES = [("plain", 40), ("optpos", 12), ("varargs", 12), ("kwonly_opt", 4), ("callable_obj", 8), ("falsy_len", 5), ("falsy_bool", 5),
          ("partial", 5), ("bound", 5), ("mock", 4)]
FALSY_SHAPES = ("falsy_len", "falsy_bool")
SESSION_SHAPES = [("plain", 40), ("optpos", 20), ("varargs", 20), ("callable_obj", 10), ("partial", 5), ("bound", 5)]


def shaped(kind, body, argc, seen=None):
    """the user callable `body` (taking exactly argc positional arguments) dressed as callable shape `kind`; whatever else the library
    passes is recorded in `seen` and dropped"""
    def core_(*a, **k):
        if seen is not None and (len(a) > argc or k):
            seen.append((len(a), sorted(k)))
        return body(*a[:argc])
    if kind == "plain":
        return body
    if kind == "optpos":
        if argc == 0:
            def f0(extra=None):
                return core_() if extra is None else core_(extra)
            return f0

        def f1(x, extra=None):
            return core_(x) if extra is None else core_(x, extra)
        return f1
    if kind == "varargs":
        return lambda *a, **k: core_(*a, **k)
    if kind == "kwonly_opt":
        if argc == 0:
            return lambda *, ctx=None, context=None, operation=None: core_()
        return lambda x, *, ctx=None, context=None, operation=None: core_(x)
    if kind == "callable_obj":
        return CallObj(core_)
    if kind == "falsy_len":
        return FalsyLen(core_)
    if kind == "falsy_bool":
        return FalsyBool(core_)
    if kind == "partial":
        return functools.partial(lambda tag, *a, **k: core_(*a, **k), "tag")
    if kind == "bound":
        return CallObj(core_).run
    if kind == "mock":
        from unittest import mock
        return mock.Mock(side_effect=core_)
    raise AssertionError(kind)


RES_SHAPES = [("list", 40), ("tuple", 8), ("gen", 10), ("iter", 10), ("map", 6), ("deque", 5), ("dictkeys", 5), ("strsub", 8), ("none_if_empty", 4), ("filter", 4)]


def shape_resources(kind, ids):
    """the request list handed over as another iterable type (one-shot ones included); `ids` itself when kind == 'list'"""
    if kind == "tuple":
        return tuple(ids)
    if kind == "gen":
        return (r for r in ids)
    if kind == "iter":
        return iter(ids)
    if kind == "map":
        return map(str, ids)
    if kind == "filter":
        return filter(None, ids)
    if kind == "deque":
        return collections.deque(ids)
    if kind == "dictkeys" and len(set(ids)) == len(ids):
        return dict.fromkeys(ids).keys()
    if kind == "strsub":
        return [SId(r) for r in ids]
    if kind == "none_if_empty" and not ids:
        return None
    return ids


# exception types a handler could tell apart (retry / fallback / timeout handling / signature probing)
DISCRIMINABLE = [TypeError, TypeError, TimeoutError, KeyError, AssertionError, StopIteration, AttributeError, ValueError, LookupError,
                 NotImplementedError, RuntimeError, OSError, IndexError]


def pick_exception(rng, index, message):
    if rng.random() < 0.5:
        return make_exception(index, message)
    cls = rng.choice(DISCRIMINABLE)
    if cls is TypeError and rng.random() < 0.5:
        return TypeError("work() takes 0 positional arguments but 1 was given")     # a TypeError that reads like a signature mismatch
    return cls() if rng.random() < 0.3 else cls(message)


HOSTILE = {"r1": "r1{0}%s{", "r2": "r2\n\x00(.*)[\\", "r3": "r3\udc80\u00e9%(x)s", "r4": "r4}$^|", "unknown": "unk{}%d\udcff",
           "d1": "d1{", "d2": "%d2"}
TZS = ["UTC", "XLO-14", "XLW12", "XNP-5:45"]       # POSIX TZ strings (no tz database needed): UTC+14, UTC-12, UTC+5:45


class Duck:
    """a work result that carries attributes named like the library's own result fields"""
    success = False
    error = "blocked"
    phase_reached = None
    result = None
    validation_passed = False
    execution_complete = False

    def __bool__(self):
        return False


@contextlib.contextmanager
def environment(tz, strict_stdout):
    """process-wide settings of one case: the time zone (restored afterwards) and a strict UTF-8 stdout"""
    old_tz = os.environ.get("TZ")
    old_out = sys.stdout
    try:
        if tz is not None:
            os.environ["TZ"] = tz
            _rtime.tzset()
        if strict_stdout:
            sys.stdout = io.TextIOWrapper(io.BytesIO(), encoding="utf-8", errors="strict")
        yield
    finally:
        sys.stdout = old_out
        if tz is not None:
            if old_tz is None:
                os.environ.pop("TZ", None)
            else:
                os.environ["TZ"] = old_tz
            _rtime.tzset()


def set_tz(tz):
    os.environ["TZ"] = tz
    _rtime.tzset()


def priorities(scheme, rel):
    """(priority of the judged operation, priority of the pre-existing holder) for holder relation rel in -1/0/+1"""
    if scheme == "int5":
        return 5, 5 + rel
    if scheme == "zero":
        return 0, rel
    if scheme == "big":
        return 2 ** 53 + 1, 2 ** 53 + 1 + rel
    if scheme == "ulp":
        a = 0.1 + 0.2
        return a, {-1: 0.3, 0: 0.1 + 0.2, 1: math.nextafter(a, 1.0)}[rel]
    if scheme == "signedzero":
        return 0.0, {-1: -5e-324, 0: -0.0, 1: 5e-324}[rel]
    if scheme == "inf":
        return {-1: (float("inf"), 1e308), 0: (float("inf"), float("inf")), 1: (1e308, float("inf"))}[rel]
    if scheme == "bool":
        return True, {-1: False, 0: True, 1: 2}[rel]
    if scheme == "fraction":
        a = Fraction(1, 3)
        return a, a + rel * Fraction(1, 10 ** 30)
    if scheme == "decimal":
        a = Decimal("0.1")
        return a, a + rel * Decimal("1e-27")
    if scheme == "nan_op":
        return float("nan"), 5 + rel
    if scheme == "nan_holder":
        return 5, float("nan")
    raise AssertionError(scheme)


def make_checkpoints(kind, Checkpoint, Phase):
    """user-supplied checkpoint configurations (None = library default)"""
    if kind == "custom_full":
        return {ph: [Checkpoint(phase=ph, condition=lambda c: True, name="user-%s" % ph.value)] for ph in (Phase.G0, Phase.G1, Phase.S, Phase.G2, Phase.M)}
    if kind == "custom_partial":
        return {Phase.G1: [Checkpoint(phase=Phase.G1, condition=lambda c: c.resources_acquired, name="user-g1")]}
    return None


def run_case(ctx, n):
    # the long sessions come first (cases 0 .. SESSIONS-1): a run that is cut short by its wall budget has still done them
    if n < SESSIONS[ctx.tier]:
        return session_case(ctx, n)
    n -= SESSIONS[ctx.tier]
    erng = ctx.rng(n, "environment")
    tz = pick(erng, [(None, 70), ("XLO-14", 10), ("XLW12", 10), ("XNP-5:45", 4), ("UTC", 6)])
    env = {"tz": tz, "tz_step": tz is not None and erng.random() < 0.4, "names": pick(erng, [("plain", 75), ("hostile", 25)])}
    env["strict_stdout"] = (env["names"] == "hostile" or erng.random() < 0.05) and not ctx.verbose
    if n % 997 == 0:
        gc.collect()        # what earlier cases dropped is really gone: fresh systems / locks / callables reuse those addresses
    with environment(tz, env["strict_stdout"]):
        enum_case(ctx, n, env)


def enum_case(ctx, n, env):
    import operon_ai.coordination.controller as cmod
    import operon_ai.coordination.types as tmod
    import operon_ai.coordination.watchdog as wmod
    from operon_ai.coordination.system import CoordinationSystem
    from operon_ai.coordination.controller import Checkpoint, CellCycleController
    from operon_ai.coordination.types import Phase
    from datetime import timedelta

    total, L = space(ctx.tier)
    idx = n
    idx, fi = divmod(idx, len(FAULTS))
    idx, hi = divmod(idx, len(HOLDERS))
    idx, li = divmod(idx, len(L))
    mi = idx % len(MASKS)
    fault, holder, req, mask = FAULTS[fi], HOLDERS[hi], list(L[li]), MASKS[mi]
    rng = ctx.rng(n)
    rrng = ctx.rng(n, "reads")
    use_cell = rng.random() < 0.15      # (not a function of n modulo anything: every fault point must meet both entry points)
    # ---- modifiers (independent of the enumerated coordinates)
    cfg = pick(rng, [("default", 52), ("custom_full", 12), ("custom_partial", 12), ("g2_replaced", 12), ("g2_empty", 12)])
    tmo = pick(rng, [("100s", 58), ("subsecond", 11), ("multiday", 11), ("none", 10), ("zero", 10)])
    if tmo == "zero" and fault == "watchdog_in_g0_cp":
        tmo = "100s"        # (whether a zero timeout kills is not judged; here the acquisition model would depend on it)
    scheme = pick(rng, [("int5", 46), ("zero", 8), ("big", 8), ("ulp", 8), ("signedzero", 6), ("inf", 8), ("nan_op", 8), ("nan_holder", 8)])
    vmode = VMODE_OF_FAULT.get(fault) or pick(rng, [("true", 52), ("false", 18), ("zero", 8), ("raises", 10), ("absent", 6), ("truthy", 6)])
    reads = rng.random() < 0.3
    rereg = None
    if rng.random() < 0.25:
        rereg = {"point": rng.choice(["pre", "work", "work", "validate", "cp"]), "res": rng.choice(RES), "flip": rng.random() < 0.5}
        if rereg["point"] == "cp" and not fault.startswith(("s_", "g2_", "kill_in_s", "kill_in_g2")):
            rereg["point"] = "work"
    twin_on = rng.random() < 0.2
    bystander = rng.random() < 0.3
    mutate_req = rng.random() < 0.1
    mutate_clear = rng.random() < 0.5
    maskstyle = rng.choice(["bool", "bool", "int", "sparse"])
    extra_timeouts = rng.random() < 0.15
    # ---- round-4 modifiers (their own stream: the draws above stay what they were)
    r4 = ctx.rng(n, "r4")
    wshape = pick(r4, SHAPES)
    vshape = pick(r4, SHAPES)
    cshape = pick(r4, SHAPES[:5])
    rshape = pick(r4, RES_SHAPES)
    if r4.random() < 0.25:
        scheme = pick(r4, [("bool", 1), ("fraction", 1), ("decimal", 1)])
    tmo_assign = pick(r4, [("ctor", 70), ("assigned_later", 15), ("withdrawn_later", 15)])
    if fault == "watchdog_in_g0_cp" and tmo_assign == "withdrawn_later":
        tmo_assign = "assigned_later"       # (that fault point's acquisition model depends on whether the kill happens)
    tmo_assign_when = r4.choice(["post_build", "pre_call"])
    toggle = {"res": r4.choice(RES), "point": r4.choice(["pre", "pre", "work"])} if r4.random() < 0.15 else None
    cp_swap = r4.choice(["empty", "s_fails", "g2_raises", "m_fails"]) if r4.random() < 0.06 else None
    dup = pick(r4, [("deep", 7), ("shallow", 3)]) if r4.random() < 0.08 else None
    result_kind = pick(r4, [("dict", 60), ("none", 6), ("exc_instance", 8), ("duck", 10), ("lockresult", 8), ("coordresult", 8)])
    hostile = env["names"] == "hostile"
    AGENT = "agent{0}%s\n\udc80" if hostile else "agent-a"
    opid = (lambda: SId("op")) if r4.random() < 0.2 else (lambda: fresh("op"))

    def rid(sym):
        if sym == "R1":
            return rid("r1").upper()
        return HOSTILE.get(sym, sym) if hostile else sym
    eff_tmo = "none" if tmo_assign == "withdrawn_later" else tmo
    tmo_td, adv = {"100s": (timedelta(seconds=100), 1000.0), "subsecond": (timedelta(seconds=0.25), 0.9),
                   "multiday": (timedelta(days=1, seconds=100), 2 * 86400 + 50.0), "none": (None, 1000.0), "zero": (timedelta(0), 1000.0)}[tmo]
    ctor_td = tmo_td
    if tmo_assign == "assigned_later":
        ctor_td = r4.choice([None, timedelta(days=400), timedelta(0), timedelta(seconds=3)])
    if tmo_assign == "withdrawn_later":
        tmo_td = None
    wd_kills = eff_tmo in ("100s", "subsecond", "multiday")
    wd_unjudged = eff_tmo == "zero"
    clock = VClock()   # real 'now' as base: dataclass default factories captured the real utcnow
    rel = holder[1] if holder else 0
    OP_PRIO, H_PRIO = priorities(scheme, rel)
    if scheme != "int5":
        ctx.count("odd_priority_cases")
    if tmo != "100s":
        ctx.count("odd_timeout_cases")
    if tmo_assign != "ctor":
        ctx.count("timeout_assigned_after_construction")
    if env["tz"] is not None:
        ctx.count("timezone_cases")
    if hostile:
        ctx.count("hostile_name_cases")
    if env["strict_stdout"]:
        ctx.count("strict_stdout_cases")
    desc = {"preemptable": {"r1": mask[0], "r2": mask[1], "r3": False}, "request": req, "holder": holder, "fault": fault,
            "entry": "IntegratedCell.execute" if use_cell else "CoordinationSystem.execute_operation", "followups": [],
            "checkpoints": cfg, "max_operation_time": tmo, "priorities": [scheme, repr(OP_PRIO), repr(H_PRIO)], "validation": vmode,
            "reregister": rereg, "reads": reads, "twin": twin_on, "bystander": bystander, "mask_style": maskstyle,
            "work_shape": wshape, "validate_shape": vshape, "condition_shape": cshape, "resources_shape": rshape,
            "timeout_assignment": [tmo_assign, tmo_assign_when], "toggle": toggle, "checkpoints_swapped_in_work": cp_swap, "duplicate": dup,
            "result": result_kind, "environment": env}

    def viol(mech, what):
        ctx.violation(mech, what, desc)

    def flagval(b):
        if maskstyle == "int":
            return 1 if b else 0
        if maskstyle == "sparse" and not b:
            return None
        return bool(b)

    def register(target, sym, b):
        if maskstyle == "sparse" and not b and rng.random() < 0.5:
            target.register_resource(rid(sym))               # the default of the optional parameter
        else:
            target.register_resource(rid(sym), flagval(b))

    def build(as_cell, kind, td, **kw):
        cps = make_checkpoints(kind, Checkpoint, Phase)
        if as_cell:
            from operon_ai.cell import IntegratedCell
            c = IntegratedCell(max_operation_time=td)
            s = c.coordination
            if cps is not None:
                s.controller.checkpoints = cps
        else:
            c = None
            if cps is not None:
                s = CoordinationSystem(max_operation_time=td, controller=CellCycleController(checkpoints=cps), **kw)
            else:
                s = CoordinationSystem(max_operation_time=td, **kw)
        if kind == "g2_replaced":
            s.controller.checkpoints[Phase.G2] = [Checkpoint(phase=Phase.G2, condition=lambda c_: True, name="user-g2")]
        elif kind == "g2_empty":
            s.controller.checkpoints[Phase.G2] = []
        return c, s

    with patched(clock, cmod, tmod, wmod):
        kw = {}
        if extra_timeouts and not use_cell:
            kw = {"starvation_timeout": timedelta(seconds=rng.choice([0.5, 50, 90000])), "progress_timeout": timedelta(seconds=rng.choice([0.5, 50, 90000]))}
            if r4.random() < 0.5:
                from operon_ai.coordination.priority import PriorityInheritance
                kw["priority_manager"] = PriorityInheritance()
        cell, system = build(use_cell, cfg, ctor_td, **kw)

        def assign_timeout():
            # a public setting of a public component, assigned after construction: the obligation follows the current value
            system.watchdog.max_operation_time = tmo_td
        if tmo_assign != "ctor" and tmo_assign_when == "post_build":
            assign_timeout()
        if use_cell:
            ctx.count("cell_entry")
        if cfg != "default":
            ctx.count("custom_checkpoint_configs")
        ctl = system.controller
        front = cell if cell is not None else system
        register(front, "r1", mask[0])
        register(front, "r2", mask[1])
        register(front, "r3", False)
        register(front, "r4", False)     # only ever used by the nested operation
        ALL = list(RES)
        if bystander:
            # a live bystander holds a resource whose id differs from r1 only in case; nobody ever requests it
            ctx.count("bystander_cases")
            front.register_resource(rid("R1"), True)
            xctx = system.start_operation("X", "agent-x", priority=-1)
            ctl.acquire_resource(xctx, rid("R1"))
            ALL = RES + ["R1"]
        # ---- a second instance, configured differently, with the same resource / operation ids
        twin = tcell = None
        if twin_on:
            ctx.count("twin_instances")
            tcell, twin = build(rng.random() < 0.3, rng.choice(["default", "custom_full", "g2_empty"]), timedelta(seconds=7))
            tfront = tcell if tcell is not None else twin
            tfront.register_resource(rid("r1"), not mask[0])
            tfront.register_resource(rid("r2"), not mask[1])
            tfront.register_resource(rid("r3"), True)
            tfront.register_resource(rid("r4"), True)
            t_op = twin.start_operation("op", AGENT, priority=9)
            twin.controller.acquire_resource(t_op, rid("r1"))
            twin.controller.acquire_resource(t_op, rid("r4"))
            t_h = twin.start_operation("H", "agent-h", priority=9)
            twin.controller.acquire_resource(t_h, rid("r2"))

        def twin_state():
            tc = twin.controller
            return ({r: (tc.resources[rid(r)].owner, tc.resources[rid(r)].hold_count) for r in RES + ["r4"]}, sorted(tc.active_operations))

        def twin_unchanged(t0, when):
            ctx.count("twin_checks")
            t1 = twin_state()
            if t1 != t0:
                viol("other-instance-touched", "%s changed a second CoordinationSystem instance: %s -> %s" % (when, t0, t1))
                return False
            return True

        # ---- pre-existing holder
        hctx = None
        if holder is not None:
            hres = holder[0]
            hctx = system.start_operation("H", "agent-h", priority=H_PRIO)
            for r in hres:
                ctl.acquire_resource(hctx, fresh(rid(r)))
        # ---- object protocols: the session continues on a duplicate of the system; the original must not be touched any more
        orig = None
        if dup is not None:
            ctx.count("duplicated_instances")
            if dup == "deep":
                orig = system
                if cell is not None:
                    cell = copy.deepcopy(cell)
                    system = cell.coordination
                else:
                    system = copy.deepcopy(system)
                hctx = system.controller.active_operations.get("H") if hctx is not None else None
            elif cell is None:
                system = copy.copy(system)          # a shallow copy shares the controller: same locks, same obligations
            ctl = system.controller
            front = cell if cell is not None else system

        def orig_state():
            oc = orig.controller
            return ({k_: (lk.owner, lk.hold_count) for k_, lk in oc.resources.items()}, sorted(oc.active_operations))
        orig_before = orig_state() if orig is not None else None
        # ---- fault wiring
        log = []
        sampled = {}
        reregd = set()
        extra_args = []

        def lock_of(sym):
            return ctl.resources[rid(sym)]

        def snap():
            res_ = ctl.resources
            return {r: ((res_[rid(r)].owner, res_[rid(r)].hold_count) if rid(r) in res_ else ("<not registered>", 0)) for r in ALL}

        def do_reads(where):
            if not reads:
                return
            for _ in range(rrng.randint(1, 3)):
                ctx.count("reads_interleaved")
                which = rrng.randrange(10)
                try:
                    if which == 0:
                        system.health()
                    elif which == 1:
                        (cell.health() if cell is not None else system.health())
                    elif which == 2:
                        ctl.stats()
                    elif which == 3:
                        system.watchdog.stats()
                        system.watchdog.check(ctl)
                    elif which == 4:
                        ctl.check_deadlock()
                    elif which == 5:
                        system.priority_manager.stats()
                        system.priority_manager.is_boosted(fresh("op"))
                        system.priority_manager.get_boost("H")
                    elif which == 6:
                        repr(system)
                        repr(ctl.active_operations.get("op"))
                    elif which == 7:
                        for lk in list(ctl.resources.values()):
                            lk.is_available
                            lk.hold_duration
                            repr(lk)
                    elif which == 8:
                        if clock.offset == 0:       # nothing can have expired yet: maintenance must be a no-op for ownership
                            ctx.count("maintenance_without_expiry")
                            (cell.run_maintenance() if cell is not None and rrng.random() < 0.5 else system.run_maintenance())
                    else:
                        list(ctl.active_operations.items())
                        dict(ctl.resources)
                except Exception as e:      # a reporting API that raises is not a C14 matter; keep the session going
                    ctx.count("read_api_raised")
                    desc.setdefault("read_errors", []).append("%s:%d:%r" % (where, which, e))

        def do_rereg(where):
            rsym = rereg["res"]
            cur = bool(lock_of(rsym).allow_preemption)
            new = (not cur) if rereg["flip"] else cur
            ctx.count("reregistrations")
            if lock_of(rsym).owner is not None:
                ctx.count("reregistered_while_held")
            front.register_resource(fresh(rid(rsym)), flagval(new))
            desc["preemptable"][rsym] = new
            if where != "pre":
                reregd.add(rsym)

        def do_toggle():
            # the public flag of the registered lock object assigned in place (no new lock): the obligation follows the current value
            ctx.count("preemption_flag_assigned_in_place")
            lk = lock_of(toggle["res"])
            new = not bool(lk.allow_preemption)
            lk.allow_preemption = r4.choice([new, int(new), "yes" if new else "", new or None])
            desc["preemptable"][toggle["res"]] = new

        def shutdown():
            (cell.shutdown() if cell is not None else system.shutdown())

        def expire_and_maintain(via_cell_ok=True):
            clock.advance(adv)
            if env["tz_step"]:
                ctx.count("timezone_steps")
                set_tz("XLW12" if env["tz"] != "XLW12" else "XLO-14")      # the local clock jumps by 26 h; UTC does not
            sampled["slack_ok"] = (_rtime.time() - clock.base) < 0.5 * (adv - (tmo_td.total_seconds() if tmo_td else 0.0))
            if cell is not None and via_cell_ok:
                cell.run_maintenance()
            else:
                system.run_maintenance()

        def cp_fault(kind):
            def cond(c):
                if c.operation_id != "op":
                    return True
                log.append("cp:" + kind)
                ctx.count("checkpoint_faults_hit")
                do_reads("cp")
                if rereg and rereg["point"] == "cp" and "cp_rereg" not in sampled and "main_done" not in sampled:
                    sampled["cp_rereg"] = True
                    do_rereg("cp")
                if kind.endswith("raise_empty"):
                    raise Boom()
                if kind.endswith("raise"):
                    raise pick_exception(r4, n + 5, "checkpoint exploded")
                if kind.startswith("kill_in"):
                    if "killed" not in sampled:
                        sampled["killed"] = True
                        ctx.count("kills_from_checkpoint")
                        system.kill_operation(fresh("op"), "killed from a checkpoint condition")
                    return True
                if kind.startswith("shutdown_in"):
                    if "killed" not in sampled:
                        sampled["killed"] = True
                        ctx.count("kills_from_checkpoint")
                        shutdown()
                    return True
                if kind.startswith("watchdog_in"):
                    if "killed" not in sampled:
                        sampled["killed"] = True
                        ctx.count("kills_from_checkpoint")
                        expire_and_maintain(False)
                    return True
                return False
            return cond
        phase_of = {"g0": Phase.G0, "g1": Phase.G1, "s": Phase.S, "g2": Phase.G2}
        ph = phase_of.get(fault.split("_")[0]) if fault.endswith(("_false", "_raise", "_raise_empty")) else None
        if fault.endswith("_cp"):
            ph = phase_of[fault.split("_")[2]]
        if ph is not None:
            ctl.checkpoints[ph] = list(ctl.checkpoints.get(ph, [])) + [Checkpoint(phase=ph, condition=shaped(cshape, cp_fault(fault), 1, extra_args), name="injected")]
        req_obj = [fresh(rid(r)) for r in req]
        results = {"dict": RESULT, "none": None, "exc_instance": ValueError("returned, not raised"), "duck": Duck(),
                   "lockresult": tmod.LockResult.BLOCKED, "coordresult": None}
        if result_kind == "coordresult":
            from operon_ai.coordination.system import CoordinationResult
            results["coordresult"] = CoordinationResult(operation_id="op", success=False, phase_reached=Phase.G1, error="Blocked on resource r1")
        work_result = results[result_kind]

        def work():
            log.append("work")
            sampled["own"] = {r: lock_of(r).owner for r in RES}
            sampled["active"] = "op" in ctl.active_operations
            ctx.count("work_runs_sampled")
            do_reads("work")
            if fault.startswith("nested"):
                ctx.count("nested_operations")
                if fault == "nested_preempts":
                    # an inner operation of higher priority asks for the outer operation's own resources (+ r4)
                    inner = system.execute_operation("inner", "agent-i", lambda: RESULT, resources=[fresh(rid(r)) for r in req] + [rid("r4")],
                                                     priority=OP_PRIO + 1 if isinstance(OP_PRIO, int) else OP_PRIO)
                else:
                    inner = system.execute_operation("inner", "agent-i", lambda: "inner-result", resources=shape_resources(rshape, [rid("r4")]), priority=OP_PRIO)
                sampled["inner_success"] = inner.success
            if rereg and rereg["point"] == "work":
                do_rereg("work")
            if toggle and toggle["point"] == "work":
                do_toggle()
            if cp_swap is not None:
                # the user replaces the public checkpoint table in mid-flight
                ctx.count("checkpoints_swapped_in_flight")
                if cp_swap == "empty":
                    ctl.checkpoints = {}
                elif cp_swap == "s_fails":
                    ctl.checkpoints = {Phase.S: [Checkpoint(phase=Phase.S, condition=lambda c_: False, name="late-s")]}
                elif cp_swap == "g2_raises":
                    ctl.checkpoints = {Phase.G2: (Checkpoint(phase=Phase.G2, condition=lambda c_: 1 // 0, name="late-g2"),)}
                else:
                    ctl.checkpoints[Phase.M] = [Checkpoint(phase=Phase.M, condition=lambda c_: None, name="late-m")]
            if mutate_req:
                ctx.count("request_list_mutated")
                if mutate_clear:
                    del req_obj[:]
                else:
                    req_obj.append(rid("unknown"))
            if fault == "work_raises_empty":
                raise Boom()            # an exception without a message
            if fault in ("work_raises", "nested_work_raises"):
                exc = pick_exception(r4, n, "work failed")
                if wshape not in ("plain", "kwonly_opt"):
                    ctx.count("work_raised_under_tolerant_signature")
                    if isinstance(exc, (TypeError, TimeoutError, KeyError, AssertionError, StopIteration)):
                        ctx.count("work_raised_discriminable_type_under_tolerant_signature")
                raise exc
            if fault == "kill_in_work":
                ctx.count("kills_inside_work")
                system.kill_operation(fresh("op"), "killed from inside")
            if fault == "shutdown_in_work":
                ctx.count("kills_inside_work")
                shutdown()
            if fault == "watchdog_in_work":
                ctx.count("kills_inside_work")
                expire_and_maintain()
            return 0 if fault == "work_falsy" else work_result

        def validate(res):
            log.append("validate")
            do_reads("validate")
            if rereg and rereg["point"] == "validate":
                do_rereg("validate")
            if fault == "kill_in_validate":
                ctx.count("kills_inside_validate")
                system.kill_operation(fresh("op"), "killed from inside the validator")
            if fault == "shutdown_in_validate":
                ctx.count("kills_inside_validate")
                shutdown()
            if fault == "watchdog_in_validate":
                ctx.count("kills_inside_validate")
                expire_and_maintain()
            if vmode == "raises_empty":
                raise ValueError()
            if vmode == "assert":
                raise AssertionError()      # what a failing bare assert raises (spelled out: the harness also runs under python -O)
            if vmode == "raises":
                raise pick_exception(r4, n + 3, "validator exploded")
            return {"true": True, "truthy": "accepted", "false": False, "zero": 0}[vmode]

        if rereg and rereg["point"] == "pre":
            do_rereg("pre")         # the holder (if it held that id) keeps an orphaned lock object; the registered one is new
        if toggle and toggle["point"] == "pre":
            do_toggle()
        if tmo_assign != "ctor" and tmo_assign_when == "pre_call":
            assign_timeout()
        do_reads("pre")
        if env["tz"] is not None and clock.offset == 0 and eff_tmo != "zero":
            # nothing is overdue yet, wherever the process believes it is on the globe: maintenance must leave every holder alone
            ctx.count("maintenance_without_expiry")
            b0 = snap()
            act0 = sorted(ctl.active_operations)
            try:
                (cell.run_maintenance() if cell is not None and r4.random() < 0.5 else system.run_maintenance())
            except Exception as e:
                viol("followup-raises:maintenance", "run_maintenance raised %r" % (e,))
                return
            if snap() != b0 or sorted(ctl.active_operations) != act0:
                viol("untouched-resource-changed:maintenance", "maintenance with nothing overdue (max_operation_time %s, virtual clock not advanced, TZ %s) changed ownership %s -> %s, active %s -> %s" % (
                    eff_tmo, env["tz"], b0, snap(), act0, sorted(ctl.active_operations)))
                return
        # ---- model: which acquisitions succeed
        before = snap()
        twin_before = twin_state() if twin is not None else None
        own = dict((r, before[r][0]) for r in RES)
        if fault == "shutdown_in_g0_cp" or (fault == "watchdog_in_g0_cp" and wd_kills):
            own = {r: (None if o == "H" else o) for r, o in own.items()}     # the holder is gone before the acquisitions start
        prio = {"H": H_PRIO}
        obtained = {}          # resource -> times obtained by op
        stopped = None
        for r in req:
            if r == "unknown":
                stopped = "unknown"
                break
            if own[r] is None:
                own[r] = "op"
                obtained[r] = obtained.get(r, 0) + 1
            elif own[r] == "op":
                obtained[r] = obtained.get(r, 0) + 1
                ctx.count("reentrant_requests")
            elif desc["preemptable"][r] and OP_PRIO > prio[own[r]]:
                own[r] = "op"
                obtained[r] = obtained.get(r, 0) + 1
                ctx.count("preemptions")
            else:
                stopped = "blocked"
                ctx.count("blocked_acquisitions")
                break
        ctx.count("execute_calls")
        vf = None if vmode == "absent" else shaped(vshape, validate, 1, extra_args)
        wf = shaped(wshape, work, 0, extra_args)
        res_arg = shape_resources(rshape, req_obj)
        if res_arg is not req_obj:
            ctx.count("resources_not_a_list")
        if wshape != "plain" or (vf is not None and vshape != "plain"):
            ctx.count("callable_shapes")
        try:
            if cell is not None:
                cres = cell.execute(AGENT, opid(), wf, resources=res_arg, validate_fn=vf, priority=OP_PRIO)
                success = cres.success
            else:
                res = system.execute_operation(opid(), AGENT, wf, resources=res_arg, validate_fn=vf, priority=OP_PRIO)
                success = res.success
        except BaseException as e:
            viol("execute-raises", "execute raised %r" % (e,))
            return
        sampled["main_done"] = True
        do_reads("post")
        after = snap()
        desc["log"] = list(log)
        desc["before"], desc["after"] = before, after
        desc["success"] = success
        path = fault if stopped is None else stopped
        # 1. nothing owned, not active
        for r in RES:
            if after[r][0] == "op":
                mech = "reentrant-hold-leak" if obtained.get(r, 0) > 1 else "resource-leak:%s" % path
                viol(mech, "%s still owned by the finished operation (hold_count %d) after exit path %s" % (r, after[r][1], path))
                return
        if lock_of("r4").owner is not None or "inner" in ctl.active_operations or any(after[r][0] == "inner" for r in RES):
            viol("resource-leak:nested-operation", "nested operation left %s owned / active=%s" % (
                [r for r in RES + ["r4"] if lock_of(r).owner == "inner"], "inner" in ctl.active_operations))
            return
        if "op" in ctl.active_operations:
            viol("still-active:%s" % path, "operation still listed as active after exit path %s" % path)
            return
        # 2. never-obtained resources untouched (a holder killed by a shutdown / expired watchdog fault legitimately loses its locks;
        #    an id the harness registered again during the call is the harness's own doing)
        wd_ran = (fault == "watchdog_in_work" and "work" in log) or (fault == "watchdog_in_validate" and "validate" in log) or (
            fault == "watchdog_in_g0_cp" and "killed" in sampled)
        sd_ran = (fault == "shutdown_in_work" and "work" in log) or (fault == "shutdown_in_validate" and "validate" in log) or (
            fault == "shutdown_in_g0_cp" and "killed" in sampled)
        holders_killed = sd_ran or (wd_ran and wd_kills)
        for r in ALL:
            if r in obtained or r in reregd or after[r] == before[r]:
                continue
            if before[r][0] in ("H", "X") and after[r] == (None, 0) and (holders_killed or (wd_ran and wd_unjudged)):
                continue
            viol("untouched-resource-changed:%s" % path, "%s was never obtained by the operation but went %s -> %s" % (r, before[r], after[r]))
            return
        if wd_ran and wd_kills and sampled.get("slack_ok"):
            ctx.count("watchdog_expiry_judged")
            for oid in ("H", "X"):
                if oid in ctl.active_operations:
                    viol("watchdog-timeout-not-enforced", "operation %s exceeded max_operation_time (%s, clock advanced %s s) and is still active after maintenance" % (oid, eff_tmo, adv))
                    return
        if twin is not None and not twin_unchanged(twin_before, "the judged operation"):
            return
        if orig is not None:
            ctx.count("duplicate_checks")
            if orig_state() != orig_before:
                viol("other-instance-touched", "an operation on a deep copy of the system changed the original: %s -> %s" % (orig_before, orig_state()))
                return
        # 3. work / validate discipline
        nwork, nval = log.count("work"), log.count("validate")
        if nwork > 1:
            viol("work-ran-twice", "work_fn ran %d times" % nwork)
            return
        cp_blocks_before_work = fault in ("g0_false", "g1_false", "g1_raise", "g1_raise_empty")
        if nwork == 1:
            if stopped is not None:
                viol("work-without-resources:%s" % stopped, "work_fn ran although acquisition stopped (%s)" % stopped)
                return
            missing = [r for r in set(req) if r != "unknown" and sampled["own"].get(r) != "op"]
            if missing:
                viol("work-without-holding", "work_fn ran while %s not owned by the operation (owners %s)" % (missing, sampled["own"]))
                return
            if cp_blocks_before_work and fault != "g0_false":
                viol("work-after-failed-checkpoint", "work_fn ran although the injected %s checkpoint rejected" % fault)
                return
        if nval > 1:
            viol("validate-ran-twice", "validate_fn ran %d times" % nval)
            return
        if nval == 1:
            if nwork != 1 or fault in WORK_EXC or log.index("validate") < log.index("work"):
                viol("validate-before-work-completed", "validate ran with log %s" % log)
                return
        # 4. success only if both succeeded
        val_ok = vmode in ("true", "truthy", "absent")
        if nval == 1 and not val_ok:
            ctx.count("validation_rejected_after_work")
            if cfg != "default":
                ctx.count("rejected_under_custom_config")
            if fault in ("kill_in_work", "shutdown_in_work", "watchdog_in_work", "kill_in_validate", "shutdown_in_validate", "watchdog_in_validate",
                         "kill_in_s_cp"):
                ctx.count("rejected_after_kill")
        if extra_args:
            ctx.count("callbacks_called_with_extra_arguments")
        if vf is not None and vshape in FALSY_SHAPES:
            ctx.count("falsy_validator_cases")
        if success:
            ok = nwork == 1 and fault not in WORK_EXC and (vf is None or (nval == 1 and val_ok))
            if nwork == 1 and fault not in WORK_EXC and vf is not None and nval == 0 and vshape in FALSY_SHAPES:
                viol("success-without-work-and-validation:falsy_validator_skipped",
                     "success reported although the supplied validate_fn (a callable object whose truth value is False: %s) was never called; log %s" % (vshape, log))
                return
            if not ok:
                key = fault if (val_ok or fault in VMODE_OF_FAULT) else "%s+validate_%s" % (fault, vmode)
                viol("success-without-work-and-validation:%s" % key, "success reported with log %s under fault %s, validation verdict %s, checkpoints %s" % (log, fault, vmode, cfg))
                return
            if stopped is not None:
                viol("success-without-resources", "success reported although acquisition stopped (%s)" % stopped)
                return
        # ---- follow-ups
        fplan = ["old"] * rng.randint(0, 3)
        if r4.random() < 0.45:
            for _ in range(r4.randint(1, 2)):
                fplan.insert(r4.randint(0, len(fplan)), "new")
        for fkind in fplan:
            ctx.count("followup_ops")
            if fkind == "old":
                choice = rng.choice(["op2", "holder_complete", "holder_abort", "holder_kill", "watchdog", "shutdown", "op_again", "k_hold", "k_hold",
                                     "holder_release_one", "holder_release_one", "reregister", "reads"])
            else:
                choice = "waiters_flood" if r4.random() < 0.06 else r4.choice(["manual_op", "manual_op", "deadlock", "api_misc", "op_shaped"])
            desc["followups"].append(choice)
            b2 = snap()
            tb2 = twin_state() if twin is not None else None
            try:
                if choice == "reads":
                    do_reads("between")
                    if reads and snap() != b2:
                        viol("read-api-changes-ownership", "read-only calls between operations changed ownership: %s -> %s" % (b2, snap()))
                        return
                    continue
                if choice == "reregister":
                    rsym = rng.choice(RES)
                    ctx.count("reregistrations")
                    if lock_of(rsym).owner is not None:
                        ctx.count("reregistered_while_held")
                    newflag = rng.random() < 0.5
                    front.register_resource(rid(rsym), newflag)
                    desc["followups"][-1] = "reregister:%s:%s" % (rsym, newflag)
                    continue
                if choice == "waiters_flood":
                    # many distinct operations queue up behind one live holder: every one of them must end blocked, without running
                    cands = [r for r in RES if b2[r][0] is not None and not (lock_of(r).allow_preemption and -10 > lock_of(r).owner_priority)]
                    if not cands:
                        continue
                    rsym = r4.choice(cands)
                    ctx.count("waiter_floods")
                    nflood = r4.choice([70, 130])
                    desc["followups"][-1] = "waiters_flood:%s:%d" % (rsym, nflood)
                    for j in range(nflood):
                        ran = []
                        rw = system.execute_operation("w%d" % j, AGENT, lambda: ran.append(1) or RESULT, resources=[rid(rsym)], priority=-10)
                        if ran or rw.success:
                            viol("work-without-resources:blocked", "waiter %d of %d queued behind the live holder %s of %s ran its work (runs %d, success %s)" % (
                                j + 1, nflood, b2[rsym][0], rsym, len(ran), rw.success))
                            return
                    if snap() != b2 or any(("w%d" % j) in ctl.active_operations for j in range(nflood)):
                        viol("untouched-resource-changed:blocked", "%d blocked waiters changed ownership %s -> %s" % (nflood, b2, snap()))
                        return
                    continue
                if choice == "api_misc":
                    # rarely used public methods; none of them may change who owns what
                    ctx.count("misc_api_calls")
                    act_b = sorted(ctl.active_operations)
                    for lk in list(ctl.resources.values()):
                        if r4.random() < 0.5:
                            lk.pop_next_waiter()
                    system.priority_manager.check_and_boost(ctl)
                    for c_ in list(ctl.active_operations.values()):
                        system.priority_manager.restore_priority(c_)
                    system.watchdog.check(ctl)
                    ctl.check_deadlock()
                    g = ctl.dependency_graph
                    g.get_blocking_chain("H")
                    g.remove_dependency("op", "H")
                    g.add_dependency("ghost", "H", rid("r1"))
                    g.remove_all_for_agent("ghost")
                    if r4.random() < 0.3:
                        g.clear()
                    system.priority_manager.clear_all(ctl)
                    if snap() != b2 or sorted(ctl.active_operations) != act_b:
                        viol("untouched-resource-changed:api_misc", "waiter / priority / dependency-graph calls changed ownership %s -> %s, active %s -> %s" % (
                            b2, snap(), act_b, sorted(ctl.active_operations)))
                        return
                    continue
                if choice == "deadlock":
                    # two live operations block each other; maintenance kills one of them: the victim must own nothing, the survivor keeps its lock
                    if "D1" in ctl.active_operations or "D2" in ctl.active_operations or clock.offset != 0 or wd_unjudged:
                        continue
                    ctx.count("deadlock_kills_checked")
                    system.watchdog.deadlock_strategy = r4.choice(["priority", "oldest", "newest", None])
                    front.register_resource(rid("d1"), r4.random() < 0.3)
                    front.register_resource(rid("d2"))
                    pr = r4.choice([(3, 3), (2, 8), (8, 2)])
                    d1 = system.start_operation("D1", "agent-d", priority=pr[0])
                    d2 = system.start_operation("D2", "agent-d", priority=pr[1])
                    ctl.acquire_resource(d1, rid("d1"))
                    ctl.acquire_resource(d2, rid("d2"))
                    ctl.acquire_resource(d1, rid("d2"))
                    ctl.acquire_resource(d2, rid("d1"))
                    mid = {s_: (ctl.resources[rid(s_)].owner, ctl.resources[rid(s_)].hold_count) for s_ in ("d1", "d2")}
                    desc["followups"][-1] = "deadlock:%s:%s" % (pr, mid)
                    (cell.run_maintenance() if cell is not None and r4.random() < 0.5 else system.run_maintenance())
                    a2 = snap()
                    if a2 != b2:
                        viol("untouched-resource-changed:deadlock", "breaking a deadlock between two other operations changed %s -> %s" % (b2, a2))
                        return
                    for did in ("D1", "D2"):
                        held = [s_ for s_ in ("d1", "d2") if ctl.resources[rid(s_)].owner == did]
                        if did not in ctl.active_operations and held:
                            viol("resource-leak:watchdog", "deadlock victim %s is no longer active but still owns %s" % (did, held))
                            return
                        if did in ctl.active_operations:
                            lost = [s_ for s_ in ("d1", "d2") if mid[s_][0] == did and (ctl.resources[rid(s_)].owner, ctl.resources[rid(s_)].hold_count) != mid[s_]]
                            if lost:
                                viol("exit-touches-foreign-lock:deadlock", "operation %s survived the deadlock resolution but its lock(s) %s changed: %s" % (did, lost, mid))
                                return
                    continue
                if choice in ("manual_op", "op_shaped"):
                    mid_ = "M" if choice == "manual_op" else "op3"
                    if mid_ in ctl.active_operations:
                        continue
                    req2 = [r4.choice(SYMS[:3]) for _ in range(r4.randint(0, 3))]
                    ran = []
                    if choice == "op_shaped":
                        ctx.count("shaped_followups")
                        sh = pick(r4, RES_SHAPES)
                        exc2 = pick_exception(r4, n + 11, "follow-up work failed") if r4.random() < 0.5 else None

                        def work2():
                            ran.append(1)
                            if exc2 is not None:
                                raise exc2
                            return work_result
                        r2 = system.execute_operation(SId(mid_), AGENT, shaped(pick(r4, SHAPES), work2, 0), resources=shape_resources(sh, [fresh(rid(r)) for r in req2]),
                                                      validate_fn=shaped(pick(r4, SHAPES[:5] + SHAPES[7:]), lambda res_: True, 1), priority=r4.choice([1, 5, 9, True] + ([Fraction(11, 2)] if scheme != "decimal" else [])))
                        how = "execute:%s" % sh
                        if len(ran) > 1:
                            viol("work-ran-twice", "follow-up work ran %d times" % len(ran))
                            return
                        if r2.success and (exc2 is not None or len(ran) != 1):
                            viol("success-without-work-and-validation:followup", "follow-up operation reported success, work runs %d, work raised %r" % (len(ran), exc2))
                            return
                    else:
                        # an operation driven step by step through the controller's public API
                        ctx.count("manual_operations")
                        mctx = system.start_operation("M", AGENT, priority=r4.choice([1, 5, 9]))
                        ctl.advance(mctx)
                        for r in req2:
                            if ctl.acquire_resource(mctx, fresh(rid(r))).value == "blocked":
                                break
                        mctx.resources_acquired = True
                        ctl.advance(mctx)
                        how = r4.choice(["complete", "abort", "kill", "watchdog_kill", "release_all+complete", "release_each+abort", "shutdown_like"])
                        if how == "complete":
                            mctx.set_result(RESULT)
                            mctx.execution_complete = True
                            ctl.advance(mctx)
                            ctl.complete_operation(mctx)
                        elif how == "abort":
                            ctl.abort_operation(mctx, reason="manual")
                        elif how == "kill":
                            system.kill_operation("M")
                        elif how == "watchdog_kill":
                            system.watchdog.manual_kill(ctl, SId("M"), reason="direct")
                        elif how == "release_all+complete":
                            ctl.release_all_resources(mctx)
                            ctl.complete_operation(mctx)
                        elif how == "release_each+abort":
                            for r_ in list(mctx.acquired_resources):
                                ctl.release_resource(mctx, r_)
                            ctl.abort_operation(mctx, reason="manual")
                        else:
                            ctl.abort_operation(ctl.active_operations.get("M"), reason="system shutdown")
                    desc["followups"][-1] = "%s:%s:%s" % (choice, how, req2)
                    a2 = snap()
                    for r in ALL:
                        if b2[r][0] not in (None, mid_) and a2[r] != b2[r] and not (a2[r] == (None, 0) and lock_of(r).allow_preemption and r in req2):
                            viol("exit-touches-foreign-lock:followup", "operation %s (%s) requesting %s changed %s, owned by %s: %s -> %s" % (
                                mid_, how, req2, r, b2[r][0], b2[r], a2[r]))
                            return
                    leak = [r for r in ALL if a2[r][0] == mid_]
                    if leak or mid_ in ctl.active_operations:
                        multi = any(req2.count(r) > 1 for r in leak) and not how.startswith("release_each")
                        viol("reentrant-hold-leak" if multi else "resource-leak:followup", "follow-up operation %s (%s) requesting %s left %s owned / active=%s" % (
                            mid_, how, req2, leak, mid_ in ctl.active_operations))
                        return
                    continue
                if choice == "holder_release_one":
                    if hctx is not None and "H" in ctl.active_operations and hctx.acquired_resources:
                        rr = rng.choice(sorted(hctx.acquired_resources))
                        okr = ctl.release_resource(hctx, rr)
                        desc["followups"][-1] = "holder_release_one:%s:%s" % (rr, okr)
                        ctx.count("manual_releases")
                    continue
                if choice == "k_hold" and "K" not in ctl.active_operations:
                    # a second live operation takes (possibly preempts) a resource and keeps it
                    kctx = system.start_operation("K", "agent-k", priority=9)
                    rk = rng.choice(RES)
                    got = ctl.acquire_resource(kctx, rid(rk))
                    desc["followups"][-1] = "k_hold:%s:%s" % (rk, got.value)
                    continue
                if choice in ("op2", "op_again"):
                    oid = "op2" if choice == "op2" else "op"
                    req2 = [rng.choice(SYMS[:3]) for _ in range(rng.randint(0, 3))]
                    ran = []
                    r2 = system.execute_operation(oid, "agent-b", lambda: ran.append(1) or "x", resources=[rid(r) for r in req2], priority=rng.choice([1, 5, 9]))
                    a2 = snap()
                    for r in ALL:
                        if b2[r][0] not in (None, oid) and a2[r] != b2[r] and not (a2[r] == (None, 0) and lock_of(r).allow_preemption and r in req2):
                            viol("exit-touches-foreign-lock:followup", "operation %s requesting %s changed %s, owned by %s: %s -> %s" % (
                                oid, req2, r, b2[r][0], b2[r], a2[r]))
                            return
                    leak = [r for r in ALL if a2[r][0] == oid]
                    if leak or oid in ctl.active_operations:
                        mech = "reentrant-hold-leak" if any(req2.count(r) > 1 for r in leak) else "resource-leak:followup"
                        viol(mech, "follow-up operation %s requesting %s left %s owned / active=%s" % (oid, req2, leak, oid in ctl.active_operations))
                        return
                    if len(ran) > 1:
                        viol("work-ran-twice", "follow-up work ran %d times" % len(ran))
                        return
                elif hctx is not None and choice.startswith("holder"):
                    if "H" in ctl.active_operations:
                        if choice == "holder_complete":
                            ctl.complete_operation(hctx)
                        elif choice == "holder_abort":
                            ctl.abort_operation(hctx, "test")
                        else:
                            system.kill_operation(fresh("H"), "manual")
                        ctx.count("holder_exits_checked")
                        a2 = snap()
                        for r in ALL:
                            if b2[r][0] not in (None, "H") and a2[r] != b2[r]:
                                viol("exit-touches-foreign-lock:%s" % choice, "holder exit via %s changed %s, owned by %s: %s -> %s" % (
                                    choice, r, b2[r][0], b2[r], a2[r]))
                                return
                        leak = [r for r in ALL if a2[r][0] == "H"]
                        if leak or "H" in ctl.active_operations:
                            multi = any(holder[0].count(r) > 1 for r in leak)
                            viol("reentrant-hold-leak" if multi else "resource-leak:%s" % choice,
                                 "holder exit via %s left %s owned by H" % (choice, leak))
                            return
                elif choice == "watchdog":
                    expire_and_maintain()
                    ctx.count("holder_exits_checked")
                    a2 = snap()
                    for oid in ("H", "op", "op2", "K", "X"):
                        leak = [r for r in ALL if a2[r][0] == oid]
                        if leak and oid not in ctl.active_operations:
                            multi = oid == "H" and holder and any(holder[0].count(r) > 1 for r in leak)
                            viol("reentrant-hold-leak" if multi else "resource-leak:watchdog", "watchdog kill left %s owned by %s" % (leak, oid))
                            return
                    if wd_kills and sampled.get("slack_ok"):
                        ctx.count("watchdog_expiry_judged")
                        still = [o for o in ("H", "K", "X") if o in ctl.active_operations]
                        if still:
                            viol("watchdog-timeout-not-enforced", "operation(s) %s exceeded max_operation_time (%s, clock advanced by %s s) and are still active after watchdog.execute" % (still, eff_tmo, adv))
                            return
                elif choice == "shutdown":
                    shutdown()
                    ctx.count("holder_exits_checked")
                    a2 = snap()
                    owned = {r: a2[r] for r in ALL if a2[r][0] is not None}
                    if owned or ctl.active_operations:
                        multi = holder and any(holder[0].count(r) > 1 for r in owned)
                        viol("reentrant-hold-leak" if multi else "resource-leak:shutdown", "after shutdown: owned=%s active=%s" % (owned, list(ctl.active_operations)))
                        return
            except BaseException as e:
                viol("followup-raises:%s" % choice, "%s raised %r" % (choice, e))
                return
            if twin is not None and not twin_unchanged(tb2, "follow-up %s" % choice):
                return
        # ---- the other instance is used in turn: it must work on its own locks only
        try:
            if twin is not None:
                b3 = snap()
                act3 = sorted(ctl.active_operations)
                tran = []
                tres = twin.execute_operation("t", "agent-t", lambda: tran.append(1) or RESULT, resources=[rid("r3"), rid("r1"), rid("r4")], priority=rng.choice([0, 5]))
                tc = twin.controller
                if any(tc.resources[rid(r)].owner == "t" for r in RES + ["r4"]) or "t" in tc.active_operations:
                    viol("resource-leak:followup", "operation on the second instance left %s owned / active=%s" % (
                        [r for r in RES + ["r4"] if tc.resources[rid(r)].owner == "t"], "t" in tc.active_operations))
                    return
                if tres.success or tran:
                    viol("work-without-resources:blocked", "operation on the second instance ran (success=%s, work runs %d) although r1 is held there by a live operation of equal or higher priority" % (tres.success, len(tran)))
                    return
                (tcell.shutdown() if tcell is not None else twin.shutdown())
                towned = [r for r in RES + ["r4"] if tc.resources[rid(r)].owner is not None]
                if towned or tc.active_operations:
                    viol("resource-leak:shutdown", "after shutdown of the second instance: owned=%s active=%s" % (towned, list(tc.active_operations)))
                    return
                if snap() != b3 or sorted(ctl.active_operations) != act3:
                    viol("other-instance-touched", "operation + shutdown on the second instance changed the first: %s -> %s, active %s -> %s" % (
                        b3, snap(), act3, sorted(ctl.active_operations)))
                    return
            if orig is not None and orig_state() != orig_before:
                viol("other-instance-touched", "the session on a deep copy of the system changed the original: %s -> %s" % (orig_before, orig_state()))
                return
            # ---- every case ends with a shutdown: nothing registered stays owned, nothing stays active
            ctx.count("final_shutdowns")
            shutdown()
            a3 = {r: (lk.owner, lk.hold_count) for r, lk in ctl.resources.items()}
            owned = {r: v for r, v in a3.items() if v[0] is not None}
            if owned or ctl.active_operations:
                multi = holder and any(holder[0].count(r) > 1 for r in owned)
                viol("reentrant-hold-leak" if multi else "resource-leak:shutdown", "after the final shutdown: owned=%s active=%s" % (owned, list(ctl.active_operations)))
                return
        except BaseException as e:
            viol("followup-raises:final", "final twin operation / shutdown raised %r" % (e,))
            return
    if fault != "none" or stopped is not None or any(v > 1 for v in obtained.values()) or holder is not None:
        ctx.nontrivial((mi, li, hi, fi))
    if n % 9973 == 0:
        ctx.sample(desc)


# ------------------------------------------------------------------------------------------------------------------
def session_case(ctx, k):
    """One long-lived instance, tens of thousands of operations with distinct ids, holders coming and going, maintenance,
    re-registrations and a few watchdog expiries; after EVERY call the same obligations as in the enumerated cases."""
    import operon_ai.coordination.controller as cmod
    import operon_ai.coordination.types as tmod
    import operon_ai.coordination.watchdog as wmod
    from operon_ai.coordination.system import CoordinationSystem
    from operon_ai.coordination.controller import Checkpoint
    from operon_ai.coordination.types import Phase
    from datetime import timedelta

    rng = ctx.rng("session", k)
    r4 = ctx.rng("session-r4", k)
    r5 = ctx.rng("session-r5", k)
    nops = SESSION_OPS[ctx.tier]
    clock = VClock()
    hostile = k % 2 == 0
    SRES = ["s0{0}%s{", "s1\n\x00(.*)[\\", "s2\udc80\u00e9%(x)s", "s3}$^|"] if hostile else ["s0", "s1", "s2", "s3"]
    NOPE = "nope%d{}\udcff" if hostile else "nope"
    OPFMT = "o%d" if not hostile else "o%d{}\n%%s\udc80"
    TIMEOUT = 3 * 86400.0
    tz = [None, "XLO-14", "XLW12", "XNP-5:45"][k % 4]
    desc = {"session": k, "operations": nops, "trail": [], "TZ": tz, "hostile_names": hostile}
    if tz is not None:
        ctx.count("timezone_cases")
    if hostile:
        ctx.count("hostile_name_cases")

    def viol(mech, what):
        ctx.violation(mech, what, dict(desc, trail=desc["trail"][-12:]))

    with environment(tz, hostile and not ctx.verbose), patched(clock, cmod, tmod, wmod):
        cell = None
        if k % 3 == 2:
            from operon_ai.cell import IntegratedCell
            cell = IntegratedCell(max_operation_time=timedelta(seconds=TIMEOUT), pool_capacity=10 ** 6)
            system = cell.coordination
        else:
            system = CoordinationSystem(max_operation_time=timedelta(seconds=TIMEOUT))
        ctl = system.controller
        front = cell if cell is not None else system
        for i, r in enumerate(SRES):
            front.register_resource(r, bool((k + i) % 2))
        cpf = {}

        def cond_for(phase):
            def cond(c):
                f = cpf.get(c.operation_id)
                if f and f[0] == phase:
                    if f[1] == "raise":
                        raise make_exception(len(desc["trail"]), "checkpoint exploded")
                    return False
                return True
            return cond
        for phs in (Phase.G0, Phase.G1, Phase.S, Phase.G2):
            ctl.checkpoints[phs] = list(ctl.checkpoints.get(phs, [])) + [Checkpoint(phase=phs, condition=cond_for(phs), name="injected")]
        live = {}           # holder id -> context
        SFAULTS = ["none"] * 6 + ["work_raises", "validate_false", "validate_raises", "kill_in_work", "cp_false", "cp_raise", "validate_absent", "kill_in_validate"]

        def snap():
            res_ = ctl.resources
            return {r: (res_[r].owner, res_[r].hold_count) for r in SRES}

        expired = False
        for i in range(nops):
            x = rng.random()
            b = snap()
            try:
                if x < 0.72:
                    ctx.count("session_operations")
                    req = [rng.choice(SRES) for _ in range(rng.randint(0, 3))]
                    if rng.random() < 0.03:
                        req.insert(rng.randint(0, len(req)), NOPE)
                    if req and r5.random() < 0.04:
                        # round 5: one resource requested many times over (re-entrant holds far beyond 2-3: caps / bounded release loops)
                        req = req + [r5.choice(req)] * r5.choice([15, 16, 17, 18, 19, 20, 33, 64, 65, 200])
                        ctx.count("session_heavy_multiplicity_requests")
                    prio = rng.choice([0, 1, 5, 9, -3, 2 ** 53 + 1, 0.5])
                    if r4.random() < 0.1:
                        prio = r4.choice([True, False, Fraction(11, 2), Fraction(-1, 3)])
                    if i % 2500 == 0:
                        gc.collect()        # dead requests / closures / contexts are really gone: their addresses get reused by the next ones
                    fault = rng.choice(SFAULTS)
                    # model (preemption decided from the public fields of the live lock)
                    own = {r: b[r][0] for r in SRES}
                    obtained, stopped = set(), None
                    for r in req:
                        if r == NOPE:
                            stopped = "unknown"
                            break
                        lk = ctl.resources[r]
                        if own[r] is None or own[r] == "self" or (lk.allow_preemption and prio > lk.owner_priority):
                            own[r] = "self"
                            obtained.add(r)
                        else:
                            stopped = "blocked"
                            break
                    if stopped == "blocked" or rng.random() < 0.05:
                        oid = "b%d" % (i % 150)         # (blocked ids come from a pool: waiting lists are never pruned by the library)
                    else:
                        oid = OPFMT % i
                        ctx.count("session_distinct_ids")
                    if oid in live or oid in ctl.active_operations:
                        continue
                    log = []
                    own_in_work = {}
                    if fault.startswith("cp_"):
                        cpf[oid] = (rng.choice([Phase.G1, Phase.S, Phase.G2]), "raise" if fault == "cp_raise" else "false")

                    def work():
                        log.append("work")
                        own_in_work.update({r: ctl.resources[r].owner for r in set(req) if r != NOPE})
                        if fault == "work_raises":
                            raise pick_exception(r4, i, "work failed")
                        if fault == "kill_in_work":
                            system.kill_operation(oid, "from inside")
                        return RESULT

                    def validate(res):
                        log.append("validate")
                        if fault == "kill_in_validate":
                            system.kill_operation(oid, "from inside the validator")
                        if fault == "validate_raises":
                            raise make_exception(i + 3, "validator exploded")
                        return fault != "validate_false"
                    vf = None if fault == "validate_absent" else validate
                    desc["trail"].append(("op", oid, req, repr(prio), fault))
                    wf = shaped(pick(r4, SESSION_SHAPES), work, 0)
                    if vf is not None:
                        vf = shaped(pick(r4, SESSION_SHAPES), vf, 1)
                    rsh = pick(r4, RES_SHAPES)
                    res_arg = shape_resources(rsh, [fresh(r) for r in req])
                    if rsh != "list":
                        ctx.count("resources_not_a_list")
                    if cell is not None and rng.random() < 0.5:
                        success = cell.execute("agent-%d" % (i % 7), oid, wf, resources=res_arg, validate_fn=vf, priority=prio).success
                    else:
                        success = system.execute_operation(oid, "agent-%d" % (i % 7), wf, resources=res_arg, validate_fn=vf, priority=prio).success
                    cpf.pop(oid, None)
                    a = snap()
                    path = fault if stopped is None else stopped
                    leak = [r for r in SRES if a[r][0] == oid]
                    if leak:
                        viol("reentrant-hold-leak" if any(req.count(r) > 1 for r in leak) else "resource-leak:%s" % path,
                             "long session, operation %d: %s still owned by the finished operation %s" % (i, leak, oid))
                        return
                    if oid in ctl.active_operations:
                        viol("still-active:%s" % path, "long session, operation %d: %s still listed as active" % (i, oid))
                        return
                    for r in SRES:
                        if r not in obtained and a[r] != b[r]:
                            viol("untouched-resource-changed:%s" % path, "long session, operation %d (%s requesting %s): %s never obtained but went %s -> %s" % (i, oid, req, r, b[r], a[r]))
                            return
                    nwork, nval = log.count("work"), log.count("validate")
                    if nwork > 1:
                        viol("work-ran-twice", "long session: work_fn ran %d times" % nwork)
                        return
                    if nwork and stopped is not None:
                        viol("work-without-resources:%s" % stopped, "long session: work_fn ran although acquisition stopped (%s)" % stopped)
                        return
                    if nwork and any(o != oid for o in own_in_work.values()):
                        viol("work-without-holding", "long session: work_fn ran with owners %s" % own_in_work)
                        return
                    if nval > 1 or (nval and (not nwork or fault == "work_raises" or log.index("validate") < log.index("work"))):
                        viol("validate-before-work-completed" if nval == 1 else "validate-ran-twice", "long session: log %s" % log)
                        return
                    if success and (nwork != 1 or stopped is not None or fault in ("work_raises", "validate_false", "validate_raises") or (vf is not None and nval != 1)):
                        viol("success-without-work-and-validation:%s" % path, "long session: success reported with log %s under %s" % (log, path))
                        return
                elif x < 0.82:
                    hid = "h%d" % rng.randrange(6)
                    if hid in live:
                        continue
                    hp = rng.choice([0, 2, 7])
                    hc = system.start_operation(hid, "agent-h", priority=hp)
                    live[hid] = hc
                    for r in rng.sample(SRES, rng.randint(1, 2)):
                        lk = ctl.resources[r]
                        if lk.owner is not None and not (lk.allow_preemption and hp > lk.owner_priority):
                            continue        # (a holder never waits: no wait-for cycles, so maintenance has nothing to break)
                        ctl.acquire_resource(hc, r)
                        if rng.random() < 0.2:
                            ctl.acquire_resource(hc, r)
                    desc["trail"].append(("hold", hid))
                elif x < 0.92:
                    if not live:
                        continue
                    hid = rng.choice(sorted(live))
                    hc = live.pop(hid)
                    how = rng.choice(["complete", "abort", "kill"])
                    desc["trail"].append(("exit", hid, how))
                    if how == "complete":
                        ctl.complete_operation(hc)
                    elif how == "abort":
                        ctl.abort_operation(hc, "test")
                    else:
                        system.kill_operation(hid, "manual")
                    ctx.count("session_holder_exits")
                    a = snap()
                    leak = [r for r in SRES if a[r][0] == hid]
                    if leak or hid in ctl.active_operations:
                        viol("resource-leak:holder_%s" % how, "long session: holder %s exit via %s left %s owned / active=%s" % (hid, how, leak, hid in ctl.active_operations))
                        return
                    for r in SRES:
                        if b[r][0] not in (None, hid) and a[r] != b[r]:
                            viol("exit-touches-foreign-lock:holder_%s" % how, "long session: exit of %s changed %s: %s -> %s" % (hid, r, b[r], a[r]))
                            return
                elif x < 0.975:
                    # reporting APIs and maintenance; nothing has expired unless the clock was pushed past the timeout
                    desc["trail"].append(("maintenance", expired))
                    system.health()
                    ctl.stats()
                    system.watchdog.check(ctl)
                    (cell.run_maintenance() if cell is not None else system.run_maintenance())
                    a = snap()
                    if expired:
                        still = [h for h in live if h in ctl.active_operations]
                        if still:
                            viol("watchdog-timeout-not-enforced", "long session: %s older than max_operation_time still active after maintenance" % still)
                            return
                        leak = [r for r in SRES if a[r][0] is not None]
                        if leak:
                            viol("resource-leak:watchdog", "long session: watchdog kill of every live holder left %s owned" % leak)
                            return
                        live.clear()
                    elif a != b or any(h not in ctl.active_operations for h in live):
                        viol("untouched-resource-changed:maintenance", "long session: maintenance with nothing expired changed ownership %s -> %s" % (b, a))
                        return
                elif x < 0.99:
                    r = rng.choice(SRES)
                    desc["trail"].append(("reregister", r))
                    ctx.count("reregistrations")
                    if ctl.resources[r].owner is not None:
                        ctx.count("reregistered_while_held")
                    front.register_resource(r, rng.random() < 0.5)
                elif not expired and i > nops // 2 and rng.random() < 0.2:
                    # a jump of more than four days: from now on every operation that is still alive at a maintenance call is overdue
                    clock.advance(TIMEOUT + 86400.0 + 50.0)
                    expired = True
                    desc["trail"].append(("clock-jump",))
            except BaseException as e:
                viol("followup-raises:session", "long session step %d raised %r" % (i, e))
                return
        try:
            (cell.shutdown() if cell is not None else system.shutdown())
        except BaseException as e:
            viol("followup-raises:final", "long session: shutdown raised %r" % (e,))
            return
        ctx.count("final_shutdowns")
        owned = {r: (lk.owner, lk.hold_count) for r, lk in ctl.resources.items() if lk.owner is not None}
        if owned or ctl.active_operations:
            viol("resource-leak:shutdown", "long session: after shutdown owned=%s active=%s" % (owned, list(ctl.active_operations)[:5]))
            return
    ctx.nontrivial(("session", k))


# ------------------------------------------------------------------------------------------------------------------
O_PROBE_CASES = {"quick": 1500, "thorough": 5000}
# public callables the workload calls itself (directly, or - marked "via" - through the entry point that wraps them)
EXERCISED = {
    "CoordinationSystem": {"register_resource", "start_operation", "execute_operation", "run_maintenance", "kill_operation", "health", "shutdown"},
    "CellCycleController": {"register_resource", "start_operation", "advance", "acquire_resource", "release_resource", "release_all_resources",
                            "check_deadlock", "complete_operation", "abort_operation", "stats"},
    "ResourceLock": {"is_available", "hold_duration", "pop_next_waiter", "try_acquire", "release"},          # the last two via the controller
    "Watchdog": {"check", "execute", "manual_kill", "stats"},
    "PriorityInheritance": {"check_and_boost", "restore_priority", "get_boost", "is_boosted", "clear_all", "stats"},
    "DependencyGraph": {"add_dependency", "remove_dependency", "remove_all_for_agent", "detect_cycle", "get_blocking_chain", "clear"},
    "OperationContext": {"set_result", "add_acquired_resource", "enter_phase"},                               # the last two via the controller
    "Checkpoint": {"evaluate"},
    "IntegratedCell": {"register_resource", "execute", "run_maintenance", "health", "shutdown"},
}
EXERCISED_KW = {
    "CoordinationSystem.__init__": {"max_operation_time", "starvation_timeout", "progress_timeout", "controller", "priority_manager"},
    "CoordinationSystem.execute_operation": {"operation_id", "agent_id", "work_fn", "resources", "validate_fn", "priority"},
    "CoordinationSystem.register_resource": {"resource_id", "allow_preemption"},
    "CoordinationSystem.start_operation": {"operation_id", "agent_id", "priority"},
    "CoordinationSystem.kill_operation": {"operation_id", "reason"},
    "IntegratedCell.execute": {"agent_id", "operation_id", "work_fn", "resources", "validate_fn", "priority"},
    "IntegratedCell.register_resource": {"resource_id", "allow_preemption"},
    "IntegratedCell.__init__": {"max_operation_time", "pool_capacity"},
    "CellCycleController.__init__": {"checkpoints"},
}


def api_inventory(pctx):
    """informational: public callables / keyword parameters of the anchored classes that no session of this check uses"""
    import inspect
    from operon_ai.coordination.system import CoordinationSystem
    from operon_ai.coordination.controller import CellCycleController, OperationContext, Checkpoint
    from operon_ai.coordination.types import ResourceLock, DependencyGraph
    from operon_ai.coordination.watchdog import Watchdog
    from operon_ai.coordination.priority import PriorityInheritance
    from operon_ai.cell import IntegratedCell
    classes = {c.__name__: c for c in (CoordinationSystem, CellCycleController, ResourceLock, Watchdog, PriorityInheritance, DependencyGraph,
                                       OperationContext, Checkpoint, IntegratedCell)}
    for cname, cls in classes.items():
        for name in dir(cls):
            if name.startswith("_"):
                continue
            attr = inspect.getattr_static(cls, name)
            if not (callable(attr) or isinstance(attr, (property, staticmethod, classmethod))):
                continue
            pctx.count("public_api_seen")
            if name not in EXERCISED.get(cname, ()):
                pctx.count("api_not_exercised:%s.%s" % (cname, name))
    for key, used in EXERCISED_KW.items():
        cname, meth = key.split(".")
        try:
            params = [p_ for p_ in inspect.signature(getattr(classes[cname], meth)).parameters if p_ != "self"]
        except (AttributeError, TypeError, ValueError):
            continue
        for p_ in params:
            if p_ not in used:
                pctx.count("kwarg_not_exercised:%s(%s)" % (key, p_))


def extra_parent(pctx):
    try:
        api_inventory(pctx)
    except Exception as e:      # informational only
        pctx.notes.append("api inventory failed: %r" % (e,))
    # ---- the refusal obligations once more in an interpreter that strips assert statements
    cmd = [sys.executable, "-O", "-B", "-m", "rv.c14_o_child", pctx.tier, str(pctx.seed), str(O_PROBE_CASES[pctx.tier])]
    try:
        cp = subprocess.run(cmd, cwd=core.VERIF, capture_output=True, text=True, timeout=900)
    except (OSError, subprocess.TimeoutExpired) as e:
        pctx.inconclusive("the python -O probe did not finish: %r" % (e,))
        return
    line = [l for l in cp.stdout.splitlines() if l.startswith("C14-O-RESULT ")]
    if cp.returncode != 0 or not line:
        pctx.inconclusive("the python -O probe failed (rc=%s): %s" % (cp.returncode, (cp.stderr or cp.stdout)[-800:]))
        return
    part = json.loads(line[-1][len("C14-O-RESULT "):])
    if part.get("optimize", 0) < 1:
        pctx.inconclusive("the python -O probe did not run optimized")
        return
    pctx.count("optimized_interpreter_cases", part["evaluations"])
    pctx.count("optimized_interpreter_work_runs", part["counters"].get("work_runs_sampled", 0))
    pctx.count("optimized_interpreter_blocked", part["counters"].get("blocked_acquisitions", 0))
    for mech, cnt in part["violation_counts"].items():
        pctx.violation_counts[mech] = pctx.violation_counts.get(mech, 0) + cnt
    for v in part["violations"]:
        v["what"] = "[python -O] " + v["what"]
        pctx.violations.append(v)


if __name__ == "__main__":
    core.main(sys.modules[__name__])
