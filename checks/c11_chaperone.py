"""C11 — output validator: 'valid' implies the schema holds; clean JSON is taken verbatim.

Runs the real `Chaperone.fold` / `fold_enhanced` (and `ChaperoneLoop.heal` on top of it) on raw texts
made by serialising random instances of random pydantic schemas and corrupting them, under every
strategy order/subset, while these monitors observe the returned objects:

 (a) direct checks   — isinstance, re-validation of model_dump(), invalid => no structure + error trace,
                       confidence range, 1.0 only for strict, no exception;
 (b) provenance      — the valid structure must be what the schema makes of a JSON value decodable from the
                       raw text by an independent extractor (json raw_decode at every brace offset), of the
                       generator's ground truth (what a correct repair recovers), or of either through the
                       oracle's own coercion table; otherwise the value was fabricated/mangled;
 (c) differential    — fold vs fold_enhanced; heal() vs fold_enhanced on the same raw;
 (d) strict-valid raw — accepted, by STRICT with confidence 1.0 and exactly model_validate(json.loads(raw))
                       whenever STRICT is tried first;
 (e) sessions        — ONE long-lived Chaperone folds the same / related texts several times (plain and enhanced,
                       a different strategy list per call, equal-but-distinct and re-typed schemas, re-entrant folds
                       from the on_misfold callback); every step goes through monitors (a)-(d), so state carried from
                       an earlier call (memo, statistics, adaptive order) that changes a later verdict is seen;
 (f) healing loop    — max_retries 0..15, confidence_decay 0..2.5, success on any attempt (or never): every reported
                       confidence of a valid result stays in [0,1];
 (g) neighbours      — several Chaperone instances live in one process: plain ones are created (and used) first, then an
                       independently CONFIGURED one (a co-chaperone preprocessor that visibly rewrites the text, given to
                       the constructor and/or registered later; its own strategy list, also edited in place; its own
                       on_misfold) is created and used on the same texts, then more plain ones are created. The plain
                       instances — older and newer than the configured one, default-constructed or with explicit
                       None/{} arguments or their own strategy list — and the configured instance on a schema nothing was
                       registered for (a distinct class of the same name) fold the texts through monitors (a)-(d): whatever
                       one instance was given (class-level / module-level / shared-default state) must not reach another.
                       The configured instance's registration then changes (re-registration of a preprocessor that returns
                       its input, removal) and it is judged on the schema itself;
 (h) long histories  — one or two cases per run are > 20 000 operations / distinct texts on two long-lived instances used
                       alternately (statistics read and reset on the way), each operation judged by what the statement says
                       about a text whose meaning is known, every 40th and a closing round of hostile witnesses by (a)-(d);
 (i) environment     — every case is 'dressed' from its own random stream: verbose instances (silent=False, stdout replaced by
                       a sink that, half of the time, encodes strictly like a real UTF-8 terminal), a hostile wall clock behind
                       the module-level `time` name (frozen / leaping by days / backwards / epoch / far future), odd values of
                       the unused max_retries option, [] as a strategy list, a strategy named twice, the raw text as an equal
                       copy or a str subclass, a decorated variant of the schema (descriptions+docstring / frozen / a validator
                       that raises a RuntimeError subclass for some values). None of it may change a verdict;
 (j) failing hooks   — on_misfold callbacks, co-chaperone preprocessors and healing generators supplied by the check raise on
                       some calls. Where the library lets that exception out, the call has no result and is not judged; every
                       later call on the same instance / loop is judged as usual;
 (k) reads           — half of the sessions are replayed with get_statistics / reset_statistics / repr / attribute reads
                       interleaved anywhere: the two runs must report the same thing step by step.

Round 4 additions:
 (d') converse of (d) — a fold that fold_enhanced attributes to STRICT, and any valid fold under a list naming only STRICT, is a fold of
                       text that (outer white space aside) IS schema-valid JSON, with exactly model_validate(json.loads(text));
 (l) lifecycle       — one instance whose public settings are ASSIGNED after construction (strategies as a new list / tuple, sealed to
                       [STRICT], widened; on_misfold assigned / replaced by a falsy callable / by one that raises / withdrawn; silent and
                       max_retries set to values of other types; co_chaperones replaced), that is duplicated by copy / deepcopy / pickle
                       and used through the duplicate while the original is re-configured, called positionally / by keyword / with a
                       tuple, whose results are deep-copied and mapped (FoldedProtein.map), and that is handed to a healing loop driven
                       by the library's own mock generator (bool / Fraction settings, loop fields re-assigned between runs). Every step
                       is judged by (a)-(d') under the CURRENT settings;
 (m) churn           — a few cases create hundreds of short-lived, equal-length texts and uncached schema classes of alternating field
                       types, drop them and force collections in between (address reuse), judged by (a)-(d') and by what the text spells;
 (n) interpreter mode — one child interpreter started with -O folds a fixed probe list (rv/c11_probe.py); its records must equal this
                       interpreter's and keep the refusal obligations; an inventory of the anchored classes' public names against the
                       names the workload uses is reported as informational counters;
 workload            — fence labels / tag names spelled in upper or mixed case or naming another language, around flat and nested
                       payloads; texts that are JSON only as a whole (brace / bracket fragments inside string values) with and without
                       the type swaps of the coercion table; field and class names full of format / regex metacharacters; user hooks
                       and schema validators raising KeyError / TypeError / TimeoutError / AssertionError / ValueError, not only one type.
"""
import contextlib
import json
import random
import sys
import time as _real_time

from rv import core
from rv import c11_gen as G
from rv import c11_oracle as O

PID = "C11"
LEVEL = "exploration"
TECHNIQUE = ("runtime monitoring: real fold()/fold_enhanced()/heal() on generated schemas x corrupted serialisations x "
             "strategy orders; provenance oracle (independent raw_decode extractor + generator ground truth + own coercion "
             "table), direct re-validation, plain-vs-enhanced differential, statistics/on_misfold counters as observation points; "
             "long-lived-instance sessions (repeated texts, per-call strategy lists, twin/sibling schemas, re-entrant callback folds) "
             "and healing loops over unusual retry/decay configurations go through the same monitors; neighbour sessions: plain "
             "instances created before/after an independently configured one (rewriting co-chaperone, own strategies/on_misfold) "
             "are judged by the same monitors, with call counters inside the foreign preprocessor/callback; "
             "every case dressed with environment/configuration that must not matter (verbose mode into a strict UTF-8 sink, hostile "
             "virtual clock, degenerate option values, decorated / frozen / raising-validator schema variants, equal-but-distinct text objects); "
             "raising user hooks (on_misfold, preprocessor, generator) with the state afterwards judged; session replay with read-only / "
             "maintenance calls interleaved (differential); > 20 000-operation histories on long-lived instances; "
             "lifecycle sessions (public settings assigned mid-life, copy/deepcopy/pickle duplicates, keyword / tuple calling conventions, "
             "FoldedProtein.map, the library's mock healing generator) judged under the current settings; churn of short-lived texts and "
             "schema classes with forced collections; a python -O child probe compared record by record; independent whole-document oracle "
             "for everything attributed to STRICT")
RULE = ("cases = fixed witness raws x all 64 strategy orders, then seeded random (schema, instance, semantic swap, writer style, "
        "wrapper, order), a share of them continued as a healing-loop run, as a multi-fold session on one instance or as a neighbour session "
        "(several instances, one of them configured); non-trivial = the raw is strict-valid JSON for the schema, or it is not and the fold is valid; "
        "distinct = (schema shape, corruption labels, strategy used, valid); plus one (quick) or two (thorough) long-history cases of "
        "26 000-70 000 operations on two long-lived instances, one (quick) or three (thorough) churn cases of 200-500 short-lived "
        "texts / schema classes, and a parent-side probe of 54 fold pairs in a python -O child; 3 % of the random cases are "
        "whole-document texts (flat schema, brace fragments in strings, coercion-table swaps), 4 % continue as a lifecycle session")
ASSUMPTIONS = [
    "schemas are plain pydantic field models (0-15 fields: int/float/str/bool/list/Optional/one nested model), no aliases or extra='forbid'; "
    "decorated variants add descriptions/titles/a docstring, frozen=True, or a field validator that returns every value unchanged and "
    "raises a RuntimeError subclass for some (the unchanged tree turns that into a failed strategy attempt)",
    "raw text is a str (possibly a str subclass; possibly holding lone surrogates, NUL, noncharacters)",
    "a user hook (on_misfold, co-chaperone preprocessor, healing generator) may raise; where the library lets the exception out the call "
    "is not judged (no result exists), every later call is. A call whose on_misfold raised concerns a text nothing accepted",
    "a co-chaperone preprocessor that returns its input unchanged leaves the raw text as the text that is folded: such folds are judged",
    "stdout is a UTF-8 text stream (printing unencodable text to it raises, as on a real terminal); the wall clock is arbitrary",
    "no text-changing co-chaperone preprocessor is registered on the instance/schema pair whose fold is judged (folds through such a preprocessor "
    "are run, counted and not judged); a preprocessor given to ANOTHER instance, or to the same instance for ANOTHER schema class, or registered "
    "earlier and since replaced / removed, is part of the workload",
    "an instance's public `strategies` list may be edited in place by its owner; the list handed to a constructor is not shared by the check between instances",
    "strategy lists are non-empty lists or tuples of FoldingStrategy members (an empty list means 'default' in the API); one-shot iterators "
    "are outside the declared parameter type and not used",
    "a fold 'by the strict strategy' means: the text, outer white space (str.strip) aside, parsed as one JSON document and validated",
    "duplicates of an instance (copy / deepcopy / pickle) owe what the original owes under the settings they were copied with; where "
    "pickling is impossible (a lambda callback, a generated class as registry key) the step is skipped",
    "non-finite floats only occur in top-level fields of generated instances",
    "pydantic lax-mode validation defines 'instance of the schema' (the library validates with model_validate)",
    "healing loop: max_retries >= 0 and confidence_decay >= 0 (a negative decay is not a discount); the generator does not raise",
    "a valid enhanced fold names a strategy from the caller's strategy list (the list is the set of strategies allowed to accept)",
]

PERSON = (("name", "str", 0), ("age", "int", 0))
ITEM = (("name", "str", 0), ("price", "float", 0), ("tags", "list_str", 2))
OPT = (("note", "str", 1), ("ok", "bool", 2))
NEST = (("inner", "model", 0, (("x", "int", 0),)), ("title", "str", 0))
COERCE3 = (("age", "int", 0), ("price", "float", 0), ("ok", "bool", 0), ("tags", "list_int", 0), ("name", "str", 0))

EMPTY = ()
MANY = tuple(("f%d" % i, "bool", 0) for i in range(10)) + (("n0", "str", 1), ("n1", "str", 1))
NUMS = (("tags", "list_int", 0), ("ratio", "float", 0), ("name", "str", 2))
ITEM_S = (("name", "str", 0), ("price", "str", 0), ("tags", "str", 2))       # ITEM's field names, every value a string
OPT_S = (("note", "str", 1), ("ok", "str", 2))
ODDKEYS = (("a.b*", "int", 0), ("x%sy{0}", "str", 0), ("k\n(", "bool", 2))
_N1 = {"inner": {"x": 1}, "title": "t"}
_MANY_V = dict([("f%d" % i, i % 3 != 0) for i in range(10)] + [("n0", None), ("n1", None)])
HI, LO = "\ud83d", "\udc80"       # a high surrogate left by a cut emoji; what errors="surrogateescape" gives for byte 0x80

_P = lambda n, a: {"name": n, "age": a}  # noqa: E731
FIXED = [
    (PERSON, '{"name": "Alice", "age": 30}', _P("Alice", 30)),
    (PERSON, '  {"name": "Alice", "age": 30}\n', _P("Alice", 30)),
    (PERSON, '```json\n{"name": "Bob", "age": 25}\n```', _P("Bob", 25)),
    (PERSON, '```\n{"name": "Bob", "age": 25}\n```', _P("Bob", 25)),
    (PERSON, '<json>{"name": "Bob", "age": 25}</json>', _P("Bob", 25)),
    (PERSON, 'Here you go: {"name": "Bob", "age": 25} thanks', _P("Bob", 25)),
    (PERSON, "{'name': 'True North', 'age': 3}", _P("True North", 3)),
    (PERSON, '{"name": "a, }", "age": 1}', _P("a, }", 1)),
    (PERSON, "{'name': 'None of it', 'age': 2}", _P("None of it", 2)),
    (PERSON, '{"name": "Carol", "age": "42"}', _P("Carol", "42")),
    (PERSON, '{"name": 7, "age": "42"}', {"name": 7, "age": "42"}),
    (PERSON, '{"name": "Dan", "age": 30,}', _P("Dan", 30)),
    (PERSON, '{name: "Eve", age: 5}', _P("Eve", 5)),
    (PERSON, "{'name': 'Eve', 'age': None}", _P("Eve", None)),
    (PERSON, '{"name": "Al", "age": 3.7}', None),
    (PERSON, '{"name": "Al", "age": "3.7"}', None),
    (PERSON, '{"name": "Al", "age": "1e3"}', None),
    (PERSON, '{"name": true, "age": 1}', None),
    (PERSON, '{"name": 9.5, "age": 1}', None),
    (PERSON, '{"name": "Al"', None),
    (PERSON, "", None),
    (PERSON, "I cannot comply", None),
    (PERSON, "[]", None),
    (PERSON, "42", None),
    (PERSON, "null", None),
    (PERSON, "{}", None),
    (PERSON, '{"foo": 1} {"name": "Zed", "age": 9}', _P("Zed", 9)),
    (PERSON, '{"name": "First", "age": 1} and {"name": "Second", "age": 2}', _P("First", 1)),
    (PERSON, '`{"name": "Tick", "age": 1}`', _P("Tick", 1)),
    (PERSON, '```{"name": "Tick", "age": 1}```', _P("Tick", 1)),
    (PERSON, '{"name": "x", "age": 1, "age": 2}', _P("x", 2)),
    (PERSON, '{"name": "ratio: NaN", "age": 1,}', _P("ratio: NaN", 1)),
    (PERSON, '{"name": "x, ]", "age": 1}', _P("x, ]", 1)),
    (PERSON, "{'name': '\\'k\\': v', 'age': 1}", _P("'k': v", 1)),
    (PERSON, '{"name": "Nonetheless Trueness", "age": 1,}', _P("Nonetheless Trueness", 1)),
    (PERSON, '{"name": "x", "age": 1, "meta": {"name": "inner", "age": 99}}', _P("x", 1)),
    (PERSON, '\ufeff{"name": "Bom", "age": 1}', _P("Bom", 1)),
    (PERSON, '\xa0{"name": "Nbsp", "age": 1}\x0c', _P("Nbsp", 1)),
    (PERSON, "[" * 10000 + "]" * 10000, None),
    (PERSON, '{"name": "big", "age": ' + "9" * 5000 + "}", None),
    (PERSON, '{"name": "deep", "age": 1, "z": ' + "[" * 10000 + "]" * 10000 + "}", None),
    (ITEM, '{"name": "w", "price": "9.5", "tags": "a, b"}', None),
    (ITEM, '{"name": "w", "price": NaN}', {"name": "w", "price": float("nan")}),
    (ITEM, "{'name': 'w', 'price': 1.5, 'tags': ['a']}", {"name": "w", "price": 1.5, "tags": ["a"]}),
    (ITEM, '{"name": "w", "price": 1e400}', None),
    (ITEM, '{"name": "w", "price": 2, "tags": ["True", "x, }"],}', {"name": "w", "price": 2, "tags": ["True", "x, }"]}),
    (OPT, "{}", {}),
    (OPT, "no json here {}", None),
    (OPT, '{"note": undefined, "ok": True}', {"note": None, "ok": True}),
    (OPT, '{"note": NaN}', {"note": None}),
    (OPT, '{"note": "see {} here", "ok": "yes"}', {"note": "see {} here", "ok": "yes"}),
    (OPT, '{"ok": "no"}', {"ok": "no"}),
    (OPT, '{"ok": "0", "note": 5}', None),
    (NEST, '{"inner": {"x": 1}, "title": "t"}', {"inner": {"x": 1}, "title": "t"}),
    (NEST, '{"inner": {"x": "1"}, "title": 5}', None),
    (NEST, "{'inner': {'x': 1}, 'title': 'False start'}", {"inner": {"x": 1}, "title": "False start"}),
    (COERCE3, '{"age": "4", "price": "2.5", "ok": "yes", "tags": "1, 2", "name": 5}', None),
    (COERCE3, '{"age": " 4 ", "price": "nan", "ok": "NO", "tags": "7", "name": 1.5}', None),
    (COERCE3, '```json\n{"age": "4", "price": "2.5", "ok": "1", "tags": [1], "name": false}\n```', None),
    # literal non-ASCII typography / normalisation-unstable code points inside string values of otherwise clean JSON
    (PERSON, '{"name": "it\u2019s \u201cfine\u201d \u2013 ok\u2026", "age": 30}', _P("it\u2019s \u201cfine\u201d \u2013 ok\u2026", 30)),
    (PERSON, '{"name": "\ufb01 \uff11\uff12 \u212b e\u0301 \u00a0x\u200b \uff02q\uff02", "age": 1}',
     _P("\ufb01 \uff11\uff12 \u212b e\u0301 \u00a0x\u200b \uff02q\uff02", 1)),
    (PERSON, '```json\n{"name": "\u2018q\u2019 \u00abw\u00bb \u0130\u00df", "age": 2}\n```', _P("\u2018q\u2019 \u00abw\u00bb \u0130\u00df", 2)),
    (PERSON, '{"name": "l\u2019\u00e9t\u00e9 \u201ehigh\u201c wide\u3000gap", "age": 3,}', _P("l\u2019\u00e9t\u00e9 \u201ehigh\u201c wide\u3000gap", 3)),
    (ITEM, '{"name": "\u201cw\u201d", "price": 1.5, "tags": ["\u2018a\u2019", "b\u2019s", "\u00bd\u2122"]}',
     {"name": "\u201cw\u201d", "price": 1.5, "tags": ["\u2018a\u2019", "b\u2019s", "\u00bd\u2122"]}),
    # text that cannot be encoded / is hostile to byte-level handling: lone surrogates, NUL, noncharacters, nothing but white space
    (PERSON, "Sure! " + HI + ' here you go: {"name": "bolt", "age": 3}', _P("bolt", 3)),
    (PERSON, '```json\n{"name": "bolt", "age": 3}\n```\nhope that helps ' + HI, _P("bolt", 3)),
    (PERSON, '{"name": "bo' + HI + 'lt", "age": 3}', _P("bo" + HI + "lt", 3)),
    (PERSON, '{"name": "bo\\ud83dlt", "age": 3}', _P("bo" + HI + "lt", 3)),
    (PERSON, LO, None),
    (PERSON, '{"name": "bolt' + HI, None),
    (PERSON, "{'name': 'bolt', 'age': 3} " + HI, None),
    (PERSON, "{'name': 'bo" + LO + "lt', 'age': 3,}", _P("bo" + LO + "lt", 3)),
    (PERSON, 'note \udc80\udcff: {"name": "bolt", "age": "3"}', _P("bolt", "3")),
    (PERSON, '\x00{"name": "Nul", "age": 1}', _P("Nul", 1)),
    (PERSON, '{"name": "a\\u0000b", "age": 1}\x00', _P("a\x00b", 1)),
    (PERSON, '{"name": "\U0001f600\uffff\U0010ffff", "age": 1}', _P("\U0001f600\uffff\U0010ffff", 1)),
    (PERSON, "   ", None),
    (PERSON, "\n", None),
    (PERSON, "\ufeff", None),
    (PERSON, "\x00", None),
    (PERSON, "\x85{\"name\": \"Nel\", \"age\": 1}\x1c", _P("Nel", 1)),
    (PERSON, "x" * 60000 + ' {"name": "far", "age": 1}', _P("far", 1)),
    (PERSON, '{"name": "' + "long " * 220000 + '", "age": 1}', _P("long " * 220000, 1)),      # 1.1 M characters of clean JSON
    # values at the edges of the arithmetic
    (PERSON, '{"name": "n", "age": -0}', _P("n", 0)),
    (PERSON, '{"name": "n", "age": 9007199254740993}', _P("n", 2 ** 53 + 1)),
    (PERSON, '{"name": "n", "age": -0.0}', _P("n", -0.0)),
    (PERSON, '{"name": "n", "age": "-9223372036854775809"}', _P("n", "-9223372036854775809")),
    (ITEM, '{"name": "w", "price": -0.0}', {"name": "w", "price": -0.0}),
    (ITEM, '{"name": "w", "price": 0.30000000000000004}', {"name": "w", "price": 0.1 + 0.2}),
    (ITEM, '{"name": "w", "price": 5e-324, "tags": []}', {"name": "w", "price": 5e-324, "tags": []}),
    (ITEM, '{"name": "w", "price": "-0.0"}', {"name": "w", "price": "-0.0"}),
    (ITEM, '{"name": "w", "price": 9007199254740993}', {"name": "w", "price": 2 ** 53 + 1}),
    (ITEM, "{'name': 'w', 'price': 1.7976931348623157e308,}", {"name": "w", "price": 1.7976931348623157e308}),
    (NUMS, '{"tags": [1, 2, 3, 4, 5, 6, 7, 8, 9, 10, 11,], "ratio": 0.1,}', {"tags": list(range(1, 12)), "ratio": 0.1}),
    (NUMS, '{"tags": [[1,], [2,]], "ratio": 1,}', None),
    # the empty object and schemas it is an instance of; a schema without fields
    (OPT, " {}\n", {}),
    (OPT, "{ }", {}),
    (OPT, "```json\n{}\n```", {}),
    (EMPTY, "{}", {}),
    (EMPTY, '{"a": 1}', {"a": 1}),
    (EMPTY, "[]", None),
    (EMPTY, "null", None),
    (EMPTY, "", None),
    # more than a handful of repairs of one kind in one text
    (MANY, json.dumps(_MANY_V), _MANY_V),
    (MANY, repr(_MANY_V), _MANY_V),
    (MANY, "{" + ", ".join("%s: %s" % (k, json.dumps(v)) for k, v in _MANY_V.items()) + "}", _MANY_V),
    (MANY, "{" + ", ".join("'%s': %s" % (k, json.dumps(v)) for k, v in _MANY_V.items()) + "}", _MANY_V),
    (MANY, "{" + ", ".join('"%s": %s' % (k, "undefined" if v is None else json.dumps(v)) for k, v in _MANY_V.items()) + "}", _MANY_V),
    (MANY, json.dumps({k: (str(v).lower() if isinstance(v, bool) else v) for k, v in _MANY_V.items()}),
     {k: (str(v).lower() if isinstance(v, bool) else v) for k, v in _MANY_V.items()}),
    # fences / tags whose label is spelled differently (upper / mixed case, another language), around flat and nested payloads
    (NEST, '```JSON\n{"inner": {"x": 1}, "title": "t"}\n```', _N1),
    (NEST, 'Here you go:\n```Json\n{"inner": {"x": 1}, "title": "t"}\n```\nDone.', _N1),
    (NEST, 'Result: <JSON>{"inner": {"x": 1}, "title": "t"}</JSON> thanks', _N1),
    (NEST, '```json\n{"inner": {"x": 1}, "title": "t"}\n```', _N1),
    (NEST, '```javascript\n{"inner": {"x": 1}, "title": "t"}\n```', _N1),
    (NEST, '~~~json\n{"inner": {"x": 1}, "title": "t"}\n~~~', _N1),
    (NEST, '<Json>\n{"inner": {"x": "1"}, "title": 5}\n</Json>', {"inner": {"x": "1"}, "title": 5}),
    (PERSON, '```JSON\n{"name": "Bob", "age": 25}\n```', _P("Bob", 25)),
    (PERSON, '<JSON>{"name": "Bob", "age": "25"}</JSON>', _P("Bob", "25")),
    (ITEM, "```Json\n{'name': 'w', 'price': 1.5, 'tags': ['a'],}\n```", {"name": "w", "price": 1.5, "tags": ["a"]}),
    # documents that are JSON only as a whole (a brace / bracket inside a string value defeats the search for an embedded object),
    # clean or in need of the coercion table
    (ITEM, '{"name": "set {a} or b}", "price": "9.5", "tags": "x, y"}', {"name": "set {a} or b}", "price": "9.5", "tags": "x, y"}),
    (ITEM, '{"name": "x}y", "price": 2.5, "tags": "a, b"}', {"name": "x}y", "price": 2.5, "tags": "a, b"}),
    (ITEM, '{"name": "x}y", "price": 2.5}', {"name": "x}y", "price": 2.5}),
    (ITEM_S, '{"name": "set {a} or b}", "price": "9.5", "tags": "x, y"}', {"name": "set {a} or b}", "price": "9.5", "tags": "x, y"}),
    (ITEM_S, '{"name": "x}y", "price": 2.5, "tags": "a, b"}', {"name": "x}y", "price": 2.5, "tags": "a, b"}),
    (OPT, '{"note": "use {x", "ok": "yes"}', {"note": "use {x", "ok": "yes"}),
    (OPT, '{"note": "end} [", "ok": "no"}', {"note": "end} [", "ok": "no"}),
    (OPT_S, '{"note": "use {x", "ok": "yes"}', {"note": "use {x", "ok": "yes"}),
    (PERSON, ' {"name": "}{", "age": "42"}\n', _P("}{", "42")),
    (PERSON, '{"name": 7.5, "age": "1", "z": "]"}', {"name": 7.5, "age": "1", "z": "]"}),
    (COERCE3, '{"age": "4", "price": "2.5", "ok": "yes", "tags": "1, 2", "name": 5, "why": "{"}', None),
    # field names that are hostile to string formatting / regular expressions
    (ODDKEYS, '{"a.b*": 4, "x%sy{0}": "v", "k\\n(": true}', {"a.b*": 4, "x%sy{0}": "v", "k\n(": True}),
    (ODDKEYS, '{"a.b*": "4", "x%sy{0}": 5, "k\\n(": "yes"}', {"a.b*": "4", "x%sy{0}": 5, "k\n(": "yes"}),
    (ODDKEYS, "Sure: {'a.b*': 4, 'x%sy{0}': 'v',}", {"a.b*": 4, "x%sy{0}": "v"}),
]



# ----------------------------------------------------------------------------- environment stand-ins
class _Sink:
    """Stand-in for the terminal while library code runs (verbose instances print). `strict` makes it behave like a real
    UTF-8 stream: text that cannot be encoded raises UnicodeEncodeError inside print()."""
    encoding = "utf-8"
    errors = "strict"

    def __init__(self):
        self.strict = False
        self.chars = 0

    def write(self, s):
        if self.strict:
            s.encode("utf-8")
        self.chars += len(s)
        return len(s)

    def flush(self):
        pass

    def isatty(self):
        return False


_SINK = _Sink()


def _lib(fn):
    """Run a library call with stdout going to the sink."""
    with contextlib.redirect_stdout(_SINK):
        return fn()


class Boom(Exception):
    """Raised by the check's own callbacks / generators / preprocessors (a user hook that fails)."""


class BoomKey(Boom, KeyError):
    pass


class BoomType(Boom, TypeError):
    pass


class BoomTimeout(Boom, TimeoutError):
    pass


class BoomAssert(Boom, AssertionError):
    pass


class BoomValue(Boom, ValueError):
    pass


BOOMS = (Boom, BoomKey, BoomType, BoomTimeout, BoomAssert, BoomValue)     # what a failing user hook raises: the usual types


def _boom(i, msg):
    """The i-th kind of hook failure (chosen by the caller from data of the case, not from a random stream)."""
    return BOOMS[i % len(BOOMS)](msg)


def _is_boom(e):
    seen = 0
    while e is not None and seen < 10:
        if isinstance(e, Boom):
            return True
        e = e.__cause__ or e.__context__
        seen += 1
    return False


CLOCK_KINDS = ("frozen", "jump-days", "backwards", "epoch-zero", "far-future", "negative")


class _HostileClock:
    """Replacement for the module-level name `time` of the module under test: the wall clock stands still, leaps by days
    between two reads, runs backwards, sits at the epoch / far in the future / before the epoch. Folding has no deadline in
    its contract, so no verdict may depend on it."""

    def __init__(self, kind):
        self.kind = kind
        self.reads = 0
        self.t = {"frozen": 1.7e9, "jump-days": 1.7e9, "backwards": 1.7e9, "epoch-zero": 0.0, "far-future": 4.0e12, "negative": -86400.0 * 400}[kind]

    def time(self):
        self.reads += 1
        if self.kind == "jump-days":
            self.t += 86400.0 * 3.5
        elif self.kind == "backwards":
            self.t -= 1000.0
        elif self.kind == "epoch-zero":
            self.t += 1e-9 if self.reads % 2 else 0.0
        elif self.kind in ("far-future", "negative"):
            self.t += 0.25
        return self.t

    monotonic = perf_counter = time

    def time_ns(self):
        return int(self.time() * 1e9)

    monotonic_ns = perf_counter_ns = time_ns

    def sleep(self, s):
        self.t += max(0.0, s)

    def __getattr__(self, name):
        return getattr(_real_time, name)


@contextlib.contextmanager
def _clock(ctx, kind):
    """Within the block the modules under test read `kind` of hostile clock through their module-level `time` name."""
    if kind is None:
        yield None
        return
    import operon_ai.organelles.chaperone as m1
    import operon_ai.healing.chaperone_loop as m2
    shim = _HostileClock(kind)
    saved = []
    try:
        for m in (m1, m2):
            if m.__dict__.get("time") is _real_time:
                saved.append(m)
                m.time = shim
        yield shim
    finally:
        for m in saved:
            m.time = _real_time
        ctx.count("reach:hostile_clock_reads", shim.reads)


class _Text(str):
    """A str subclass (what several client libraries hand out as 'text'): still a str in every respect."""
    __slots__ = ()


def _distinct(raw, how):
    """The same text as another object."""
    if how == "copy":
        return "".join(list(raw)) if len(raw) > 1 else raw
    if how == "subclass":
        return _Text(raw)
    return raw


_ORDERS = None


def orders():
    global _ORDERS
    if _ORDERS is None:
        from operon_ai.organelles.chaperone import FoldingStrategy as FS
        _ORDERS = G.all_orders([FS.STRICT, FS.EXTRACTION, FS.LENIENT, FS.REPAIR])
        assert len(_ORDERS) == 64
    return _ORDERS


N_SWEEP = len(FIXED) * 64

_DEFAULT_ORDER = None


def default_order():
    """The documented default strategy order: read once per process off the first default-constructed instance, before the
    workload has configured or edited anything (a copy — later cases compare against it, they do not re-read it)."""
    global _DEFAULT_ORDER
    if _DEFAULT_ORDER is None:
        from operon_ai.organelles.chaperone import Chaperone
        _DEFAULT_ORDER = tuple(Chaperone(silent=True).strategies)
    return list(_DEFAULT_ORDER)


def plan(tier):
    extra = 100000 if tier == "quick" else 2000000
    return {"cases": N_SWEEP + extra, "shards": 8 if tier == "quick" else 14,
            "min_nontrivial": 1500, "timeout": 600 if tier == "quick" else 2400,
            "require": {
                "folds_enhanced": 20000, "folds_plain": 20000, "differential_compared": 20000,
                "valid:strict": 3000, "valid:extraction": 1500, "valid:lenient": 500, "valid:repair": 800,
                "invalid_results": 5000, "provenance_checked": 8000, "provenance:text": 5000,
                "provenance:ground-truth": 300, "provenance:coerced": 200,
                "strict_valid_raws": 2500, "strict_first_exact": 2000,
                "via:extracted_via_markdown_json_block": 100, "via:extracted_via_markdown_code_block": 100,
                "via:extracted_via_xml_json_tag": 50, "via:extracted_via_bare_json_object": 300,
                "coercion:str_to_int": 20, "coercion:str_to_float": 20, "coercion:num_to_str": 20,
                "coercion:str_to_bool": 20, "coercion:str_to_list": 20,
                "repair:removed_trailing_comma_object": 50, "repair:fixed_single_quote_key": 50,
                "repair:quoted_unquoted_key": 50, "repair:converted_true": 20, "repair:converted_undefined": 5,
                "heal_runs": 1000, "heal_valid": 200, "misfold_callbacks": 1000,
                "heal_valid_after_retries": 200, "heal_valid_decay_saturated": 80, "heal_degraded": 300, "heal_confidences_checked": 1500,
                "raws_with_literal_typography": 800, "strict_valid_typography_raws": 100, "strict_first_exact_typography": 60,
                "sessions": 500, "session_steps": 2500, "session_refolds_of_accepted_text": 1000, "session_refold_now_rejected": 150,
                "session_reentrant_folds": 500, "strategy_membership_checked": 6000,
                "neighbour_sessions": 800, "neighbour_configured_folds": 3000, "neighbour_preprocessor_changed_text": 3000,
                "neighbour_judged_folds": 5000, "neighbour_judged_strict_first_exact": 800,
                "neighbour_strategies_edited_in_place": 250, "neighbour_configured_judged_on_namesake": 800,
                # round 3: environment / configuration that must not matter, failing hooks, reads, long histories
                "raws_with_unencodable_or_nul": 1500, "strict_valid_unencodable_raws": 50,
                "verbose_instances": 10000, "judged_with_verbose_instance": 8000, "hostile_clock_cases": 1200,
                "schema_variant:described": 500, "schema_variant:frozen": 500, "schema_variant:touchy": 500,
                "empty_strategy_list_means_default": 400, "raw_as:copy": 400, "raw_as:subclass": 400,
                "session_callback_raised": 700, "neighbour_preprocessor_raised": 400, "heal_generator_raised": 150,
                "heal_runs_after_generator_exception": 150, "heal_two_loops": 300, "heal_verbose_loops": 600, "heal_loop_reconfigured_between_runs": 60,
                "session_replays_with_reads": 400, "session_steps_compared_with_reads": 2000,
                "session_reads:get_statistics": 500, "session_reads:reset_statistics": 300,
                "session_results_scribbled": 3000, "session_list_edited_after_call": 3000, "session_list_edited_from_callback": 700,
                "neighbour_judged_through_identity_preprocessor": 400, "neighbour_identity_preprocessor_calls": 800,
                "neighbour_judged_after_removal": 400,
                "long_histories": 1, "long_history_ops": 20000, "long_history_distinct_texts": 20000,
                "long_history_refolds_after_19000_newer_texts": 20, "long_history_closing_witnesses": 20,
                "long_history_strict_valid_ops": 1500, "long_history_ops_fully_assessed": 120,
                # round 4: converse of the strict clause, label spellings, whole-document texts, lifecycle of an instance, churn, -O
                "strict_attributed_folds_checked": 3000, "strict_only_lists_checked": 150,
                "op:fence_label_variant": 300, "op:tag_name_variant": 300, "op:whole_document": 300,
                "lenient_valid_document_with_brace_in_string": 600, "lenient_coerced_document_with_brace_in_string": 500,
                "lifecycle_sessions": 500, "lifecycle_judged_folds": 3000, "lifecycle_strategies_assigned": 500,
                "lifecycle_sealed_to_strict": 200, "lifecycle_judged_while_sealed": 300,
                "lifecycle_on_misfold_assigned:new": 80, "lifecycle_on_misfold_assigned:falsy": 80, "lifecycle_on_misfold_assigned:raising": 80,
                "lifecycle_on_misfold_assigned:withdrawn": 80, "lifecycle_callback_raised_steps": 80,
                "lifecycle_silent_assigned": 200, "lifecycle_max_retries_assigned": 200, "lifecycle_co_chaperones_assigned": 200,
                "lifecycle_duplicated:copy": 120, "lifecycle_duplicated:deepcopy": 120, "lifecycle_duplicated:pickle": 80,
                "lifecycle_calls:keyword": 2000, "lifecycle_calls:mixed": 2000, "lifecycle_results_deepcopied": 800,
                "map_of_valid_result": 50, "mock_heal_runs": 150, "mock_heal_valid": 80,
                "churn_rounds": 40, "churn_collections": 10, "optimized_probe_records": 10,
                "stats:attempts:strict": 10000, "stats:attempts:extraction": 10000,
                "stats:attempts:lenient": 10000, "stats:attempts:repair": 10000,
            }}


# ----------------------------------------------------------------------------- case generation
_UNSET = object()
MAX_RETRIES_ARGS = (0, 1, None, -1, 10 ** 9, 2.5, True)      # "unused, kept for compatibility": no value may change a verdict


def dress(ctx, case, n):
    """Configuration of the case that is not part of the text: verbose instances, the terminal, the clock, constructor
    options, a decorated variant of the schema. Drawn from its own stream, so the texts are the same with and without it."""
    d = ctx.rng("dress", n)
    case["silent"] = (d.random() < 0.65, d.random() < 0.65)          # (instance used for fold_enhanced, instance used for fold)
    case["strict_sink"] = d.random() < 0.5
    case["clock"] = d.choice(CLOCK_KINDS) if d.random() < 0.08 else None
    case["max_retries"] = d.choice(MAX_RETRIES_ARGS) if d.random() < 0.15 else _UNSET
    case["variant"] = d.choice(G.VARIANTS) if d.random() < 0.12 else None
    case["empty_list"] = d.choice(["ctor", "call"]) if not case["order"] and d.random() < 0.1 else None
    if case["order"] and d.random() < 0.05:
        o = list(case["order"])
        o.insert(d.randrange(len(o) + 1), d.choice(o))                # a strategy named twice: the list is still the same set
        case["order"] = o
    case["raw_as"] = d.choice(["copy", "subclass"]) if d.random() < 0.06 else None
    return case


def long_cases(tier):
    """Cases (right after the sweep) that are long histories on one instance instead of a single text."""
    return {N_SWEEP: 26000} if tier == "quick" else {N_SWEEP: 70000, N_SWEEP + 1: 45000}


def churn_cases(tier):
    """Cases that are a churn of short-lived texts and schema classes (address reuse); on other shards than the long histories."""
    return {N_SWEEP + 3: 200} if tier == "quick" else {N_SWEEP + 3: 500, N_SWEEP + 5: 500, N_SWEEP + 6: 300}


def run_case(ctx, n):
    _SINK.strict = False
    if n in long_cases(ctx.tier):
        with _clock(ctx, "jump-days" if n % 2 else None):
            long_history(ctx, n, long_cases(ctx.tier)[n])
        ctx.count("reach:verbose_chars_printed", _SINK.chars)
        _SINK.chars = 0
        return
    if n in churn_cases(ctx.tier):
        churn(ctx, n, churn_cases(ctx.tier)[n])
        return
    try:
        _run_case(ctx, n)
    finally:
        ctx.count("reach:verbose_chars_printed", _SINK.chars)
        _SINK.chars = 0


def _run_case(ctx, n):
    if n < N_SWEEP:
        shape, raw, ground = FIXED[n // 64]
        order = orders()[n % 64]
        grounds = [ground] if ground is not None else []
        related = []
        nshape, nraw, nground = FIXED[(n // 64 + 1) % len(FIXED)]      # the next witness of the same schema, as a second text
        if nshape == shape and len(nraw) < 2000:
            related.append(nraw)
            if nground is not None:
                grounds.append(nground)
        case = {"kind": "fixed", "item": n // 64, "shape": shape, "raw": raw, "ground": grounds,
                "order": order, "labels": ("fixed%d" % (n // 64),), "via_ctor": n % 2 == 0, "heal": (n % 64) in (0, 15, 40),
                "session": (n % 64) in (3, 27, 52) and len(raw) < 2000, "related": related,
                "neighbour": ctx.rng("neighbour", n) if (n % 64) in (5, 33) and len(raw) < 2000 else None,
                "lifecycle": ctx.rng("lifecycle", n) if (n % 64) in (7, 44) and len(raw) < 2000 else None}
        return judge(ctx, dress(ctx, case, n), ctx.rng(n))
    rng = ctx.rng(n)
    r4 = ctx.rng("r4", n)            # its own stream: label spellings of wrappers, the whole-document family, lifecycle sessions
    if r4.random() < 0.03:
        w = ctx.rng("whole", n)
        shape, raw, grounds, labels, related = G.whole_document_case(w)
        case = {"kind": "random", "shape": shape, "raw": raw, "ground": grounds, "order": None if w.random() < 0.4 else w.choice(orders()),
                "labels": labels, "via_ctor": w.random() < 0.5, "heal": w.random() < 0.05, "session": w.random() < 0.5, "related": related,
                "neighbour": ctx.rng("neighbour", n) if w.random() < 0.1 else None,
                "lifecycle": ctx.rng("lifecycle", n) if w.random() < 0.15 else None}
        return judge(ctx, dress(ctx, case, n), w)
    hs = lambda r: G.hostile_string(r, O.n_groups_changing)  # noqa: E731
    shape = G.make_shape(ctx.rng("schema", rng.randrange(600 if ctx.tier == "quick" else 2000)))   # model classes are cached per shape
    hostile_p = rng.choice([0.0, 0.0, 0.3, 0.6])
    inst = G.gen_instance(rng, shape, hostile_p, hs)
    data, sem = G.semantic_ops(rng, shape, inst, hs)
    st = G.random_style(rng)
    if rng.random() < 0.04:
        data_out = [data]
        sem.append("wrap_in_list")
    elif rng.random() < 0.04:
        data_out = {"result": data}
        sem.append("wrap_in_key")
    else:
        data_out = data
    grounds = [data_out, inst]      # what a correct repair of the text recovers (and its sub-objects), and the pre-swap instance
    text = G.write(data_out, st, rng)
    decoy_value = G.gen_instance(rng, shape, 0.0, hs)
    decoy_text = G.write(decoy_value, G.Style(), rng)
    raw, wr, decoy_grounds = G.wrap(rng, text, decoy_text, decoy_value, rng2=r4)
    grounds.extend(decoy_grounds)
    labels = list(sem) + list(st.labels) + list(wr)
    if rng.random() < 0.004:
        raw, b = G.bomb(rng, raw)
        labels.append(b)
    r = rng.random()
    if r < 0.3:
        order = None
    else:
        order = rng.choice(orders())
    case = {"kind": "random", "shape": shape, "raw": raw, "ground": grounds, "order": order, "labels": tuple(labels),
            "via_ctor": rng.random() < 0.5, "heal": rng.random() < 0.08,
            "session": rng.random() < 0.06 and len(raw) < 3000, "related": [text, decoy_text]}
    nrng = ctx.rng("neighbour", n)      # its own stream: the other monitors see the same cases with or without (g)
    case["neighbour"] = nrng if nrng.random() < 0.05 and len(raw) < 3000 else None
    case["lifecycle"] = ctx.rng("lifecycle", n) if r4.random() < 0.04 and len(raw) < 3000 else None
    return judge(ctx, dress(ctx, case, n), rng)


# ----------------------------------------------------------------------------- the monitors
def _desc(case, **kw):
    d = {"raw": case["raw"], "schema": case["shape"], "labels": case["labels"],
         "order": [s.value for s in case["order"]] if case["order"] else "default",
         "via_constructor": case["via_ctor"]}
    for k in ("silent", "strict_sink", "clock", "variant", "empty_list", "raw_as"):
        if case.get(k) not in (None, False, (True, True)):
            d[k] = case[k]
    if case.get("max_retries", _UNSET) is not _UNSET:
        d["max_retries_arg"] = case["max_retries"]
    if case.get("kind") == "session":
        d["session"] = case["session"]
    if case.get("kind") == "long":
        d["long_history"] = case["long"]
    if case.get("kind") == "neighbour":
        d["neighbour"] = case["neighbour"]
    if case.get("kind") == "lifecycle":
        d["lifecycle"] = case["lifecycle"]
    d.update(kw)
    return d


def _call(ctx, case, which, fn, hook_may_raise=False):
    try:
        return _lib(fn), None
    except Exception as e:  # the statement: no raw text makes folding raise
        if hook_may_raise and _is_boom(e):
            # the check's own callback raised during this call and the library let it out (as the unchanged tree does):
            # not the text's doing; what is judged is every later call on the instance
            ctx.count("hook_exception_propagated")
            return None, e
        ctx.violation("fold-raises:%s:%s" % (which, type(e).__name__),
                      "%s raised %s: %s" % (which, type(e).__name__, str(e)[:200]), _desc(case))
        return None, e


def raw_facts(ctx, raw, S):
    """Independent facts about a raw text: is it, as it stands, schema-valid JSON (and what does it validate to)."""
    try:
        return True, S.model_validate(json.loads(raw))
    except Exception:
        return False, None


def document_facts(raw, S):
    """What STRICT is documented to do, done independently: the text (outer white space aside) parsed as ONE JSON document and
    validated -> (True, instance) / (False, None); (None, None) when the oracle itself runs out of stack or memory."""
    try:
        return True, S.model_validate(json.loads(raw.strip()))
    except (RecursionError, MemoryError):
        return None, None
    except Exception:
        return False, None


def judge(ctx, case, rng):
    with _clock(ctx, case.get("clock")):
        _judge(ctx, case, rng)


def _judge(ctx, case, rng):
    from operon_ai.organelles.chaperone import Chaperone, FoldingStrategy as FS

    shape, order = case["shape"], case["order"]
    if case.get("raw_as"):
        case["raw"] = _distinct(case["raw"], case["raw_as"])
        ctx.count("raw_as:" + case["raw_as"])
    raw = case["raw"]
    S = G.build_model(shape, twin=case["variant"]) if case.get("variant") else G.build_model(shape)
    default_order()
    for lb in case["labels"]:
        ctx.count("op:" + lb)
    ctx.count("order:" + ("default" if not order else "len%d" % len(order)))
    if G.has_typography(raw):
        ctx.count("raws_with_literal_typography")
    if G.has_odd(raw):
        ctx.count("raws_with_unencodable_or_nul")
    if case.get("variant"):
        ctx.count("schema_variant:" + case["variant"])
    if case.get("clock"):
        ctx.count("hostile_clock_cases")
    _SINK.strict = bool(case.get("strict_sink"))

    misfolds = []

    def on_misfold(e):
        misfolds.append(e)
        ctx.count("misfold_callbacks")

    def mk(which=0):
        kw = {"on_misfold": on_misfold, "silent": case["silent"][which]}
        if case["max_retries"] is not _UNSET:
            kw["max_retries"] = case["max_retries"]
        if not kw["silent"]:
            ctx.count("verbose_instances")
        if order and case["via_ctor"]:
            return _lib(lambda: Chaperone(strategies=list(order), **kw)), None
        if case["empty_list"] == "ctor":
            return _lib(lambda: Chaperone(strategies=[], **kw)), None
        return _lib(lambda: Chaperone(**kw)), (list(order) if order else ([] if case["empty_list"] == "call" else None))

    strict_valid, E = raw_facts(ctx, raw, S)
    if strict_valid:
        ctx.count("strict_valid_raws")
        if G.has_typography(raw):
            ctx.count("strict_valid_typography_raws")
        if G.has_odd(raw):
            ctx.count("strict_valid_unencodable_raws")

    # ---- run the real code (a fresh instance per API)
    ch, per_call = mk(0)
    eff = list(order) if order else list(ch.strategies)     # "default" = whatever order the instance documents
    if case["empty_list"]:
        ctx.count("empty_strategy_list_means_default")
    enh, err1 = _call(ctx, case, "fold_enhanced", lambda: ch.fold_enhanced(raw, S, per_call) if per_call is not None else ch.fold_enhanced(raw, S))
    stats_e = _lib(ch.get_statistics)
    ch2, per_call2 = mk(1)
    pl, err2 = _call(ctx, case, "fold", lambda: ch2.fold(raw, S, per_call2) if per_call2 is not None else ch2.fold(raw, S))
    stats_p = _lib(ch2.get_statistics)
    for s in FS:
        ctx.count("stats:attempts:" + s.value, stats_e["strategy_attempts"][s.value] + stats_p["strategy_attempts"][s.value])
    if enh is None or pl is None:
        return
    if not all(case["silent"]):
        ctx.count("judged_with_verbose_instance")
    used = assess(ctx, case, S, enh, pl, eff, misfolds, strict_valid, E)

    # ---- the healing loop on top of fold_enhanced (anchored: chaperone_loop.py)
    if case["heal"]:
        heal_monitor(ctx, case, rng, S, eff)

    # ---- one long-lived instance folding this and related texts repeatedly
    if case.get("session"):
        session_monitor(ctx, case, rng)

    # ---- several instances in one process, one of them configured
    if case.get("neighbour") is not None:
        neighbour_monitor(ctx, case, case["neighbour"])

    # ---- an instance whose public settings change during its life, that is duplicated, called by keyword, ...
    if case.get("lifecycle") is not None:
        lifecycle_monitor(ctx, case, case["lifecycle"])

    # ---- evidence
    if strict_valid or enh.valid:
        ctx.nontrivial((G.shape_key(shape), case["labels"], used.value if isinstance(used, FS) else None, bool(enh.valid)))
    if case["kind"] == "random":
        ctx.sample(_desc(case, valid=enh.valid, strategy=used.value if isinstance(used, FS) else None,
                         structure=repr(enh.structure)), cap=3)


def assess(ctx, case, S, enh, pl, eff, misfolds, strict_valid, E):
    """Monitors (a)-(d) on one (fold_enhanced, fold) result pair for case['raw'] / S / the effective strategy list."""
    from operon_ai.organelles.chaperone import FoldingStrategy as FS, EnhancedFoldedProtein
    from operon_ai.core.types import FoldedProtein
    raw = case["raw"]
    ctx.count("folds_enhanced")
    ctx.count("folds_plain")

    # ---- (a) direct checks on both results
    ok_e = direct_checks(ctx, case, "fold_enhanced", enh, S, EnhancedFoldedProtein)
    ok_p = direct_checks(ctx, case, "fold", pl, S, FoldedProtein)
    for m in misfolds:
        if m.valid or m.structure is not None or not m.error_trace:
            ctx.violation("misfold-callback-shape", "on_misfold received valid=%r structure=%r error_trace=%r" % (
                m.valid, m.structure, m.error_trace), _desc(case))
            break

    used = enh.strategy_used if enh.valid else None
    if enh.valid is True:
        ctx.count("valid:" + (used.value if isinstance(used, FS) else "unlabelled"))
        for c in enh.coercions_applied or []:
            if c.startswith("extracted_via_"):
                ctx.count("via:" + c)
            elif used == FS.LENIENT:
                ctx.count("coercion:" + (c.split("_", 1)[1] if "_" in c else c))
            elif used == FS.REPAIR:
                ctx.count("repair:" + c)
        if isinstance(used, FS):
            # the caller's strategy list is the set of strategies allowed to accept the text ("all strategy orders/subsets")
            ctx.count("strategy_membership_checked")
            if used not in eff:
                ctx.violation("strategy-used-not-configured", "valid fold attributed to %s although the strategy list is %s" % (
                    used.value, [x.value for x in eff]), _desc(case, strategy=str(used)))
        c = enh.confidence
        if not isinstance(c, (int, float)) or isinstance(c, bool) or not (0.0 <= c <= 1.0):
            ctx.violation("confidence-out-of-range", "valid fold with confidence %r" % (c,), _desc(case, strategy=str(used)))
        elif c == 1.0:
            # reading: full confidence is reserved for strict folds = the (whitespace-stripped) raw text is itself the JSON
            is_json = False
            try:
                json.loads(raw.strip())
                is_json = True
            except Exception:
                pass
            if used != FS.STRICT or not is_json:
                ctx.violation("confidence-1.0-non-strict",
                              "confidence 1.0 for a fold that is not a strict fold (strategy %s, raw %s JSON)" % (
                                  used, "is" if is_json else "is not"), _desc(case, strategy=str(used)))
        if used == FS.STRICT and c != 1.0:
            ctx.violation("strict-confidence-not-1.0", "strict fold with confidence %r" % (c,), _desc(case))
    else:
        ctx.count("invalid_results")
        c = enh.confidence
        if not isinstance(c, (int, float)) or not (0.0 <= c <= 1.0) or c == 1.0:
            ctx.violation("confidence-invalid-fold", "invalid fold with confidence %r" % (c,), _desc(case))

    # ---- (c) differential plain vs enhanced
    ctx.count("differential_compared")
    if bool(enh.valid) != bool(pl.valid):
        ctx.violation("fold-vs-enhanced:validity", "fold valid=%r but fold_enhanced valid=%r" % (pl.valid, enh.valid), _desc(case))
    elif enh.valid and ok_e and ok_p:
        if type(pl.structure) is not type(enh.structure) or not O.same(O.dump(pl.structure), O.dump(enh.structure)):
            ctx.violation("fold-vs-enhanced:structure", "fold returned %r, fold_enhanced %r" % (pl.structure, enh.structure), _desc(case))

    # ---- (d) strict-valid raw text
    if strict_valid and FS.STRICT in eff:
        for which, res in (("fold_enhanced", enh), ("fold", pl)):
            if not res.valid:
                ctx.violation("strict-valid-rejected:" + which, "schema-valid JSON reported invalid with STRICT configured", _desc(case))
        if eff[0] == FS.STRICT:
            ctx.count("strict_first_exact")
            if G.has_typography(raw):
                ctx.count("strict_first_exact_typography")
            if enh.valid and (used != FS.STRICT or enh.confidence != 1.0):
                ctx.violation("strict-valid-not-by-strict", "schema-valid JSON folded by %s with confidence %r although STRICT is first" % (
                    used, enh.confidence), _desc(case))
            for which, res, ok in (("fold_enhanced", enh, ok_e), ("fold", pl, ok_p)):
                if res.valid and ok and not O.same(O.dump(res.structure), O.dump(E)):
                    ctx.violation("strict-valid-values-differ:" + which,
                                  "structure %r differs from model_validate(json.loads(raw)) = %r" % (res.structure, E), _desc(case))

    # ---- (d') the converse: only text that is schema-valid JSON as it stands is folded by STRICT / under a STRICT-only list
    strict_only = bool(eff) and all(x == FS.STRICT for x in eff)
    if (enh.valid is True and used == FS.STRICT) or (strict_only and (enh.valid or pl.valid)):
        doc_valid, D = document_facts(raw, S)
        if doc_valid is None:
            ctx.count("document_oracle_unavailable")
        else:
            if enh.valid is True and used == FS.STRICT:
                ctx.count("strict_attributed_folds_checked")
                if not doc_valid:
                    ctx.violation("strict-fold-of-non-strict-text", "fold attributed to STRICT (confidence %r) although the text is not schema-valid JSON as it stands: %r" % (
                        enh.confidence, enh.structure), _desc(case))
                elif ok_e and not O.same(O.dump(enh.structure), O.dump(D)):
                    ctx.violation("strict-fold-values-differ", "STRICT fold %r differs from model_validate(json.loads(text)) = %r" % (enh.structure, D), _desc(case))
            if strict_only:
                ctx.count("strict_only_lists_checked")
                for which, res, ok in (("fold_enhanced", enh, ok_e), ("fold", pl, ok_p)):
                    if res.valid and not doc_valid:
                        ctx.violation("strict-only-accepts-non-strict-text:" + which, "valid under a STRICT-only list although the text is not schema-valid JSON as it stands: %r" % (
                            res.structure,), _desc(case))
                    elif res.valid and ok and not O.same(O.dump(res.structure), O.dump(D)):
                        ctx.violation("strict-fold-values-differ", "%s under a STRICT-only list gives %r, model_validate(json.loads(text)) = %r" % (which, res.structure, D), _desc(case))
    if enh.valid is True and used == FS.LENIENT and len(raw) < 4000:
        try:
            doc = json.loads(raw.strip())
        except Exception:
            doc = None
        if isinstance(doc, dict) and G.brace_in_string(doc):
            ctx.count("lenient_valid_document_with_brace_in_string")
            if enh.coercions_applied:
                ctx.count("lenient_coerced_document_with_brace_in_string")

    # ---- (b) provenance of the valid structures
    if enh.valid and ok_e:
        provenance(ctx, case, "fold_enhanced", enh.structure, S, used, FS, eff)
    if pl.valid and ok_p and not (enh.valid and ok_e and O.same(O.dump(pl.structure), O.dump(enh.structure))):
        # plain result differs from the enhanced one (already a violation above) — judge it on its own as well;
        # the plain API does not say which strategy won, so no repair allowance applies
        provenance(ctx, case, "fold", pl.structure, S, None, FS, eff)
    return used


JUNK_VALUES = ("scribbled", -1, None, 3.5, ["x"])


def _scribble(res):
    """The caller does what it likes with what it was handed: overwrite the returned structure's fields and the result
    object's own fields (after everything about them has been judged)."""
    X = getattr(res, "structure", None)
    if X is not None:
        for i, name in enumerate(list(type(X).model_fields)):
            try:
                setattr(X, name, JUNK_VALUES[i % len(JUNK_VALUES)])
            except Exception:
                pass            # an immutable schema
    for name, v in (("structure", None), ("valid", False), ("confidence", 7.0), ("error_trace", "scribbled"), ("strategy_used", None)):
        if hasattr(res, name):
            try:
                setattr(res, name, v)
            except Exception:
                pass
    for name in ("attempts", "coercions_applied"):
        lst = getattr(res, name, None)
        if isinstance(lst, list):
            lst.append("scribbled")


def session_monitor(ctx, case, rng):
    """(e) One long-lived Chaperone; see `_session`. Half of the sessions are replayed on a second instance with reporting /
    maintenance calls (get_statistics, reset_statistics, repr, reads of the public attributes) interleaved anywhere: every
    step of both runs goes through the monitors, and the two runs must report the same thing step by step."""
    ctx.count("sessions")
    with_reads = rng.random() < 0.5
    rr = random.Random(rng.getrandbits(64))
    state = rng.getstate()
    t1 = _session(ctx, case, rng, None)
    if not with_reads:
        return
    ctx.count("session_replays_with_reads")
    r2 = random.Random()
    r2.setstate(state)
    t2 = _session(ctx, case, r2, rr)
    for i, (a, b) in enumerate(zip(t1, t2)):
        ctx.count("session_steps_compared_with_reads")
        if not O.same(a, b):
            ctx.violation("reads-change-verdict", "step %d of a session reports %r; with reporting/maintenance calls interleaved it reports %r" % (i, a, b),
                          _desc(case, step=i))
            return
    if len(t1) != len(t2):
        ctx.violation("reads-change-verdict", "a session ends after %d steps; with reporting/maintenance calls interleaved after %d" % (len(t1), len(t2)),
                      _desc(case))


def _session(ctx, case, rng, rr):
    """One long-lived Chaperone: the case's raw text (mostly) and related texts are folded again and again, by both APIs,
    under a different strategy list per call and against the schema, an equal-but-distinct twin class, a re-typed sibling
    and a decorated variant; the text is handed over as the same object, an equal copy or a str subclass; per-call lists are
    reused between the two calls and edited by the caller afterwards (or from the callback); returned objects are scribbled
    over once judged; on some steps the on_misfold callback raises, or folds re-entrantly. Every step is judged by the same
    monitors as a fresh fold: nothing an earlier call left behind may make a later 'valid' unsound, make plain and enhanced
    disagree, or let a strategy outside the caller's list accept. `rr` (or None): interleave read-only / maintenance calls.
    Returns the trace of what every step reported."""
    from operon_ai.organelles.chaperone import Chaperone, FoldingStrategy as FS
    shape = case["shape"]
    sib = G.sibling_shape(rng, shape)
    variant = rng.choice(G.VARIANTS)
    schemas = [(shape, G.build_model(shape)), (shape, G.build_model(shape, twin=True)), (sib, G.build_model(sib)),
               (shape, G.build_model(shape, twin=variant))]
    texts = [case["raw"]] + [t for t in case.get("related", []) if t != case["raw"]]
    misfolds = []
    state = {"depth": 0, "reentrant": rng.random() < 0.3, "boom": False, "live_list": None}
    boom_session = rng.random() < 0.3
    trace = []

    def on_misfold(e):
        misfolds.append(e)
        ctx.count("misfold_callbacks")
        if state["live_list"] is not None:
            del state["live_list"][:]           # the caller's own list, emptied while the call that was given it is still running
            ctx.count("session_list_edited_from_callback")
        if state["boom"] and state["depth"] == 0:
            ctx.count("session_callback_raised")
            raise _boom(len(misfolds) + len(history), "on_misfold failed")
        if state["reentrant"] and state["depth"] == 0:
            # a fold of another text started from inside the callback of the running one, on the same instance
            state["depth"] += 1
            try:
                ctx.count("session_reentrant_folds")
                ch.fold(texts[-1], schemas[0][1])
                ch.fold_enhanced(texts[0], schemas[0][1])
            finally:
                state["depth"] -= 1

    ctor = rng.choice([None, None, rng.choice(orders())])
    silent = rng.random() < 0.6
    kw = {"on_misfold": on_misfold, "silent": silent}
    if ctor:
        kw["strategies"] = list(ctor)
    ch = _lib(lambda: Chaperone(**kw))
    if not silent:
        ctx.count("verbose_instances")
    _SINK.strict = bool(case.get("strict_sink"))
    # what a call without a per-call list must use for the whole life of the instance: the constructor's list, or the
    # documented default order (read off a fresh instance, not off the long-lived one)
    configured = list(ctor) if ctor else default_order()
    history = []
    accepted = set()        # (text, schema index) already reported valid by this instance
    last = [None]

    def read_something():
        kind = rr.choice(["get_statistics", "get_statistics", "repr", "reset_statistics", "attributes", "repr_result"])
        ctx.count("session_reads:" + kind)
        try:
            if kind == "get_statistics":
                st = _lib(ch.get_statistics)
                repr(st)
                if isinstance(st, dict):
                    st.clear()                   # the report belongs to the caller
            elif kind == "repr":
                _lib(lambda: (repr(ch), str(ch)))
            elif kind == "reset_statistics":
                _lib(ch.reset_statistics)
            elif kind == "attributes":
                _lib(lambda: (list(ch.strategies), dict(ch.co_chaperones), ch.max_retries, ch.silent))
            elif last[0] is not None:
                _lib(lambda: (repr(last[0]), str(last[0])))
        except Exception:
            ctx.count("session_read_raised")        # recorded; the verdicts come from the folds

    for step in range(rng.randint(3, 7)):
        ti = 0 if rng.random() < 0.7 else rng.randrange(len(texts))
        si = rng.choice([0, 0, 0, 0, 1, 1, 2, 3])
        if step == 0:
            order = None if rng.random() < 0.7 else rng.choice(orders())
            ti = si = 0
        else:
            order = rng.choice([None] + [rng.choice(orders())] * 4)
        raw = _distinct(texts[ti], rng.choice([None, None, "copy", "subclass"]))
        shp, S = schemas[si]
        eff = list(order) if order else configured
        if not order and step:
            ctx.count("session_default_order_after_override")
        plain_first = rng.random() < 0.5
        boom = boom_session and rng.random() < 0.4
        edit_from_callback = bool(order) and rng.random() < 0.15
        edit_after = rng.choice([None, "clear", "reverse", "extend"]) if order else None
        history.append({"text": ti, "schema": ("same", "twin", "sibling", variant)[si], "order": [s.value for s in order] if order else "default",
                        "first": "fold" if plain_first else "fold_enhanced", "callback_raises": boom,
                        "list_edited": "in-callback" if edit_from_callback else edit_after})
        sub = {"kind": "session", "shape": shp, "raw": raw, "ground": case["ground"], "order": order,
               "labels": case["labels"], "via_ctor": False, "silent": (silent, silent), "strict_sink": case.get("strict_sink"),
               "session": {"constructor_order": [s.value for s in ctor] if ctor else "default", "texts": texts, "steps": list(history),
                           "reads_interleaved": rr is not None}}
        del misfolds[:]
        pl = enh = None
        raised = {}
        shared = list(order) if order else None       # ONE list object handed to both calls of the step
        state["boom"] = boom
        if rr is not None and rr.random() < 0.6:
            read_something()
        for k, api in enumerate(("fold", "fold_enhanced") if plain_first else ("fold_enhanced", "fold")):
            fn = ch.fold if api == "fold" else ch.fold_enhanced
            lst = list(order) if edit_from_callback else shared
            state["live_list"] = lst if edit_from_callback else None
            res, exc = _call(ctx, sub, api, (lambda: fn(raw, S, lst)) if order else (lambda: fn(raw, S)), hook_may_raise=boom)
            state["live_list"] = None
            if exc is not None:
                raised[api] = exc
            if api == "fold":
                pl = res
            else:
                enh = res
            if k == 0 and rr is not None and rr.random() < 0.3:
                read_something()
        state["boom"] = False
        if edit_after == "clear":
            del shared[:]
        elif edit_after == "reverse":
            shared.reverse()
        elif edit_after == "extend":
            shared.extend(list(FS))
        if edit_after:
            ctx.count("session_list_edited_after_call")
        if any(not _is_boom(e) for e in raised.values()):
            trace.append(("raised", sorted(raised)))
            return trace                                  # a fold raised by itself (reported by _call)
        ctx.count("session_steps")
        if raised:
            # the callback raised and the library let it out: that call has no result. The callback only runs for a text
            # nothing accepted, so a valid result from the other API is a disagreement; an invalid one is judged alone.
            ctx.count("session_steps_with_callback_exception")
            from operon_ai.organelles.chaperone import EnhancedFoldedProtein
            from operon_ai.core.types import FoldedProtein
            entry = ["callback-raised", sorted(raised)]
            for api, res, cls in (("fold", pl, FoldedProtein), ("fold_enhanced", enh, EnhancedFoldedProtein)):
                if res is None:
                    continue
                direct_checks(ctx, sub, api, res, S, cls)
                entry.append((api, bool(res.valid)))
                if res.valid:
                    ctx.violation("fold-vs-enhanced:validity", "%s reports valid although the other API reported the same text to on_misfold" % api, _desc(sub))
            trace.append(tuple(entry))
            continue
        if any(k[0] == ti for k in accepted):
            ctx.count("session_refolds_of_accepted_text")
            if not enh.valid:
                ctx.count("session_refold_now_rejected")      # a narrower list / other schema rejects what was accepted before
        strict_valid, E = raw_facts(ctx, raw, S)
        assess(ctx, sub, S, enh, pl, eff, list(misfolds), strict_valid, E)
        trace.append((bool(pl.valid), bool(enh.valid), O.dump(pl.structure), O.dump(enh.structure), enh.confidence,
                      getattr(enh.strategy_used, "value", None), list(enh.coercions_applied or [])))
        if enh.valid:
            accepted.add((ti, si))
        last[0] = enh
        if rng.random() < 0.5:
            ctx.count("session_results_scribbled")
            _scribble(pl)
            _scribble(enh)
            last[0] = None
    return trace


def direct_checks(ctx, case, which, res, S, cls):
    """Shape of a result object. Returns True when a valid structure is a re-validating instance."""
    if not isinstance(res, cls) or not isinstance(res.valid, bool):
        ctx.violation("result-type:" + which, "%s returned %r" % (which, type(res).__name__), _desc(case))
        return False
    if not res.valid:
        if res.structure is not None:
            ctx.violation("invalid-with-structure:" + which, "invalid fold carries a structure %r" % (res.structure,), _desc(case))
        if not res.error_trace or not isinstance(res.error_trace, str):
            ctx.violation("invalid-without-error-trace:" + which, "invalid fold has error_trace=%r" % (res.error_trace,), _desc(case))
        return False
    X = res.structure
    if not isinstance(X, S):
        ctx.violation("valid-not-instance:" + which, "valid fold whose structure is %s, not an instance of the schema" % (
            type(X).__name__,), _desc(case, structure=repr(X)))
        return False
    try:
        again = S.model_validate(X.model_dump())
    except Exception as e:
        ctx.violation("valid-does-not-revalidate:" + which, "structure %r does not re-validate: %s" % (X, str(e)[:200]), _desc(case))
        return False
    if not O.same(again.model_dump(), X.model_dump()):
        ctx.violation("valid-does-not-revalidate:" + which, "structure %r re-validates to a different value %r" % (X, again), _desc(case))
        return False
    ctx.count("revalidated")
    return True


def provenance(ctx, case, which, X, S, used, FS, eff):
    ctx.count("provenance_checked")
    raw, shape = case["raw"], case["shape"]
    repair = used == FS.REPAIR and FS.REPAIR in eff
    cands = [("text@%s" % w, v) for w, v in O.text_candidates(raw)]
    ctx.count("text_candidates", len(cands))
    gt = []
    for g in case["ground"]:
        gt.extend(O.sub_objects(g))
    cands_gt = [("ground-truth", v) for v in gt]
    last = None
    for where, k in cands + cands_gt:
        how, detail = O.explain(S, shape, X, k, nan_as_null=repair)
        if how:
            ctx.count("provenance:" + ("text" if where.startswith("text") else "ground-truth") if how == "exact" else "provenance:coerced")
            return
        last = detail
    if repair:
        # known-finding classifier: ground truth first, then the text candidates
        for where, k in cands_gt + cands:
            how, kinds = O.explain(S, shape, X, k, nan_as_null=True, allow_rewrite=True)
            if how == "rewrite":
                for kind in sorted(kinds):
                    ctx.count("provenance:rewrite:" + kind)
                    ctx.violation("repair-rewrites-string-literal:" + kind,
                                  "REPAIR's %s substitution fired inside a string literal: valid structure %r holds a value that is not in the raw text" % (
                                      kind, X), _desc(case, source=where, candidate=k))
                return
    mech = "fabricated-value:%s" % (used.value if used is not None else "plain-fold")
    ctx.violation(mech, "valid structure %r (via %s) cannot be derived from any JSON in the raw text, from the ground truth, or through the coercion table (%s)" % (
        X, which, last or "no object candidate"), _desc(case, candidates=[k for _, k in (cands + cands_gt)[:6]]))


PRE_KINDS = ("replace", "swapcase", "digits", "empty", "prose", "truncate", "raise")
_DIGIT_SHIFT = {48 + i: 48 + (i + 1) % 10 for i in range(10)}
PLAIN_KINDS = ("default", "default", "callback", "explicit-none", "explicit-empty", "ordered", "verbose", "odd-retries")


def _preprocess(kind, text, foreign_text):
    if kind == "raise":
        raise _boom(len(text), "co-chaperone failed")
    if kind == "replace":
        return foreign_text                      # another, schema-valid JSON text altogether
    if kind == "swapcase":
        return text.swapcase()
    if kind == "digits":
        return text.translate(_DIGIT_SHIFT)
    if kind == "empty":
        return ""
    if kind == "prose":
        return "Sure! " + text + " Hope that helps."
    return text[: len(text) // 2]


def neighbour_monitor(ctx, case, rng):
    """(g) Several instances in one process. Plain instances (nothing registered on them) are created and used, then ONE
    independently configured instance — a co-chaperone preprocessor for the case's schema that rewrites the text, passed to
    the constructor and/or registered afterwards; its own strategy list (also edited in place); its own on_misfold — is
    created and used on the same texts, then further plain instances are created. Every fold of a plain instance, and of the
    configured instance against a distinct schema class of the same name, goes through monitors (a)-(d) exactly as a fresh
    fold does. Folds THROUGH the preprocessor are run and counted, not judged."""
    from operon_ai.organelles.chaperone import Chaperone, FoldingStrategy as FS
    ctx.count("neighbour_sessions")
    shape = case["shape"]
    S = G.build_model(shape)
    twin, namesake = G.build_model(shape, twin=True), G.build_model(shape, twin="namesake")
    texts = [case["raw"]] + [t for t in case.get("related", []) if t != case["raw"]][:1]
    hs = lambda r: G.hostile_string(r, O.n_groups_changing)  # noqa: E731
    foreign_text = G.write(G.gen_instance(rng, shape, 0.0, hs), G.Style(), rng)
    state = {"phase": "setup"}
    log = []
    info = {"texts": texts, "log": log}

    def make_pre(kind):
        def pre(text):
            if kind == "raise":
                ctx.count("neighbour_preprocessor_raised")
            out = _preprocess(kind, text, foreign_text)
            if state["phase"] == "judged":
                ctx.count("neighbour_foreign_preprocessor_calls")     # recorded; the verdict comes from the fold's result
            else:
                ctx.count("neighbour_preprocessor_calls")
                if out != text:
                    ctx.count("neighbour_preprocessor_changed_text")
            return out
        return pre

    def plain(kind):
        """A Chaperone with no co-chaperone of its own -> (instance, the order a call without a list must use, its misfolds)."""
        mis = []

        def cb(e):
            mis.append(e)
            ctx.count("misfold_callbacks")
        if kind == "default":
            return Chaperone(silent=True), default_order(), mis
        if kind == "callback":
            return Chaperone(on_misfold=cb, silent=True), default_order(), mis
        if kind == "explicit-none":
            return Chaperone(max_retries=3, strategies=None, co_chaperones=None, on_misfold=None, silent=True), default_order(), mis
        if kind == "explicit-empty":
            return Chaperone(strategies=[], co_chaperones={}, on_misfold=cb, silent=True), default_order(), mis
        if kind == "verbose":
            ctx.count("verbose_instances")
            return _lib(lambda: Chaperone(on_misfold=cb)), default_order(), mis              # silent is False by default
        if kind == "odd-retries":
            return Chaperone(max_retries=rng.choice(MAX_RETRIES_ARGS), on_misfold=cb, silent=True), default_order(), mis
        o = rng.choice(orders())
        return Chaperone(strategies=list(o), on_misfold=cb, silent=True), list(o), mis

    def judged_fold(who, inst, configured, mis, ti, schema, schema_name):
        order = rng.choice(orders()) if rng.random() < 0.2 else None
        eff = list(order) if order else list(configured)
        log.append({"instance": who, "text": ti, "schema": schema_name, "order": [s.value for s in order] if order else "default"})
        sub = {"kind": "neighbour", "shape": shape, "raw": texts[ti], "ground": case["ground"], "order": order,
               "labels": case["labels"], "via_ctor": False, "neighbour": dict(info, log=list(log))}
        del mis[:]
        before = state["phase"]
        state["phase"], state["subject"] = "judged", who
        try:
            res = {}
            for api in rng.choice([("fold", "fold_enhanced"), ("fold_enhanced", "fold")]):
                fn = inst.fold if api == "fold" else inst.fold_enhanced
                res[api], _ = _call(ctx, sub, api, (lambda: fn(texts[ti], schema, list(order))) if order else (lambda: fn(texts[ti], schema)))
        finally:
            state["phase"] = before
        if res["fold"] is None or res["fold_enhanced"] is None:
            return
        ctx.count("neighbour_judged_folds")
        strict_valid, E = raw_facts(ctx, texts[ti], schema)
        if strict_valid and eff[0] == FS.STRICT:
            ctx.count("neighbour_judged_strict_first_exact")
        assess(ctx, sub, schema, res["fold_enhanced"], res["fold"], eff, list(mis), strict_valid, E)

    # ---- plain instances that exist before anything is configured; some are used already
    older = []
    for i in range(rng.randint(1, 2)):
        kind = rng.choice(PLAIN_KINDS)
        inst, conf, mis = plain(kind)
        older.append(("older%d:%s" % (i, kind), inst, conf, mis))
        if rng.random() < 0.5:
            judged_fold(older[-1][0] + ":before-configuring", inst, conf, mis, 0, S, "same")

    # ---- the configured instance
    pre_kind = rng.choice(PRE_KINDS)
    via = rng.choice(["register", "register", "constructor", "constructor+register"])
    ctor = rng.choice([None, None, rng.choice(orders())])
    cmis = []

    def ccb(e):
        cmis.append(e)
        # recorded, not judged: the statement says nothing about who is told of a misfold
        ctx.count("neighbour_foreign_misfold_callbacks" if state["phase"] == "judged" and state["subject"] != "configured" else "misfold_callbacks")
    kw = {"on_misfold": ccb} if rng.random() < 0.6 else {}
    if ctor:
        kw["strategies"] = list(ctor)
    if via == "constructor":
        kw["co_chaperones"] = {S: make_pre(pre_kind)}
    elif via == "constructor+register":
        kw["co_chaperones"] = {twin: make_pre(rng.choice(PRE_KINDS))}
    cfg_silent = rng.random() < 0.7
    cfg = _lib(lambda: Chaperone(silent=cfg_silent, **kw))
    if via != "constructor":
        cfg.register_co_chaperone(S, make_pre(pre_kind))
    cconf = list(ctor) if ctor else default_order()
    edit = None
    if not ctor and rng.random() < 0.5:
        # the owner edits its own (default) list in place
        edit = rng.choice(["reverse", "drop-first", "replace"])
        if edit == "reverse":
            cfg.strategies.reverse()
        elif edit == "drop-first":
            del cfg.strategies[0]
        else:
            cfg.strategies[:] = list(rng.choice(orders()))
        cconf = list(cfg.strategies)
        ctx.count("neighbour_strategies_edited_in_place")
    info["configured"] = {"preprocessor": pre_kind, "given_via": via, "strategies": [s.value for s in ctor] if ctor else "default",
                          "edited_in_place": edit, "on_misfold": "on_misfold" in kw, "foreign_text": foreign_text}
    state["phase"] = "configured"
    for ti in range(len(texts)):
        for api in ("fold", "fold_enhanced"):
            try:
                r = _lib(lambda: getattr(cfg, api)(texts[ti], S))
                ctx.count("neighbour_configured_folds")
                ctx.count("neighbour_configured_folds_valid" if r.valid else "neighbour_configured_folds_invalid")
            except Exception:
                ctx.count("neighbour_configured_folds_raised")       # through a preprocessor: outside the judged domain

    # ---- judged: older plain instances, newer plain instances, and the configured one on a schema it has nothing for
    subjects = list(older)
    for i in range(rng.randint(1, 2)):
        kind = rng.choice(PLAIN_KINDS)
        inst, conf, mis = plain(kind)
        subjects.append(("newer%d:%s" % (i, kind), inst, conf, mis))
    for who, inst, conf, mis in subjects:
        for ti in range(len(texts)):
            if ti == 0 or rng.random() < 0.5:
                judged_fold(who, inst, conf, mis, ti, S, "same")
        if rng.random() < 0.25:
            try:        # the configured one keeps working in between
                _lib(lambda: cfg.fold(texts[0], S) if rng.random() < 0.5 else cfg.fold_enhanced(texts[0], S))
            except Exception:
                ctx.count("neighbour_configured_folds_raised")
    judged_fold("configured", cfg, cconf, cmis, 0, namesake, "namesake")
    ctx.count("neighbour_configured_judged_on_namesake")

    # ---- the registration changes: re-registration under the same schema, then removal. A preprocessor that hands the text
    # back unchanged leaves the raw text as what is folded; after removal nothing is registered for the schema any more.
    if rng.random() < 0.6:
        def same_text(text):
            ctx.count("neighbour_identity_preprocessor_calls")
            return text
        if rng.random() < 0.5:
            cfg.register_co_chaperone(S, same_text)
        else:
            cfg.co_chaperones[S] = same_text
        info["configured"]["re_registered"] = "a preprocessor returning its input"
        judged_fold("configured:re-registered-identity", cfg, cconf, cmis, 0, S, "same")
        ctx.count("neighbour_judged_through_identity_preprocessor")
    if rng.random() < 0.6:
        how = rng.choice(["pop", "del", "clear"])
        try:
            if how == "pop":
                cfg.co_chaperones.pop(S)
            elif how == "del":
                del cfg.co_chaperones[S]
            else:
                cfg.co_chaperones.clear()
        except Exception:
            ctx.count("neighbour_removal_unavailable")
            return
        info["configured"]["removed"] = how
        for ti in range(len(texts)):
            judged_fold("configured:after-removal", cfg, cconf, cmis, ti, S, "same")
        ctx.count("neighbour_judged_after_removal")


# ----------------------------------------------------------------------------- (l) lifecycle of one instance
class _Recorder:
    """A module-level callable used as on_misfold (an instance holding it can be copied and pickled). `falsy`: it has a length
    of 0, so it is false in a boolean context although it is a perfectly good callback."""

    def __init__(self, falsy=False):
        self.falsy = falsy
        self.calls = 0
        self.raising = None
        self.seen = []

    def __call__(self, e):
        self.calls += 1
        self.seen.append(e)
        del self.seen[:-4]
        if self.raising is not None:
            raise _boom(self.raising + self.calls, "on_misfold failed")

    def __len__(self):
        return 0 if self.falsy else 1


def _swapcase_pre(text):
    return text.swapcase() + " "


def _same_pre(text):
    return text


def _pickle_roundtrip(obj):
    import pickle
    return pickle.loads(pickle.dumps(obj))


SILENT_VALUES = (True, False, 0, 1, None, "", "yes", 0.0)
LIFE_ACTIONS = ("strategies=", "strategies=", "seal", "widen", "on_misfold=", "on_misfold=", "silent=", "max_retries=", "co_chaperones=",
                "duplicate", "duplicate", "stats", "map", "mock-heal", "nothing")
# the public names of the anchored classes this check's workload calls / assigns / reads somewhere
WORKLOAD_API = {
    "Chaperone": {"fold", "fold_enhanced", "register_co_chaperone", "get_statistics", "reset_statistics", "strategies", "co_chaperones",
                  "on_misfold", "silent", "max_retries", "JSON_EXTRACTION_PATTERNS", "JSON_REPAIRS"},
    "ChaperoneLoop": {"heal", "generator", "chaperone", "schema", "max_retries", "confidence_decay", "silent"},
    "FoldedProtein": {"map", "valid", "structure", "raw_peptide_chain", "error_trace", "folding_attempts"},
    "EnhancedFoldedProtein": {"valid", "structure", "raw_peptide_chain", "error_trace", "attempts", "confidence", "coercions_applied", "strategy_used"},
    "HealingResult": {"outcome", "folded", "attempts", "final_confidence", "ubiquitin_tagged", "valid", "structure"},
}


def lifecycle_monitor(ctx, case, rng):
    """(l) One Chaperone whose PUBLIC settings are assigned after construction (strategies as a new list / tuple, sealed to
    STRICT, widened; on_misfold assigned, replaced by a falsy callable, by one that raises, withdrawn; silent / max_retries set to
    values of other types; co_chaperones replaced by a new dict), that is duplicated (copy / deepcopy / pickle) and used through
    the duplicate, whose methods are called positionally and by keyword with a list or a tuple, whose results are mapped and
    deep-copied, and that is handed to a healing loop driven by the library's own mock generator. After every change a fold pair
    goes through monitors (a)-(d): the obligations follow the CURRENT settings."""
    import copy
    from fractions import Fraction
    from operon_ai.organelles.chaperone import Chaperone, FoldingStrategy as FS
    from operon_ai.healing.chaperone_loop import ChaperoneLoop, HealingOutcome, create_mock_healing_generator
    from operon_ai.core.types import FoldedProtein
    ctx.count("lifecycle_sessions")
    shape = case["shape"]
    sib = G.sibling_shape(rng, shape)
    schemas = [("same", shape, G.build_model(shape)), ("twin", shape, G.build_model(shape, twin=True)),
               ("hostile-name", shape, G.build_model(shape, twin="hostile-name")), ("sibling", sib, G.build_model(sib))]
    texts = [case["raw"]] + [t for t in case.get("related", []) if t != case["raw"]][:2]
    rec = _Recorder(falsy=rng.random() < 0.2)
    start = rng.choice(["default", "default", "list", "tuple", "sealed", "no-callback"])
    kw = {"silent": rng.choice(SILENT_VALUES)}
    if start != "no-callback":
        kw["on_misfold"] = rec
    if start in ("list", "tuple"):
        o = rng.choice(orders())
        kw["strategies"] = tuple(o) if start == "tuple" else list(o)
        configured = list(o)
    elif start == "sealed":
        kw["strategies"] = [FS.STRICT]
        configured = [FS.STRICT]
    else:
        configured = default_order()
    ch = _lib(lambda: Chaperone(**kw))
    rewritten = set()          # schema classes for which a text-changing preprocessor is registered right now: folds run, not judged
    history = [{"constructed": start}]
    last = {}
    _SINK.strict = bool(case.get("strict_sink"))

    for step in range(rng.randint(4, 8)):
        act = rng.choice(LIFE_ACTIONS)
        note = act
        if act == "strategies=":
            o = rng.choice(orders())
            ch.strategies = tuple(o) if rng.random() < 0.3 else list(o)
            configured = list(o)
            ctx.count("lifecycle_strategies_assigned")
        elif act == "seal":
            ch.strategies = [FS.STRICT]
            configured = [FS.STRICT]
            ctx.count("lifecycle_sealed_to_strict")
        elif act == "widen":
            ch.strategies = list(FS)
            configured = list(FS)
            ctx.count("lifecycle_strategies_assigned")
        elif act == "on_misfold=":
            how = rng.choice(["new", "falsy", "raising", "withdrawn", "lambda"])
            note = act + how
            if how == "withdrawn":
                ch.on_misfold = None
            elif how == "lambda":
                ch.on_misfold = lambda e: None
            else:
                rec = _Recorder(falsy=how == "falsy")
                if how == "raising":
                    rec.raising = step + len(texts[0])
                ch.on_misfold = rec
            ctx.count("lifecycle_on_misfold_assigned:" + how)
        elif act == "silent=":
            ch.silent = rng.choice(SILENT_VALUES)
            ctx.count("lifecycle_silent_assigned")
        elif act == "max_retries=":
            ch.max_retries = rng.choice(MAX_RETRIES_ARGS + (Fraction(1, 2), "3"))
            ctx.count("lifecycle_max_retries_assigned")
        elif act == "co_chaperones=":
            how = rng.choice(["empty", "other-class-rewrites", "same-class-identity"])
            note = act + how
            if how == "empty":
                ch.co_chaperones = {}
                rewritten = set()
            elif how == "other-class-rewrites":
                ch.co_chaperones = {schemas[1][2]: _swapcase_pre}
                rewritten = {schemas[1][2]}
            else:
                ch.co_chaperones = {schemas[0][2]: _same_pre}
                rewritten = set()
            ctx.count("lifecycle_co_chaperones_assigned")
        elif act == "duplicate":
            how = rng.choice(["copy", "deepcopy", "pickle"])
            note = act + ":" + how
            try:
                dup = _lib(lambda: {"copy": copy.copy, "deepcopy": copy.deepcopy, "pickle": _pickle_roundtrip}[how](ch))
            except Exception:
                ctx.count("lifecycle_duplicate_unavailable:" + how)        # e.g. a lambda callback / a generated class cannot be pickled
                dup = None
            if dup is not None:
                ctx.count("lifecycle_duplicated:" + how)
                if rng.random() < 0.3:
                    # the ORIGINAL is re-configured after the duplicate was taken; the duplicate keeps what it had
                    ch.strategies = [FS.REPAIR]
                    ch.on_misfold = None
                ch = dup
                if isinstance(getattr(ch, "on_misfold", None), _Recorder):
                    rec = ch.on_misfold
        elif act == "stats":
            try:
                _lib(lambda: (ch.get_statistics(), ch.reset_statistics() if rng.random() < 0.5 else None, ch.get_statistics(), repr(ch)))
            except Exception:
                ctx.count("session_read_raised")
        elif act == "map" and last:
            _map_obligations(ctx, case, last, history)
        elif act == "mock-heal":
            _mock_heal(ctx, case, rng, ch, configured, schemas, texts, rewritten, history)
        history.append({"step": step, "action": note})

        # ---- the judged fold pair under the current settings
        ti = 0 if rng.random() < 0.7 else rng.randrange(len(texts))
        sname, shp, S = schemas[rng.choice([0, 0, 0, 1, 2, 2, 3])]
        raw = texts[ti]
        order = rng.choice(orders()) if rng.random() < 0.35 else None
        as_tuple = bool(order) and rng.random() < 0.4
        conv = rng.choice(["positional", "keyword", "mixed"])
        eff = list(order) if order else list(configured)
        history.append({"fold": ti, "schema": sname, "order": [x.value for x in order] if order else "configured", "per_call_tuple": as_tuple, "call": conv})
        sub = {"kind": "lifecycle", "shape": shp, "raw": raw, "ground": case["ground"], "order": order, "labels": case["labels"],
               "via_ctor": False, "strict_sink": case.get("strict_sink"), "lifecycle": {"texts": texts, "history": list(history)}}
        raising = isinstance(ch.on_misfold, _Recorder) and ch.on_misfold.raising is not None
        res = {}
        for api in (("fold", "fold_enhanced") if rng.random() < 0.5 else ("fold_enhanced", "fold")):
            fn = getattr(ch, api)
            arg = (tuple(order) if as_tuple else list(order)) if order else None
            if conv == "positional":
                call = (lambda fn=fn, arg=arg: fn(raw, S, arg)) if order else (lambda fn=fn: fn(raw, S))
            elif conv == "keyword":
                call = (lambda fn=fn, arg=arg: fn(raw_peptide_chain=raw, target_schema=S, strategies=arg))
            else:
                call = (lambda fn=fn, arg=arg: fn(raw, target_schema=S, strategies=arg)) if order else (lambda fn=fn: fn(raw, target_schema=S))
            res[api], exc = _call(ctx, sub, api, call, hook_may_raise=raising)
            ctx.count("lifecycle_calls:" + conv)
            if exc is not None and not _is_boom(exc):
                return
        if raising:
            ch.on_misfold.raising = None         # the hook recovers; later calls on the instance are judged as usual
            ctx.count("lifecycle_callback_raised_steps")
        if S in rewritten:
            ctx.count("lifecycle_folds_through_rewriting_preprocessor")
            continue
        pl, enh = res.get("fold"), res.get("fold_enhanced")
        if pl is None or enh is None:
            for api, r in (("fold", pl), ("fold_enhanced", enh)):
                if r is not None and r.valid:       # the callback only runs for a text nothing accepted
                    ctx.violation("fold-vs-enhanced:validity", "%s reports valid although the other API reported the same text to on_misfold" % api, _desc(sub))
            continue
        if rng.random() < 0.3:
            pl, enh = copy.deepcopy(pl), copy.deepcopy(enh)          # what is judged is a deep copy of what was returned
            ctx.count("lifecycle_results_deepcopied")
        mis = list(rec.seen) if isinstance(ch.on_misfold, _Recorder) else []
        strict_valid, E = raw_facts(ctx, raw, S)
        assess(ctx, sub, S, enh, pl, eff, [m for m in mis if getattr(m, "raw_peptide_chain", None) == raw], strict_valid, E)
        ctx.count("lifecycle_judged_folds")
        if configured == [FS.STRICT] and not order:
            ctx.count("lifecycle_judged_while_sealed")
        last = {"pl": pl, "enh": enh, "S": S, "sub": sub}
        if rng.random() < 0.3:
            _scribble(res["fold"])
            _scribble(res["fold_enhanced"])
            last = {}


def _map_obligations(ctx, case, last, history):
    """FoldedProtein.map: an invalid result maps to itself; a valid one maps through the function (identity here) and stays what it
    was; a function that raises gives an invalid result without a structure and with an error trace."""
    from operon_ai.core.types import FoldedProtein
    pl, S, sub = last["pl"], last["S"], last["sub"]
    ctx.count("map_calls")
    try:
        same = pl.map(lambda x: x)
        def boom(x):
            raise _boom(len(history), "mapping function failed")
        failed = pl.map(boom)
    except Exception as e:
        ctx.violation("map-raises:" + type(e).__name__, "FoldedProtein.map raised %s" % (str(e)[:200],), _desc(sub))
        return
    if not pl.valid:
        if same is not pl and (same.valid or same.structure is not None or not same.error_trace):
            ctx.violation("map-revives-invalid-fold", "map() of an invalid result gives %r" % (same,), _desc(sub))
        return
    ctx.count("map_of_valid_result")
    if not isinstance(same, FoldedProtein) or same.valid is not True or not isinstance(same.structure, S) or not O.same(O.dump(same.structure), O.dump(pl.structure)):
        ctx.violation("map-identity-changes-result", "map(identity) of %r gives %r" % (pl, same), _desc(sub))
    if not isinstance(failed, FoldedProtein) or failed.valid or failed.structure is not None or not failed.error_trace:
        ctx.violation("map-failure-shape", "map(raising function) gives %r" % (failed,), _desc(sub))


def _mock_heal(ctx, case, rng, ch, configured, schemas, texts, rewritten, history):
    """The long-lived instance handed to a healing loop that is driven by the library's own mock generator: junk first, the case's
    text once the error context arrives. Settings of other types than usual (bool retries, Fraction / int / bool decay, falsy
    non-bool `silent`); for a second run the loop's public fields (schema, chaperone, generator, silent, decay) are re-assigned.
    heal() is valid iff a fresh validator configured like the loop's CURRENT one accepts the text; same structure; confidence in
    [0,1]. With an on_misfold that raises (validator and callback failing in the same call) heal() may let that out: not judged."""
    from fractions import Fraction
    from operon_ai.organelles.chaperone import Chaperone, FoldingStrategy as FS
    from operon_ai.healing.chaperone_loop import ChaperoneLoop, HealingOutcome, create_mock_healing_generator
    sname, shp, S = schemas[rng.choice([0, 0, 2])]
    raw = texts[0]
    junk = rng.choice(JUNK_OUTPUTS)
    retries = rng.choice([1, 2, 3, True, 5])
    decay = rng.choice([0.1, Fraction(1, 10), Fraction(1, 3), 0, 1, True, Fraction(3, 2), 0.5])
    silent = rng.choice(SILENT_VALUES)
    needle = rng.choice(["invalid", "Error", "schema", "Previous output"])
    if S in rewritten:
        return
    raising = isinstance(ch.on_misfold, _Recorder) and ch.on_misfold.raising is not None
    try:
        loop = _lib(lambda: ChaperoneLoop(generator=create_mock_healing_generator(junk, raw, needle), chaperone=ch, schema=S,
                                          max_retries=retries, confidence_decay=decay, silent=silent))
    except Exception as e:
        ctx.violation("heal-raises:" + type(e).__name__, "ChaperoneLoop(...) raised %s" % (str(e)[:200],), _desc(case))
        return
    cur = {"chaperone": ch, "configured": list(configured), "schema": S, "text": raw, "junk": junk}
    for run in range(2):
        if run:
            if rng.random() < 0.5:
                return
            # the owner re-assigns public fields of its loop between two runs
            what = rng.choice(["schema", "chaperone", "generator", "silent+decay"])
            ctx.count("mock_heal_loop_field_reassigned:" + what)
            if what == "schema":
                cur["schema"] = loop.schema = schemas[1][2] if schemas[1][2] not in rewritten else S
            elif what == "chaperone":
                o = rng.choice(orders())
                cur["chaperone"] = loop.chaperone = _lib(lambda: Chaperone(strategies=list(o), silent=rng.choice(SILENT_VALUES)))
                cur["configured"] = list(o)
                raising = False
            elif what == "generator":
                cur["text"], cur["junk"] = texts[-1], rng.choice(JUNK_OUTPUTS)
                loop.generator = create_mock_healing_generator(cur["junk"], cur["text"], needle)
            else:
                loop.silent, loop.confidence_decay = rng.choice(SILENT_VALUES), rng.choice([0.25, Fraction(1, 4), 0, 2])
        fresh = lambda: _lib(lambda: Chaperone(strategies=list(cur["configured"]), silent=True))  # noqa: E731
        jref, _ = _call(ctx, dict(case, raw=cur["junk"]), "fold_enhanced", lambda: fresh().fold_enhanced(cur["junk"], cur["schema"]))
        ref, _ = _call(ctx, dict(case, raw=cur["text"]), "fold_enhanced", lambda: fresh().fold_enhanced(cur["text"], cur["schema"]))
        if jref is None or ref is None:
            return                              # a fold raised by itself (reported by _call)
        if jref.valid:
            ctx.count("heal_junk_accepted")
            return
        d = _desc(case, raw=cur["text"], order=[x.value for x in cur["configured"]], junk_text=cur["junk"], max_retries=loop.max_retries,
                  decay=repr(loop.confidence_decay), loop_silent=loop.silent, mock_generator_needle=needle, run=run, lifecycle=list(history))
        ctx.count("mock_heal_runs")
        try:
            r = _lib(lambda: loop.heal("p"))
        except Exception as e:
            if raising and _is_boom(e):
                ctx.count("hook_exception_propagated")
                ctx.count("mock_heal_callback_raised")
                return
            ctx.violation("heal-raises:" + type(e).__name__, "heal() raised %s" % (str(e)[:200],), d)
            return
        if bool(r.valid) != bool(ref.valid):
            ctx.violation("heal-vs-fold:validity", "heal() reports %s but fold_enhanced on the healed text is %s" % (r.outcome, "valid" if ref.valid else "invalid"), d)
            return
        if not r.valid:
            ctx.count("heal_degraded")
            if r.structure is not None or r.folded is not None:
                ctx.violation("heal-invalid-with-structure", "outcome %s with structure %r" % (r.outcome, r.structure), d)
            continue
        ctx.count("mock_heal_valid")
        if r.outcome != HealingOutcome.HEALED or not isinstance(r.structure, cur["schema"]) or not O.same(O.dump(r.structure), O.dump(ref.structure)):
            ctx.violation("heal-vs-fold:structure", "heal() gives %s %r, fold_enhanced %r" % (r.outcome, r.structure, ref.structure), d)
        for name, c in (("final_confidence", r.final_confidence), ("folded.confidence", r.folded.confidence)):
            ctx.count("heal_confidences_checked")
            if not isinstance(c, (int, float)) or isinstance(c, bool) or not (0.0 <= c <= 1.0):
                ctx.violation("heal-confidence-out-of-range", "%s = %r for a valid healed fold" % (name, c), d)
            elif c == 1.0 and r.folded.strategy_used != FS.STRICT:
                ctx.violation("heal-confidence-1.0-non-strict", "%s = 1.0 for a %s fold" % (name, r.folded.strategy_used), d)


# ----------------------------------------------------------------------------- (m) churn: short-lived texts and schema classes
def churn(ctx, n, rounds):
    """(m) Address reuse: every round creates a fresh text of the same length as the previous ones and a fresh (uncached) schema
    class whose field types alternate, folds the text on two long-lived instances, judges the pair through monitors (a)-(d) and by
    what the text spells, drops text, class, results and the per-call list, and forces a collection. Anything the library keyed by
    the identity of a dead object now points at a live, different one."""
    import gc
    from pydantic import create_model
    from operon_ai.organelles.chaperone import Chaperone, FoldingStrategy as FS
    rng = ctx.rng("churn", n)
    ctx.count("churn_cases")
    insts = [(_lib(lambda: Chaperone(silent=True)), default_order()),
             (_lib(lambda: Chaperone(strategies=[FS.LENIENT, FS.STRICT, FS.REPAIR, FS.EXTRACTION], silent=True)), [FS.LENIENT, FS.STRICT, FS.REPAIR, FS.EXTRACTION])]
    shapes = {"list": (("name", "str", 0), ("tags", "list_str", 0), ("age", "int", 0)),
              "str": (("name", "str", 0), ("tags", "str", 0), ("age", "str", 0))}
    ann = {"list_str": list[str], "str": str, "int": int}
    for i in range(rounds):
        k = rng.randrange(10 ** 6)
        which = "list" if (i + i // 5) % 2 else "str"
        shape = shapes[which]
        S = create_model("Rec", **{f[0]: (ann[f[1]], ...) for f in shape})          # short-lived: never cached by the check
        style = i % 3
        obj = {"name": "u%06d" % k, "tags": "a%06d, b" % k, "age": "%06d" % k}
        if style == 0:
            raw = '{"name": "u%06d", "tags": "a%06d, b", "age": "%06d"}' % (k, k, k)
        elif style == 1:
            raw = "{'name': 'u%06d', 'tags': 'a%06d, b', 'age': '%06d'}" % (k, k, k)
        else:
            raw = 'x {"name": "u%06d", "tags": "a%06d, b", "age": "%06d"}' % (k, k, k)
        ch, conf = insts[i % 2]
        order = [rng.choice(list(FS)) for _ in range(rng.randint(1, 3))] if rng.random() < 0.3 else None
        eff = list(order) if order else list(conf)
        case = {"kind": "churn", "shape": shape, "raw": raw, "ground": [obj], "order": order, "labels": ("churn:%s:%d" % (which, style),), "via_ctor": False}
        enh, _ = _call(ctx, case, "fold_enhanced", (lambda: ch.fold_enhanced(raw, S, order)) if order else (lambda: ch.fold_enhanced(raw, S)))
        pl, _ = _call(ctx, case, "fold", (lambda: ch.fold(raw, S, order)) if order else (lambda: ch.fold(raw, S)))
        if enh is None or pl is None:
            return
        ctx.count("churn_rounds")
        strict_valid, E = raw_facts(ctx, raw, S)
        assess(ctx, case, S, enh, pl, eff, [], strict_valid, E)
        if enh.valid:
            ctx.count("churn_valid:" + which)
            want = {"name": "u%06d" % k, "tags": ["a%06d" % k, "b"] if which == "list" else "a%06d, b" % k, "age": k if which == "list" else "%06d" % k}
            for api, r in (("fold", pl), ("fold_enhanced", enh)):
                if r.valid and (not isinstance(r.structure, S) or not O.same(r.structure.model_dump(), want)):
                    ctx.violation("churn:structure:" + api, "valid structure %r is not what the text spells (%r)" % (r.structure, want), _desc(case))
        del S, enh, pl, raw, order, case, E
        if i % 3 == 0:
            gc.collect()
            ctx.count("churn_collections")


# ----------------------------------------------------------------------------- (n) parent side: interpreter mode, API inventory
def extra_parent(pctx):
    """One child interpreter started with -O runs the probe folds (rv/c11_probe.py); its records must equal the ones this
    interpreter produces and keep the refusal obligations. Plus an inventory of the anchored classes' public names against the
    names the workload uses (informational)."""
    import os
    import subprocess
    from rv import c11_probe
    pctx.case = "optimized-mode-probe"
    here = c11_probe.records()
    try:
        p = subprocess.run([sys.executable, "-O", "-B", os.path.abspath(c11_probe.__file__)], capture_output=True, text=True, timeout=420)
        doc = json.loads([l for l in p.stdout.splitlines() if l.startswith("{")][-1])
    except Exception as e:
        pctx.inconclusive("the -O child interpreter gave no result (%s)" % type(e).__name__)
        doc = None
    if doc is not None:
        if doc.get("optimize", 0) < 1 or len(doc["records"]) != len(here):
            pctx.inconclusive("the -O child interpreter did not run optimized / ran another probe")
        else:
            for a, b in zip(here, doc["records"]):
                pctx.count("optimized_probe_records")
                w = {"raw": a["raw"], "schema": a["schema"], "order": a["order"], "normal": a, "optimized": b}
                for api in ("fold_enhanced", "fold"):
                    r = b[api]
                    if "raised" in r:
                        pctx.violation("fold-raises:%s:%s" % (api, r["raised"]), "%s raised %s under python -O" % (api, r["raised"]), w)
                    elif r["valid"] and not (r.get("instance") and r.get("revalidates")):
                        pctx.violation("valid-not-instance:" + api, "python -O: valid fold whose structure is not a re-validating instance of the schema", w)
                    elif not r["valid"] and (r["has_structure"] or not r["has_trace"]):
                        pctx.violation("invalid-with-structure:" + api if r["has_structure"] else "invalid-without-error-trace:" + api,
                                       "python -O: invalid fold with structure / without error trace", w)
                    elif r != a[api]:
                        pctx.violation("optimized-mode-differs:" + api, "python -O reports %r, the normal interpreter %r" % (r, a[api]), w)
                pctx.nontrivial(("optimized", a["raw"][:40], a["order"]))
    # ---- inventory (informational)
    from operon_ai.organelles.chaperone import Chaperone, EnhancedFoldedProtein
    from operon_ai.healing.chaperone_loop import ChaperoneLoop, HealingResult
    from operon_ai.core.types import FoldedProtein
    import dataclasses
    for cls in (Chaperone, ChaperoneLoop, FoldedProtein, EnhancedFoldedProtein, HealingResult):
        names = {x for x in dir(cls) if not x.startswith("_")}
        if dataclasses.is_dataclass(cls):
            names |= {f.name for f in dataclasses.fields(cls)}
        for x in sorted(names):
            pctx.count("reach:public_api:%s.%s:%s" % (cls.__name__, x, "in_workload" if x in WORKLOAD_API.get(cls.__name__, ()) else "NOT_in_workload"))
    pctx.case = None


JUNK_OUTPUTS = ["not json at all", "", "{", '{"unrelated": 1', "[1, 2", "sorry \u2014 I can\u2019t", "{'k': }",
                "cut \ud83d", "\x00", "x" * 500 + "{"]
PROMPTS = ["p", "p", "", "Return the record as JSON. " * 40, "emoji cut \ud83d", "\x00"]


LONG_KINDS = ("clean", "fenced", "trailing-comma", "numeric-string", "junk", "item", "python-repr", "prose")


def _long_text(k):
    """The k-th distinct text of a long history -> (kind, shape, raw, the object it spells or None)."""
    kind = LONG_KINDS[k % len(LONG_KINDS)]
    obj = {"name": "u%d" % k, "age": k}
    if kind == "clean":
        return kind, PERSON, '{"name": "u%d", "age": %d}' % (k, k), obj
    if kind == "fenced":
        return kind, PERSON, '```json\n{"name": "u%d", "age": %d}\n```' % (k, k), obj
    if kind == "trailing-comma":
        return kind, PERSON, '{"name": "u%d", "age": %d,}' % (k, k), obj
    if kind == "numeric-string":
        return kind, PERSON, '{"name": "u%d", "age": "%d"}' % (k, k), {"name": "u%d" % k, "age": str(k)}
    if kind == "junk":
        return kind, PERSON, "no json in answer %d" % k, None
    if kind == "item":
        obj = {"name": "w%d" % k, "price": k + 0.5, "tags": ["t%d" % k]}
        return kind, ITEM, json.dumps(obj), obj
    if kind == "python-repr":
        return kind, PERSON, "{'name': 'u%d', 'age': %d}" % (k, k), obj
    return kind, PERSON, 'Answer %d: {"name": "u%d", "age": %d} (done)' % (k, k, k), obj


def long_history(ctx, n, n_ops):
    """(h) A long history: two long-lived instances configured differently (default / reversed order, the second verbose) fold
    `n_ops` texts alternately, most of them new (so > 20 000 distinct texts pass through), some of them texts seen 1, 1 000 or
    ~20 000 operations ago; statistics are read and reset on the way. Every operation is judged by what the statement says about
    its text (agreement of the two APIs; a valid structure holds exactly what the text spells; junk is never valid; clean JSON is
    accepted — by STRICT with confidence 1.0 when STRICT is first; confidence rules; shape of an invalid result); every 40th
    operation and a closing round of hostile witnesses additionally go through the full monitors (a)-(d)."""
    from operon_ai.organelles.chaperone import Chaperone, FoldingStrategy as FS, EnhancedFoldedProtein
    from operon_ai.core.types import FoldedProtein
    rng = ctx.rng("long", n)
    ctx.count("long_histories")
    mis = []

    def cb(e):
        mis.append(e)
        if len(mis) > 8:
            del mis[:4]
    rev = [FS.REPAIR, FS.LENIENT, FS.EXTRACTION, FS.STRICT]
    insts = [("default", _lib(lambda: Chaperone(on_misfold=cb, silent=True)), default_order()),
             ("reversed-verbose", _lib(lambda: Chaperone(strategies=list(rev), on_misfold=cb)), list(rev))]
    models = {PERSON: G.build_model(PERSON), ITEM: G.build_model(ITEM)}
    fresh = 0
    for i in range(n_ops):
        if fresh and rng.random() < 0.15:
            k = max(0, fresh - rng.choice([1, 2, 1000, 19000, 20000, fresh]))      # a text this instance pair saw long ago
            ctx.count("long_history_refolds_of_old_text")
            if fresh - k >= 19000:
                ctx.count("long_history_refolds_after_19000_newer_texts")
        else:
            k = fresh
            fresh += 1
        kind, shape, raw, obj = _long_text(k)
        S = models[shape]
        who, ch, eff = insts[(i + (i // 7)) % 2]
        order = None
        if rng.random() < 0.1:
            order = rng.choice(orders())
            eff = list(order)
        case = {"kind": "long", "shape": shape, "raw": raw, "ground": [obj] if obj is not None else [], "order": order,
                "labels": ("long:" + kind,), "via_ctor": False, "long": {"instance": who, "operation": i, "distinct_texts_so_far": fresh}}
        del mis[:]
        res = {}
        for api in (("fold", "fold_enhanced") if i % 3 else ("fold_enhanced", "fold")):
            fn = ch.fold if api == "fold" else ch.fold_enhanced
            res[api], _ = _call(ctx, case, api, (lambda: fn(raw, S, list(order))) if order else (lambda: fn(raw, S)))
        pl, enh = res["fold"], res["fold_enhanced"]
        if pl is None or enh is None:
            return
        ctx.count("long_history_ops")
        if i % 40 == 0:
            strict_valid, E = raw_facts(ctx, raw, S)
            assess(ctx, case, S, enh, pl, eff, list(mis), strict_valid, E)
            ctx.count("long_history_ops_fully_assessed")
        # ---- the statement, applied to a text whose meaning is known
        if bool(pl.valid) != bool(enh.valid):
            ctx.violation("fold-vs-enhanced:validity", "fold valid=%r but fold_enhanced valid=%r" % (pl.valid, enh.valid), _desc(case))
            continue
        if enh.valid:
            ctx.count("long_history_valid:" + kind)
            if obj is None:
                ctx.violation("long-history:junk-accepted", "a text without JSON folded to %r" % (enh.structure,), _desc(case))
                continue
            want = S.model_validate(obj).model_dump()
            for api, r in (("fold", pl), ("fold_enhanced", enh)):
                if not isinstance(r.structure, S) or not O.same(r.structure.model_dump(), want):
                    ctx.violation("long-history:structure:" + api, "valid structure %r is not what the text spells (%r)" % (r.structure, want), _desc(case))
            c, used = enh.confidence, enh.strategy_used
            if not isinstance(c, float) or not (0.0 <= c <= 1.0) or (c == 1.0) != (used == FS.STRICT) or used not in eff:
                ctx.violation("long-history:confidence", "confidence %r / strategy %r under the list %s" % (c, used, [x.value for x in eff]), _desc(case))
        else:
            ctx.count("long_history_invalid:" + kind)
            for api, r, cls in (("fold", pl, FoldedProtein), ("fold_enhanced", enh, EnhancedFoldedProtein)):
                if not isinstance(r, cls) or r.structure is not None or not r.error_trace or not isinstance(r.error_trace, str):
                    ctx.violation("long-history:invalid-shape:" + api, "invalid result with structure=%r error_trace=%r" % (
                        r.structure, r.error_trace), _desc(case))
        if kind in ("clean", "item", "numeric-string") and FS.STRICT in eff:
            ctx.count("long_history_strict_valid_ops")
            if not enh.valid:
                ctx.violation("strict-valid-rejected:fold_enhanced", "schema-valid JSON reported invalid with STRICT configured", _desc(case))
            elif eff[0] == FS.STRICT and (enh.strategy_used != FS.STRICT or enh.confidence != 1.0):
                ctx.violation("strict-valid-not-by-strict", "schema-valid JSON folded by %s with confidence %r although STRICT is first" % (
                    enh.strategy_used, enh.confidence), _desc(case))
        # ---- reporting / maintenance on the way
        if i % 500 == 499:
            ctx.count("long_history_statistics_reads")
            try:
                _lib(lambda: (ch.get_statistics(), repr(ch)))
            except Exception:
                ctx.count("session_read_raised")
        if i % 5000 == 4999:
            ctx.count("long_history_statistics_resets")
            try:
                _lib(ch.reset_statistics)
            except Exception:
                ctx.count("session_read_raised")
        if i % 3 == 0:
            _scribble(pl)
            _scribble(enh)
    ctx.count("long_history_distinct_texts", fresh)
    # ---- the judged calls after the history: hostile witnesses through the full monitors, on both instances
    for j, (shape, raw, ground) in enumerate(FIXED):
        if len(raw) > 2000:
            continue
        S = G.build_model(shape)
        who, ch, eff = insts[j % 2]
        case = {"kind": "long", "shape": shape, "raw": raw, "ground": [ground] if ground is not None else [], "order": None,
                "labels": ("fixed%d" % j, "after-long-history"), "via_ctor": False, "long": {"instance": who, "after_operations": n_ops}}
        del mis[:]
        enh, _ = _call(ctx, case, "fold_enhanced", lambda: ch.fold_enhanced(raw, S))
        pl, _ = _call(ctx, case, "fold", lambda: ch.fold(raw, S))
        if enh is None or pl is None:
            continue
        strict_valid, E = raw_facts(ctx, raw, S)
        assess(ctx, case, S, enh, pl, eff, list(mis), strict_valid, E)
        ctx.count("long_history_closing_witnesses")


HEAL_RETRIES = [0, 1, 2, 3, 3, 3, 5, 8, 12, 15, 40]
HEAL_DECAYS = [0.0, 0.05, 0.1, 0.1, 0.1, 0.25, 0.3, 0.5, 0.75, 1.0, 1.5, 2.5, 1e-9, 1e-300, 0.1 + 0.2, 1 / 3, 0.1 * 3, 1e9]


def _heal_rig(ctx, case, rng, raw, S, order, chaperone=None):
    """One ChaperoneLoop (own generator stub; own Chaperone unless one is handed in) over `raw`/`S`."""
    from operon_ai.organelles.chaperone import Chaperone
    from operon_ai.healing.chaperone_loop import ChaperoneLoop
    rig = {"raw": raw, "S": S, "calls": [], "outs": [raw], "boom_at": None,
           "max_retries": rng.choice(HEAL_RETRIES), "decay": rng.choice(HEAL_DECAYS),
           "silent": rng.random() < 0.55, "shared_chaperone": chaperone is not None}

    def gen(prompt, error_context=None):
        i = len(rig["calls"])
        rig["calls"].append(error_context)
        if rig["boom_at"] is not None and i == rig["boom_at"]:
            ctx.count("heal_generator_raised")
            raise _boom(i + len(rig["raw"]), "generator failed")
        outs = rig["outs"]
        return outs[i] if i < len(outs) else outs[-1]

    if chaperone is None:
        ch_silent = rng.random() < 0.6
        kw = {"silent": ch_silent}
        if order:           # the loop cannot pass a per-call order; configure it on the instance
            kw["strategies"] = list(order)
        if case.get("max_retries", _UNSET) is not _UNSET:
            kw["max_retries"] = case["max_retries"]
        chaperone = _lib(lambda: Chaperone(**kw))
        if not ch_silent:
            ctx.count("verbose_instances")
    rig["chaperone"] = chaperone
    rig["eff"] = list(order) if order else default_order()
    kw = {"silent": rig["silent"]}
    if not (rig["max_retries"] == 3 and rng.random() < 0.5):
        kw["max_retries"] = rig["max_retries"]
    if not (rig["decay"] == 0.1 and rng.random() < 0.5):
        kw["confidence_decay"] = rig["decay"]
    if not rig["silent"] and rng.random() < 0.3:
        del kw["silent"]                       # verbose is the default
    rig["loop"] = _lib(lambda: ChaperoneLoop(generator=gen, chaperone=chaperone, schema=S, **kw))
    if not rig["silent"]:
        ctx.count("heal_verbose_loops")
    return rig


def heal_monitor(ctx, case, rng, S, eff):
    """(f) ChaperoneLoop.heal over the case's text: the generator fails `junk` times and then emits the raw text.
    Configurations cover the default and unusual ones (no retries, many retries, zero / tiny / steep / >1 / huge decay, verbose
    loops); the text is reached on any attempt number or never. A third of the runs use TWO loops configured differently
    (own or shared Chaperone, same or twin schema, another text) alternately; some generators raise on one attempt and the
    same loop is run again afterwards."""
    raw = case["raw"]
    a = _heal_rig(ctx, case, rng, raw, S, case["order"])
    runs = [a]
    if rng.random() < 0.3:
        ctx.count("heal_two_loops")
        rel = [t for t in case.get("related", []) if len(t) < 3000] or [raw]
        share = rng.random() < 0.4
        S2 = rng.choice([S, G.build_model(case["shape"], twin=True)])
        b = _heal_rig(ctx, case, rng, rng.choice(rel + [raw]), S2, case["order"] if share else rng.choice([None, rng.choice(orders())]),
                      chaperone=a["chaperone"] if share else None)
        runs = rng.choice([[b, a, b], [a, b, a], [b, a]])
    for rig in runs:
        _heal_once(ctx, case, rng, rig)


def _heal_once(ctx, case, rng, rig):
    from operon_ai.organelles.chaperone import Chaperone, FoldingStrategy as FS
    from operon_ai.healing.chaperone_loop import HealingOutcome
    ctx.count("heal_runs")
    raw, S, loop = rig["raw"], rig["S"], rig["loop"]
    if rig.get("used") and rng.random() < 0.3:
        # the owner re-configures its loop between two runs (public dataclass fields)
        loop.max_retries, loop.confidence_decay = rng.choice(HEAL_RETRIES), rng.choice(HEAL_DECAYS)
        rig["max_retries"], rig["decay"] = loop.max_retries, loop.confidence_decay
        ctx.count("heal_loop_reconfigured_between_runs")
    rig["used"] = True
    max_retries, decay = rig["max_retries"], rig["decay"]
    r0 = rng.random()
    junk = 0 if r0 < 0.2 else (max_retries if r0 < 0.45 else rng.randint(0, max_retries + 1))
    junk_text = rng.choice(JUNK_OUTPUTS)
    rig["outs"] = [junk_text] * junk + [raw]
    prompt = rng.choice(PROMPTS)
    fresh = lambda: _lib(lambda: Chaperone(strategies=list(rig["eff"]), silent=True))  # noqa: E731
    ref, _ = _call(ctx, case, "fold_enhanced", lambda: fresh().fold_enhanced(raw, S))         # what a fresh, equally configured validator says about the text
    jref = _call(ctx, dict(case, raw=junk_text), "fold_enhanced", lambda: fresh().fold_enhanced(junk_text, S))[0] if junk else False
    if ref is None or jref is None:
        return                                  # a fold raised by itself (reported by _call)
    junk_ok = jref.valid if junk else False     # a repairable junk text would end the loop early
    d = _desc(case, raw=raw, order=[x.value for x in rig["eff"]], junk=junk, junk_text=junk_text, max_retries=max_retries, decay=decay,
              loop_silent=rig["silent"], shared_chaperone=rig["shared_chaperone"])
    if rng.random() < 0.08:
        # the generator itself fails on one attempt: heal() may let that out; the loop and its validator must work afterwards
        rig["boom_at"] = rng.randint(0, min(junk, max_retries))
        del rig["calls"][:]
        try:
            _lib(lambda: loop.heal(prompt))
            ctx.count("heal_generator_exception_absorbed")
        except Exception as e:
            if not _is_boom(e):
                ctx.violation("heal-raises:" + type(e).__name__, "heal() raised %s" % (e,), d)
                return
            ctx.count("hook_exception_propagated")
        rig["boom_at"] = None
        ctx.count("heal_runs_after_generator_exception")
    del rig["calls"][:]
    calls = rig["calls"]
    try:
        r = _lib(lambda: loop.heal(prompt))
    except Exception as e:
        ctx.violation("heal-raises:" + type(e).__name__, "heal() raised %s" % (e,), d)
        return
    d["outcome"] = str(r.outcome)
    if junk_ok:
        ctx.count("heal_junk_accepted")
        return
    ctx.count("heal_attempts", len(calls))
    reached = len(calls) > junk          # the case's raw text was folded by the loop
    valid = r.outcome in (HealingOutcome.VALID_FIRST_TRY, HealingOutcome.HEALED)
    if valid:
        ctx.count("heal_valid")
        if junk:
            ctx.count("heal_valid_after_retries")
        if junk * decay >= 1.0:
            ctx.count("heal_valid_decay_saturated")     # the retry discount alone exhausts the confidence
        X = r.structure
        f = r.folded
        if f is None or not f.valid or X is None or not isinstance(X, S):
            ctx.violation("heal-valid-without-structure", "outcome %s with folded=%r structure=%r" % (r.outcome, f, X), d)
            return
        if not (reached and ref.valid):
            ctx.violation("heal-vs-fold:validity", "heal() reports %s but fold_enhanced on the same text is invalid" % (r.outcome,), d)
        elif not O.same(O.dump(X), O.dump(ref.structure)):
            ctx.violation("heal-vs-fold:structure", "heal() structure %r differs from fold_enhanced %r" % (X, ref.structure), d)
        # the fold's confidence (also as final_confidence) obeys both confidence clauses; a per-attempt record carries the
        # retry discount only (1.0 on the first attempt whatever the strategy), so only the range applies to it
        confs = [("final_confidence", r.final_confidence, True), ("folded.confidence", f.confidence, True)]
        confs += [("attempts[%d].confidence" % a.attempt_number, a.confidence, False) for a in r.attempts]
        for name, c, is_fold in confs:
            ctx.count("heal_confidences_checked")
            if not isinstance(c, (int, float)) or isinstance(c, bool) or not (0.0 <= c <= 1.0):
                ctx.violation("heal-confidence-out-of-range", "%s = %r for a valid healed fold" % (name, c), d)
                break
            elif is_fold and c == 1.0 and f.strategy_used != FS.STRICT:
                ctx.violation("heal-confidence-1.0-non-strict", "%s = 1.0 for a %s fold" % (name, f.strategy_used), d)
                break
    else:
        ctx.count("heal_degraded")
        if r.structure is not None or (r.folded is not None and r.folded.valid):
            ctx.violation("heal-invalid-with-structure", "outcome %s with structure %r" % (r.outcome, r.structure), d)
        if reached and ref.valid:
            ctx.violation("heal-vs-fold:validity", "heal() degraded although fold_enhanced accepts the text", d)
        confs = [r.final_confidence] + [a.confidence for a in r.attempts]
        if not all(isinstance(c, (int, float)) and 0.0 <= c < 1.0 for c in confs):
            ctx.violation("heal-confidence-out-of-range", "degraded result with confidences %r" % (confs,), d)


if __name__ == "__main__":
    core.main(sys.modules[__name__])
