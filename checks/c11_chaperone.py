"""C11 — output validator: 'valid' implies the schema holds; clean JSON is taken verbatim.

Runs the real `Chaperone.fold` / `fold_enhanced` (and `ChaperoneLoop.heal` on top of it) on raw texts
made by serialising random instances of random pydantic schemas and corrupting them, under every
strategy order/subset, while these monitors observe the returned objects:

 (a) direct checks   — isinstance, re-validation of model_dump(), invalid => no structure + error trace,
                       confidence range, 1.0 only for strict, no exception;
 (b) provenance      — the valid structure must be what the schema makes of a JSON value decodable from the
                       raw text by an independent extractor (json raw_decode at every brace offset), of the
                       generator's ground truth (what a correct repair recovers), or of either through the
                       oracle's own coercion table; otherwise the value was fabricated/mangled;
 (c) differential    — fold vs fold_enhanced; heal() vs fold_enhanced on the same raw;
 (d) strict-valid raw — accepted, by STRICT with confidence 1.0 and exactly model_validate(json.loads(raw))
                       whenever STRICT is tried first;
 (e) sessions        — ONE long-lived Chaperone folds the same / related texts several times (plain and enhanced,
                       a different strategy list per call, equal-but-distinct and re-typed schemas, re-entrant folds
                       from the on_misfold callback); every step goes through monitors (a)-(d), so state carried from
                       an earlier call (memo, statistics, adaptive order) that changes a later verdict is seen;
 (f) healing loop    — max_retries 0..15, confidence_decay 0..2.5, success on any attempt (or never): every reported
                       confidence of a valid result stays in [0,1];
 (g) neighbours      — several Chaperone instances live in one process: plain ones are created (and used) first, then an
                       independently CONFIGURED one (a co-chaperone preprocessor that visibly rewrites the text, given to
                       the constructor and/or registered later; its own strategy list, also edited in place; its own
                       on_misfold) is created and used on the same texts, then more plain ones are created. The plain
                       instances — older and newer than the configured one, default-constructed or with explicit
                       None/{} arguments or their own strategy list — and the configured instance on a schema nothing was
                       registered for (a distinct class of the same name) fold the texts through monitors (a)-(d): whatever
                       one instance was given (class-level / module-level / shared-default state) must not reach another.
"""
import json
import sys

from rv import core
from rv import c11_gen as G
from rv import c11_oracle as O

PID = "C11"
LEVEL = "exploration"
TECHNIQUE = ("runtime monitoring: real fold()/fold_enhanced()/heal() on generated schemas x corrupted serialisations x "
             "strategy orders; provenance oracle (independent raw_decode extractor + generator ground truth + own coercion "
             "table), direct re-validation, plain-vs-enhanced differential, statistics/on_misfold counters as observation points; "
             "long-lived-instance sessions (repeated texts, per-call strategy lists, twin/sibling schemas, re-entrant callback folds) "
             "and healing loops over unusual retry/decay configurations go through the same monitors; neighbour sessions: plain "
             "instances created before/after an independently configured one (rewriting co-chaperone, own strategies/on_misfold) "
             "are judged by the same monitors, with call counters inside the foreign preprocessor/callback")
RULE = ("cases = fixed witness raws x all 64 strategy orders, then seeded random (schema, instance, semantic swap, writer style, "
        "wrapper, order), a share of them continued as a healing-loop run, as a multi-fold session on one instance or as a neighbour session "
        "(several instances, one of them configured); non-trivial = the raw is strict-valid JSON for the schema, or it is not and the fold is valid; "
        "distinct = (schema shape, corruption labels, strategy used, valid)")
ASSUMPTIONS = [
    "schemas are plain pydantic field models (int/float/str/bool/list/Optional/one nested model), no custom validators, aliases or extra='forbid'",
    "raw text is a str; on_misfold (when set) does not raise",
    "no co-chaperone preprocessor is registered on the instance/schema pair whose fold is judged (folds through a preprocessor are run, "
    "counted and not judged); a preprocessor given to ANOTHER instance, or to the same instance for ANOTHER schema class, is part of the workload",
    "an instance's public `strategies` list may be edited in place by its owner; the list handed to a constructor is not shared by the check between instances",
    "strategy lists are non-empty lists of FoldingStrategy members (an empty list means 'default' in the API)",
    "non-finite floats only occur in top-level fields of generated instances",
    "pydantic lax-mode validation defines 'instance of the schema' (the library validates with model_validate)",
    "healing loop: max_retries >= 0 and confidence_decay >= 0 (a negative decay is not a discount); the generator does not raise",
    "a valid enhanced fold names a strategy from the caller's strategy list (the list is the set of strategies allowed to accept)",
]

PERSON = (("name", "str", 0), ("age", "int", 0))
ITEM = (("name", "str", 0), ("price", "float", 0), ("tags", "list_str", 2))
OPT = (("note", "str", 1), ("ok", "bool", 2))
NEST = (("inner", "model", 0, (("x", "int", 0),)), ("title", "str", 0))
COERCE3 = (("age", "int", 0), ("price", "float", 0), ("ok", "bool", 0), ("tags", "list_int", 0), ("name", "str", 0))

_P = lambda n, a: {"name": n, "age": a}  # noqa: E731
FIXED = [
    (PERSON, '{"name": "Alice", "age": 30}', _P("Alice", 30)),
    (PERSON, '  {"name": "Alice", "age": 30}\n', _P("Alice", 30)),
    (PERSON, '```json\n{"name": "Bob", "age": 25}\n```', _P("Bob", 25)),
    (PERSON, '```\n{"name": "Bob", "age": 25}\n```', _P("Bob", 25)),
    (PERSON, '<json>{"name": "Bob", "age": 25}</json>', _P("Bob", 25)),
    (PERSON, 'Here you go: {"name": "Bob", "age": 25} thanks', _P("Bob", 25)),
    (PERSON, "{'name': 'True North', 'age': 3}", _P("True North", 3)),
    (PERSON, '{"name": "a, }", "age": 1}', _P("a, }", 1)),
    (PERSON, "{'name': 'None of it', 'age': 2}", _P("None of it", 2)),
    (PERSON, '{"name": "Carol", "age": "42"}', _P("Carol", "42")),
    (PERSON, '{"name": 7, "age": "42"}', {"name": 7, "age": "42"}),
    (PERSON, '{"name": "Dan", "age": 30,}', _P("Dan", 30)),
    (PERSON, '{name: "Eve", age: 5}', _P("Eve", 5)),
    (PERSON, "{'name': 'Eve', 'age': None}", _P("Eve", None)),
    (PERSON, '{"name": "Al", "age": 3.7}', None),
    (PERSON, '{"name": "Al", "age": "3.7"}', None),
    (PERSON, '{"name": "Al", "age": "1e3"}', None),
    (PERSON, '{"name": true, "age": 1}', None),
    (PERSON, '{"name": 9.5, "age": 1}', None),
    (PERSON, '{"name": "Al"', None),
    (PERSON, "", None),
    (PERSON, "I cannot comply", None),
    (PERSON, "[]", None),
    (PERSON, "42", None),
    (PERSON, "null", None),
    (PERSON, "{}", None),
    (PERSON, '{"foo": 1} {"name": "Zed", "age": 9}', _P("Zed", 9)),
    (PERSON, '{"name": "First", "age": 1} and {"name": "Second", "age": 2}', _P("First", 1)),
    (PERSON, '`{"name": "Tick", "age": 1}`', _P("Tick", 1)),
    (PERSON, '```{"name": "Tick", "age": 1}```', _P("Tick", 1)),
    (PERSON, '{"name": "x", "age": 1, "age": 2}', _P("x", 2)),
    (PERSON, '{"name": "ratio: NaN", "age": 1,}', _P("ratio: NaN", 1)),
    (PERSON, '{"name": "x, ]", "age": 1}', _P("x, ]", 1)),
    (PERSON, "{'name': '\\'k\\': v', 'age': 1}", _P("'k': v", 1)),
    (PERSON, '{"name": "Nonetheless Trueness", "age": 1,}', _P("Nonetheless Trueness", 1)),
    (PERSON, '{"name": "x", "age": 1, "meta": {"name": "inner", "age": 99}}', _P("x", 1)),
    (PERSON, '\ufeff{"name": "Bom", "age": 1}', _P("Bom", 1)),
    (PERSON, '\xa0{"name": "Nbsp", "age": 1}\x0c', _P("Nbsp", 1)),
    (PERSON, "[" * 10000 + "]" * 10000, None),
    (PERSON, '{"name": "big", "age": ' + "9" * 5000 + "}", None),
    (PERSON, '{"name": "deep", "age": 1, "z": ' + "[" * 10000 + "]" * 10000 + "}", None),
    (ITEM, '{"name": "w", "price": "9.5", "tags": "a, b"}', None),
    (ITEM, '{"name": "w", "price": NaN}', {"name": "w", "price": float("nan")}),
    (ITEM, "{'name': 'w', 'price': 1.5, 'tags': ['a']}", {"name": "w", "price": 1.5, "tags": ["a"]}),
    (ITEM, '{"name": "w", "price": 1e400}', None),
    (ITEM, '{"name": "w", "price": 2, "tags": ["True", "x, }"],}', {"name": "w", "price": 2, "tags": ["True", "x, }"]}),
    (OPT, "{}", {}),
    (OPT, "no json here {}", None),
    (OPT, '{"note": undefined, "ok": True}', {"note": None, "ok": True}),
    (OPT, '{"note": NaN}', {"note": None}),
    (OPT, '{"note": "see {} here", "ok": "yes"}', {"note": "see {} here", "ok": "yes"}),
    (OPT, '{"ok": "no"}', {"ok": "no"}),
    (OPT, '{"ok": "0", "note": 5}', None),
    (NEST, '{"inner": {"x": 1}, "title": "t"}', {"inner": {"x": 1}, "title": "t"}),
    (NEST, '{"inner": {"x": "1"}, "title": 5}', None),
    (NEST, "{'inner': {'x': 1}, 'title': 'False start'}", {"inner": {"x": 1}, "title": "False start"}),
    (COERCE3, '{"age": "4", "price": "2.5", "ok": "yes", "tags": "1, 2", "name": 5}', None),
    (COERCE3, '{"age": " 4 ", "price": "nan", "ok": "NO", "tags": "7", "name": 1.5}', None),
    (COERCE3, '```json\n{"age": "4", "price": "2.5", "ok": "1", "tags": [1], "name": false}\n```', None),
    # literal non-ASCII typography / normalisation-unstable code points inside string values of otherwise clean JSON
    (PERSON, '{"name": "it\u2019s \u201cfine\u201d \u2013 ok\u2026", "age": 30}', _P("it\u2019s \u201cfine\u201d \u2013 ok\u2026", 30)),
    (PERSON, '{"name": "\ufb01 \uff11\uff12 \u212b e\u0301 \u00a0x\u200b \uff02q\uff02", "age": 1}',
     _P("\ufb01 \uff11\uff12 \u212b e\u0301 \u00a0x\u200b \uff02q\uff02", 1)),
    (PERSON, '```json\n{"name": "\u2018q\u2019 \u00abw\u00bb \u0130\u00df", "age": 2}\n```', _P("\u2018q\u2019 \u00abw\u00bb \u0130\u00df", 2)),
    (PERSON, '{"name": "l\u2019\u00e9t\u00e9 \u201ehigh\u201c wide\u3000gap", "age": 3,}', _P("l\u2019\u00e9t\u00e9 \u201ehigh\u201c wide\u3000gap", 3)),
    (ITEM, '{"name": "\u201cw\u201d", "price": 1.5, "tags": ["\u2018a\u2019", "b\u2019s", "\u00bd\u2122"]}',
     {"name": "\u201cw\u201d", "price": 1.5, "tags": ["\u2018a\u2019", "b\u2019s", "\u00bd\u2122"]}),
]

_ORDERS = None


def orders():
    global _ORDERS
    if _ORDERS is None:
        from operon_ai.organelles.chaperone import FoldingStrategy as FS
        _ORDERS = G.all_orders([FS.STRICT, FS.EXTRACTION, FS.LENIENT, FS.REPAIR])
        assert len(_ORDERS) == 64
    return _ORDERS


N_SWEEP = len(FIXED) * 64

_DEFAULT_ORDER = None


def default_order():
    """The documented default strategy order: read once per process off the first default-constructed instance, before the
    workload has configured or edited anything (a copy — later cases compare against it, they do not re-read it)."""
    global _DEFAULT_ORDER
    if _DEFAULT_ORDER is None:
        from operon_ai.organelles.chaperone import Chaperone
        _DEFAULT_ORDER = tuple(Chaperone(silent=True).strategies)
    return list(_DEFAULT_ORDER)


def plan(tier):
    extra = 100000 if tier == "quick" else 2000000
    return {"cases": N_SWEEP + extra, "shards": 8 if tier == "quick" else 14,
            "min_nontrivial": 1500, "timeout": 600 if tier == "quick" else 2400,
            "require": {
                "folds_enhanced": 20000, "folds_plain": 20000, "differential_compared": 20000,
                "valid:strict": 3000, "valid:extraction": 1500, "valid:lenient": 500, "valid:repair": 800,
                "invalid_results": 5000, "provenance_checked": 8000, "provenance:text": 5000,
                "provenance:ground-truth": 300, "provenance:coerced": 200,
                "strict_valid_raws": 5000, "strict_first_exact": 2000,
                "via:extracted_via_markdown_json_block": 100, "via:extracted_via_markdown_code_block": 100,
                "via:extracted_via_xml_json_tag": 50, "via:extracted_via_bare_json_object": 300,
                "coercion:str_to_int": 20, "coercion:str_to_float": 20, "coercion:num_to_str": 20,
                "coercion:str_to_bool": 20, "coercion:str_to_list": 20,
                "repair:removed_trailing_comma_object": 50, "repair:fixed_single_quote_key": 50,
                "repair:quoted_unquoted_key": 50, "repair:converted_true": 20, "repair:converted_undefined": 5,
                "heal_runs": 1000, "heal_valid": 200, "misfold_callbacks": 1000,
                "heal_valid_after_retries": 200, "heal_valid_decay_saturated": 80, "heal_degraded": 300, "heal_confidences_checked": 1500,
                "raws_with_literal_typography": 800, "strict_valid_typography_raws": 100, "strict_first_exact_typography": 60,
                "sessions": 500, "session_steps": 2500, "session_refolds_of_accepted_text": 1000, "session_refold_now_rejected": 150,
                "session_reentrant_folds": 500, "strategy_membership_checked": 6000,
                "neighbour_sessions": 800, "neighbour_configured_folds": 3000, "neighbour_preprocessor_changed_text": 3000,
                "neighbour_judged_folds": 5000, "neighbour_judged_strict_first_exact": 800,
                "neighbour_strategies_edited_in_place": 250, "neighbour_configured_judged_on_namesake": 800,
                "stats:attempts:strict": 10000, "stats:attempts:extraction": 10000,
                "stats:attempts:lenient": 10000, "stats:attempts:repair": 10000,
            }}


# ----------------------------------------------------------------------------- case generation
def run_case(ctx, n):
    if n < N_SWEEP:
        shape, raw, ground = FIXED[n // 64]
        order = orders()[n % 64]
        grounds = [ground] if ground is not None else []
        related = []
        nshape, nraw, nground = FIXED[(n // 64 + 1) % len(FIXED)]      # the next witness of the same schema, as a second text
        if nshape == shape and len(nraw) < 2000:
            related.append(nraw)
            if nground is not None:
                grounds.append(nground)
        case = {"kind": "fixed", "item": n // 64, "shape": shape, "raw": raw, "ground": grounds,
                "order": order, "labels": ("fixed%d" % (n // 64),), "via_ctor": n % 2 == 0, "heal": (n % 64) in (0, 15, 40),
                "session": (n % 64) in (3, 27, 52) and len(raw) < 2000, "related": related,
                "neighbour": ctx.rng("neighbour", n) if (n % 64) in (5, 33) and len(raw) < 2000 else None}
        return judge(ctx, case, ctx.rng(n))
    rng = ctx.rng(n)
    hs = lambda r: G.hostile_string(r, O.n_groups_changing)  # noqa: E731
    shape = G.make_shape(ctx.rng("schema", rng.randrange(600 if ctx.tier == "quick" else 2000)))   # model classes are cached per shape
    hostile_p = rng.choice([0.0, 0.0, 0.3, 0.6])
    inst = G.gen_instance(rng, shape, hostile_p, hs)
    data, sem = G.semantic_ops(rng, shape, inst, hs)
    st = G.random_style(rng)
    if rng.random() < 0.04:
        data_out = [data]
        sem.append("wrap_in_list")
    elif rng.random() < 0.04:
        data_out = {"result": data}
        sem.append("wrap_in_key")
    else:
        data_out = data
    grounds = [data_out, inst]      # what a correct repair of the text recovers (and its sub-objects), and the pre-swap instance
    text = G.write(data_out, st, rng)
    decoy_value = G.gen_instance(rng, shape, 0.0, hs)
    decoy_text = G.write(decoy_value, G.Style(), rng)
    raw, wr, decoy_grounds = G.wrap(rng, text, decoy_text, decoy_value)
    grounds.extend(decoy_grounds)
    labels = list(sem) + list(st.labels) + list(wr)
    if rng.random() < 0.004:
        raw, b = G.bomb(rng, raw)
        labels.append(b)
    r = rng.random()
    if r < 0.3:
        order = None
    else:
        order = rng.choice(orders())
    case = {"kind": "random", "shape": shape, "raw": raw, "ground": grounds, "order": order, "labels": tuple(labels),
            "via_ctor": rng.random() < 0.5, "heal": rng.random() < 0.08,
            "session": rng.random() < 0.06 and len(raw) < 3000, "related": [text, decoy_text]}
    nrng = ctx.rng("neighbour", n)      # its own stream: the other monitors see the same cases with or without (g)
    case["neighbour"] = nrng if nrng.random() < 0.05 and len(raw) < 3000 else None
    return judge(ctx, case, rng)


# ----------------------------------------------------------------------------- the monitors
def _desc(case, **kw):
    d = {"raw": case["raw"], "schema": case["shape"], "labels": case["labels"],
         "order": [s.value for s in case["order"]] if case["order"] else "default",
         "via_constructor": case["via_ctor"]}
    if case.get("kind") == "session":
        d["session"] = case["session"]
    if case.get("kind") == "neighbour":
        d["neighbour"] = case["neighbour"]
    d.update(kw)
    return d


def _call(ctx, case, which, fn):
    try:
        return fn(), None
    except Exception as e:  # the statement: no raw text makes folding raise
        ctx.violation("fold-raises:%s:%s" % (which, type(e).__name__),
                      "%s raised %s: %s" % (which, type(e).__name__, str(e)[:200]), _desc(case))
        return None, e


def raw_facts(ctx, raw, S):
    """Independent facts about a raw text: is it, as it stands, schema-valid JSON (and what does it validate to)."""
    try:
        return True, S.model_validate(json.loads(raw))
    except Exception:
        return False, None


def judge(ctx, case, rng):
    from operon_ai.organelles.chaperone import Chaperone, FoldingStrategy as FS

    shape, raw, order = case["shape"], case["raw"], case["order"]
    S = G.build_model(shape)
    default_order()
    for lb in case["labels"]:
        ctx.count("op:" + lb)
    ctx.count("order:" + ("default" if not order else "len%d" % len(order)))
    if G.has_typography(raw):
        ctx.count("raws_with_literal_typography")

    misfolds = []

    def on_misfold(e):
        misfolds.append(e)
        ctx.count("misfold_callbacks")

    def mk():
        if order and case["via_ctor"]:
            return Chaperone(strategies=list(order), on_misfold=on_misfold, silent=True), None
        return Chaperone(on_misfold=on_misfold, silent=True), (list(order) if order else None)

    strict_valid, E = raw_facts(ctx, raw, S)
    if strict_valid:
        ctx.count("strict_valid_raws")
        if G.has_typography(raw):
            ctx.count("strict_valid_typography_raws")

    # ---- run the real code (a fresh instance per API)
    ch, per_call = mk()
    eff = list(order) if order else list(ch.strategies)     # "default" = whatever order the instance documents
    enh, err1 = _call(ctx, case, "fold_enhanced", lambda: ch.fold_enhanced(raw, S, per_call) if per_call else ch.fold_enhanced(raw, S))
    stats_e = ch.get_statistics()
    ch2, per_call2 = mk()
    pl, err2 = _call(ctx, case, "fold", lambda: ch2.fold(raw, S, per_call2) if per_call2 else ch2.fold(raw, S))
    stats_p = ch2.get_statistics()
    for s in FS:
        ctx.count("stats:attempts:" + s.value, stats_e["strategy_attempts"][s.value] + stats_p["strategy_attempts"][s.value])
    if enh is None or pl is None:
        return
    used = assess(ctx, case, S, enh, pl, eff, misfolds, strict_valid, E)

    # ---- the healing loop on top of fold_enhanced (anchored: chaperone_loop.py)
    if case["heal"]:
        heal_monitor(ctx, case, rng, S, enh, mk, FS)

    # ---- one long-lived instance folding this and related texts repeatedly
    if case.get("session"):
        session_monitor(ctx, case, rng)

    # ---- several instances in one process, one of them configured
    if case.get("neighbour") is not None:
        neighbour_monitor(ctx, case, case["neighbour"])

    # ---- evidence
    if strict_valid or enh.valid:
        ctx.nontrivial((G.shape_key(shape), case["labels"], used.value if isinstance(used, FS) else None, bool(enh.valid)))
    if case["kind"] == "random":
        ctx.sample(_desc(case, valid=enh.valid, strategy=used.value if isinstance(used, FS) else None,
                         structure=repr(enh.structure)), cap=3)


def assess(ctx, case, S, enh, pl, eff, misfolds, strict_valid, E):
    """Monitors (a)-(d) on one (fold_enhanced, fold) result pair for case['raw'] / S / the effective strategy list."""
    from operon_ai.organelles.chaperone import FoldingStrategy as FS, EnhancedFoldedProtein
    from operon_ai.core.types import FoldedProtein
    raw = case["raw"]
    ctx.count("folds_enhanced")
    ctx.count("folds_plain")

    # ---- (a) direct checks on both results
    ok_e = direct_checks(ctx, case, "fold_enhanced", enh, S, EnhancedFoldedProtein)
    ok_p = direct_checks(ctx, case, "fold", pl, S, FoldedProtein)
    for m in misfolds:
        if m.valid or m.structure is not None or not m.error_trace:
            ctx.violation("misfold-callback-shape", "on_misfold received valid=%r structure=%r error_trace=%r" % (
                m.valid, m.structure, m.error_trace), _desc(case))
            break

    used = enh.strategy_used if enh.valid else None
    if enh.valid is True:
        ctx.count("valid:" + (used.value if isinstance(used, FS) else "unlabelled"))
        for c in enh.coercions_applied or []:
            if c.startswith("extracted_via_"):
                ctx.count("via:" + c)
            elif used == FS.LENIENT:
                ctx.count("coercion:" + (c.split("_", 1)[1] if "_" in c else c))
            elif used == FS.REPAIR:
                ctx.count("repair:" + c)
        if isinstance(used, FS):
            # the caller's strategy list is the set of strategies allowed to accept the text ("all strategy orders/subsets")
            ctx.count("strategy_membership_checked")
            if used not in eff:
                ctx.violation("strategy-used-not-configured", "valid fold attributed to %s although the strategy list is %s" % (
                    used.value, [x.value for x in eff]), _desc(case, strategy=str(used)))
        c = enh.confidence
        if not isinstance(c, (int, float)) or isinstance(c, bool) or not (0.0 <= c <= 1.0):
            ctx.violation("confidence-out-of-range", "valid fold with confidence %r" % (c,), _desc(case, strategy=str(used)))
        elif c == 1.0:
            # reading: full confidence is reserved for strict folds = the (whitespace-stripped) raw text is itself the JSON
            is_json = False
            try:
                json.loads(raw.strip())
                is_json = True
            except Exception:
                pass
            if used != FS.STRICT or not is_json:
                ctx.violation("confidence-1.0-non-strict",
                              "confidence 1.0 for a fold that is not a strict fold (strategy %s, raw %s JSON)" % (
                                  used, "is" if is_json else "is not"), _desc(case, strategy=str(used)))
        if used == FS.STRICT and c != 1.0:
            ctx.violation("strict-confidence-not-1.0", "strict fold with confidence %r" % (c,), _desc(case))
    else:
        ctx.count("invalid_results")
        c = enh.confidence
        if not isinstance(c, (int, float)) or not (0.0 <= c <= 1.0) or c == 1.0:
            ctx.violation("confidence-invalid-fold", "invalid fold with confidence %r" % (c,), _desc(case))

    # ---- (c) differential plain vs enhanced
    ctx.count("differential_compared")
    if bool(enh.valid) != bool(pl.valid):
        ctx.violation("fold-vs-enhanced:validity", "fold valid=%r but fold_enhanced valid=%r" % (pl.valid, enh.valid), _desc(case))
    elif enh.valid and ok_e and ok_p:
        if type(pl.structure) is not type(enh.structure) or not O.same(O.dump(pl.structure), O.dump(enh.structure)):
            ctx.violation("fold-vs-enhanced:structure", "fold returned %r, fold_enhanced %r" % (pl.structure, enh.structure), _desc(case))

    # ---- (d) strict-valid raw text
    if strict_valid and FS.STRICT in eff:
        for which, res in (("fold_enhanced", enh), ("fold", pl)):
            if not res.valid:
                ctx.violation("strict-valid-rejected:" + which, "schema-valid JSON reported invalid with STRICT configured", _desc(case))
        if eff[0] == FS.STRICT:
            ctx.count("strict_first_exact")
            if G.has_typography(raw):
                ctx.count("strict_first_exact_typography")
            if enh.valid and (used != FS.STRICT or enh.confidence != 1.0):
                ctx.violation("strict-valid-not-by-strict", "schema-valid JSON folded by %s with confidence %r although STRICT is first" % (
                    used, enh.confidence), _desc(case))
            for which, res, ok in (("fold_enhanced", enh, ok_e), ("fold", pl, ok_p)):
                if res.valid and ok and not O.same(O.dump(res.structure), O.dump(E)):
                    ctx.violation("strict-valid-values-differ:" + which,
                                  "structure %r differs from model_validate(json.loads(raw)) = %r" % (res.structure, E), _desc(case))

    # ---- (b) provenance of the valid structures
    if enh.valid and ok_e:
        provenance(ctx, case, "fold_enhanced", enh.structure, S, used, FS, eff)
    if pl.valid and ok_p and not (enh.valid and ok_e and O.same(O.dump(pl.structure), O.dump(enh.structure))):
        # plain result differs from the enhanced one (already a violation above) — judge it on its own as well;
        # the plain API does not say which strategy won, so no repair allowance applies
        provenance(ctx, case, "fold", pl.structure, S, None, FS, eff)
    return used


def session_monitor(ctx, case, rng):
    """(e) One long-lived Chaperone: the case's raw text (mostly) and related texts are folded again and again, by both
    APIs, under a different strategy list per call and against the schema, an equal-but-distinct twin class and a re-typed
    sibling. Every step is judged by the same monitors as a fresh fold: nothing an earlier call left behind may make a
    later 'valid' unsound, make plain and enhanced disagree, or let a strategy outside the caller's list accept."""
    from operon_ai.organelles.chaperone import Chaperone, FoldingStrategy as FS
    ctx.count("sessions")
    shape = case["shape"]
    sib = G.sibling_shape(rng, shape)
    schemas = [(shape, G.build_model(shape)), (shape, G.build_model(shape, twin=True)), (sib, G.build_model(sib))]
    texts = [case["raw"]] + [t for t in case.get("related", []) if t != case["raw"]]
    misfolds = []
    state = {"depth": 0, "reentrant": rng.random() < 0.3}

    def on_misfold(e):
        misfolds.append(e)
        ctx.count("misfold_callbacks")
        if state["reentrant"] and state["depth"] == 0:
            # a fold of another text started from inside the callback of the running one, on the same instance
            state["depth"] += 1
            try:
                ctx.count("session_reentrant_folds")
                ch.fold(texts[-1], schemas[0][1])
                ch.fold_enhanced(texts[0], schemas[0][1])
            finally:
                state["depth"] -= 1

    ctor = rng.choice([None, None, rng.choice(orders())])
    ch = Chaperone(strategies=list(ctor), on_misfold=on_misfold, silent=True) if ctor else Chaperone(on_misfold=on_misfold, silent=True)
    # what a call without a per-call list must use for the whole life of the instance: the constructor's list, or the
    # documented default order (read off a fresh instance, not off the long-lived one)
    configured = list(ctor) if ctor else default_order()
    history = []
    accepted = set()        # (text, schema index) already reported valid by this instance
    for step in range(rng.randint(3, 7)):
        ti = 0 if rng.random() < 0.7 else rng.randrange(len(texts))
        si = rng.choice([0, 0, 0, 0, 1, 1, 2])
        if step == 0:
            order = None if rng.random() < 0.7 else rng.choice(orders())
            ti = si = 0
        else:
            order = rng.choice([None] + [rng.choice(orders())] * 4)
        raw = texts[ti]
        shp, S = schemas[si]
        eff = list(order) if order else configured
        if not order and step:
            ctx.count("session_default_order_after_override")
        plain_first = rng.random() < 0.5
        history.append({"text": ti, "schema": ("same", "twin", "sibling")[si], "order": [s.value for s in order] if order else "default",
                        "first": "fold" if plain_first else "fold_enhanced"})
        sub = {"kind": "session", "shape": shp, "raw": raw, "ground": case["ground"], "order": order,
               "labels": case["labels"], "via_ctor": False,
               "session": {"constructor_order": [s.value for s in ctor] if ctor else "default", "texts": texts, "steps": list(history)}}
        del misfolds[:]
        pl = enh = None
        for api in (("fold", "fold_enhanced") if plain_first else ("fold_enhanced", "fold")):
            fn = ch.fold if api == "fold" else ch.fold_enhanced
            res, _ = _call(ctx, sub, api, (lambda: fn(raw, S, list(order))) if order else (lambda: fn(raw, S)))
            if api == "fold":
                pl = res
            else:
                enh = res
        if pl is None or enh is None:
            return
        ctx.count("session_steps")
        if any(k[0] == ti for k in accepted):
            ctx.count("session_refolds_of_accepted_text")
            if not enh.valid:
                ctx.count("session_refold_now_rejected")      # a narrower list / other schema rejects what was accepted before
        strict_valid, E = raw_facts(ctx, raw, S)
        assess(ctx, sub, S, enh, pl, eff, list(misfolds), strict_valid, E)
        if enh.valid:
            accepted.add((ti, si))


def direct_checks(ctx, case, which, res, S, cls):
    """Shape of a result object. Returns True when a valid structure is a re-validating instance."""
    if not isinstance(res, cls) or not isinstance(res.valid, bool):
        ctx.violation("result-type:" + which, "%s returned %r" % (which, type(res).__name__), _desc(case))
        return False
    if not res.valid:
        if res.structure is not None:
            ctx.violation("invalid-with-structure:" + which, "invalid fold carries a structure %r" % (res.structure,), _desc(case))
        if not res.error_trace or not isinstance(res.error_trace, str):
            ctx.violation("invalid-without-error-trace:" + which, "invalid fold has error_trace=%r" % (res.error_trace,), _desc(case))
        return False
    X = res.structure
    if not isinstance(X, S):
        ctx.violation("valid-not-instance:" + which, "valid fold whose structure is %s, not an instance of the schema" % (
            type(X).__name__,), _desc(case, structure=repr(X)))
        return False
    try:
        again = S.model_validate(X.model_dump())
    except Exception as e:
        ctx.violation("valid-does-not-revalidate:" + which, "structure %r does not re-validate: %s" % (X, str(e)[:200]), _desc(case))
        return False
    if not O.same(again.model_dump(), X.model_dump()):
        ctx.violation("valid-does-not-revalidate:" + which, "structure %r re-validates to a different value %r" % (X, again), _desc(case))
        return False
    ctx.count("revalidated")
    return True


def provenance(ctx, case, which, X, S, used, FS, eff):
    ctx.count("provenance_checked")
    raw, shape = case["raw"], case["shape"]
    repair = used == FS.REPAIR and FS.REPAIR in eff
    cands = [("text@%s" % w, v) for w, v in O.text_candidates(raw)]
    ctx.count("text_candidates", len(cands))
    gt = []
    for g in case["ground"]:
        gt.extend(O.sub_objects(g))
    cands_gt = [("ground-truth", v) for v in gt]
    last = None
    for where, k in cands + cands_gt:
        how, detail = O.explain(S, shape, X, k, nan_as_null=repair)
        if how:
            ctx.count("provenance:" + ("text" if where.startswith("text") else "ground-truth") if how == "exact" else "provenance:coerced")
            return
        last = detail
    if repair:
        # known-finding classifier: ground truth first, then the text candidates
        for where, k in cands_gt + cands:
            how, kinds = O.explain(S, shape, X, k, nan_as_null=True, allow_rewrite=True)
            if how == "rewrite":
                for kind in sorted(kinds):
                    ctx.count("provenance:rewrite:" + kind)
                    ctx.violation("repair-rewrites-string-literal:" + kind,
                                  "REPAIR's %s substitution fired inside a string literal: valid structure %r holds a value that is not in the raw text" % (
                                      kind, X), _desc(case, source=where, candidate=k))
                return
    mech = "fabricated-value:%s" % (used.value if used is not None else "plain-fold")
    ctx.violation(mech, "valid structure %r (via %s) cannot be derived from any JSON in the raw text, from the ground truth, or through the coercion table (%s)" % (
        X, which, last or "no object candidate"), _desc(case, candidates=[k for _, k in (cands + cands_gt)[:6]]))


PRE_KINDS = ("replace", "swapcase", "digits", "empty", "prose", "truncate")
_DIGIT_SHIFT = {48 + i: 48 + (i + 1) % 10 for i in range(10)}
PLAIN_KINDS = ("default", "default", "callback", "explicit-none", "explicit-empty", "ordered")


def _preprocess(kind, text, foreign_text):
    if kind == "replace":
        return foreign_text                      # another, schema-valid JSON text altogether
    if kind == "swapcase":
        return text.swapcase()
    if kind == "digits":
        return text.translate(_DIGIT_SHIFT)
    if kind == "empty":
        return ""
    if kind == "prose":
        return "Sure! " + text + " Hope that helps."
    return text[: len(text) // 2]


def neighbour_monitor(ctx, case, rng):
    """(g) Several instances in one process. Plain instances (nothing registered on them) are created and used, then ONE
    independently configured instance — a co-chaperone preprocessor for the case's schema that rewrites the text, passed to
    the constructor and/or registered afterwards; its own strategy list (also edited in place); its own on_misfold — is
    created and used on the same texts, then further plain instances are created. Every fold of a plain instance, and of the
    configured instance against a distinct schema class of the same name, goes through monitors (a)-(d) exactly as a fresh
    fold does. Folds THROUGH the preprocessor are run and counted, not judged."""
    from operon_ai.organelles.chaperone import Chaperone, FoldingStrategy as FS
    ctx.count("neighbour_sessions")
    shape = case["shape"]
    S = G.build_model(shape)
    twin, namesake = G.build_model(shape, twin=True), G.build_model(shape, twin="namesake")
    texts = [case["raw"]] + [t for t in case.get("related", []) if t != case["raw"]][:1]
    hs = lambda r: G.hostile_string(r, O.n_groups_changing)  # noqa: E731
    foreign_text = G.write(G.gen_instance(rng, shape, 0.0, hs), G.Style(), rng)
    state = {"phase": "setup"}
    log = []
    info = {"texts": texts, "log": log}

    def make_pre(kind):
        def pre(text):
            out = _preprocess(kind, text, foreign_text)
            if state["phase"] == "judged":
                ctx.count("neighbour_foreign_preprocessor_calls")     # recorded; the verdict comes from the fold's result
            else:
                ctx.count("neighbour_preprocessor_calls")
                if out != text:
                    ctx.count("neighbour_preprocessor_changed_text")
            return out
        return pre

    def plain(kind):
        """A Chaperone with no co-chaperone of its own -> (instance, the order a call without a list must use, its misfolds)."""
        mis = []

        def cb(e):
            mis.append(e)
            ctx.count("misfold_callbacks")
        if kind == "default":
            return Chaperone(silent=True), default_order(), mis
        if kind == "callback":
            return Chaperone(on_misfold=cb, silent=True), default_order(), mis
        if kind == "explicit-none":
            return Chaperone(max_retries=3, strategies=None, co_chaperones=None, on_misfold=None, silent=True), default_order(), mis
        if kind == "explicit-empty":
            return Chaperone(strategies=[], co_chaperones={}, on_misfold=cb, silent=True), default_order(), mis
        o = rng.choice(orders())
        return Chaperone(strategies=list(o), on_misfold=cb, silent=True), list(o), mis

    def judged_fold(who, inst, configured, mis, ti, schema, schema_name):
        order = rng.choice(orders()) if rng.random() < 0.2 else None
        eff = list(order) if order else list(configured)
        log.append({"instance": who, "text": ti, "schema": schema_name, "order": [s.value for s in order] if order else "default"})
        sub = {"kind": "neighbour", "shape": shape, "raw": texts[ti], "ground": case["ground"], "order": order,
               "labels": case["labels"], "via_ctor": False, "neighbour": dict(info, log=list(log))}
        del mis[:]
        before = state["phase"]
        state["phase"], state["subject"] = "judged", who
        try:
            res = {}
            for api in rng.choice([("fold", "fold_enhanced"), ("fold_enhanced", "fold")]):
                fn = inst.fold if api == "fold" else inst.fold_enhanced
                res[api], _ = _call(ctx, sub, api, (lambda: fn(texts[ti], schema, list(order))) if order else (lambda: fn(texts[ti], schema)))
        finally:
            state["phase"] = before
        if res["fold"] is None or res["fold_enhanced"] is None:
            return
        ctx.count("neighbour_judged_folds")
        strict_valid, E = raw_facts(ctx, texts[ti], schema)
        if strict_valid and eff[0] == FS.STRICT:
            ctx.count("neighbour_judged_strict_first_exact")
        assess(ctx, sub, schema, res["fold_enhanced"], res["fold"], eff, list(mis), strict_valid, E)

    # ---- plain instances that exist before anything is configured; some are used already
    older = []
    for i in range(rng.randint(1, 2)):
        kind = rng.choice(PLAIN_KINDS)
        inst, conf, mis = plain(kind)
        older.append(("older%d:%s" % (i, kind), inst, conf, mis))
        if rng.random() < 0.5:
            judged_fold(older[-1][0] + ":before-configuring", inst, conf, mis, 0, S, "same")

    # ---- the configured instance
    pre_kind = rng.choice(PRE_KINDS)
    via = rng.choice(["register", "register", "constructor", "constructor+register"])
    ctor = rng.choice([None, None, rng.choice(orders())])
    cmis = []

    def ccb(e):
        cmis.append(e)
        # recorded, not judged: the statement says nothing about who is told of a misfold
        ctx.count("neighbour_foreign_misfold_callbacks" if state["phase"] == "judged" and state["subject"] != "configured" else "misfold_callbacks")
    kw = {"on_misfold": ccb} if rng.random() < 0.6 else {}
    if ctor:
        kw["strategies"] = list(ctor)
    if via == "constructor":
        kw["co_chaperones"] = {S: make_pre(pre_kind)}
    elif via == "constructor+register":
        kw["co_chaperones"] = {twin: make_pre(rng.choice(PRE_KINDS))}
    cfg = Chaperone(silent=True, **kw)
    if via != "constructor":
        cfg.register_co_chaperone(S, make_pre(pre_kind))
    cconf = list(ctor) if ctor else default_order()
    edit = None
    if not ctor and rng.random() < 0.5:
        # the owner edits its own (default) list in place
        edit = rng.choice(["reverse", "drop-first", "replace"])
        if edit == "reverse":
            cfg.strategies.reverse()
        elif edit == "drop-first":
            del cfg.strategies[0]
        else:
            cfg.strategies[:] = list(rng.choice(orders()))
        cconf = list(cfg.strategies)
        ctx.count("neighbour_strategies_edited_in_place")
    info["configured"] = {"preprocessor": pre_kind, "given_via": via, "strategies": [s.value for s in ctor] if ctor else "default",
                          "edited_in_place": edit, "on_misfold": "on_misfold" in kw, "foreign_text": foreign_text}
    state["phase"] = "configured"
    for ti in range(len(texts)):
        for api in ("fold", "fold_enhanced"):
            try:
                r = getattr(cfg, api)(texts[ti], S)
                ctx.count("neighbour_configured_folds")
                ctx.count("neighbour_configured_folds_valid" if r.valid else "neighbour_configured_folds_invalid")
            except Exception:
                ctx.count("neighbour_configured_folds_raised")       # through a preprocessor: outside the judged domain

    # ---- judged: older plain instances, newer plain instances, and the configured one on a schema it has nothing for
    subjects = list(older)
    for i in range(rng.randint(1, 2)):
        kind = rng.choice(PLAIN_KINDS)
        inst, conf, mis = plain(kind)
        subjects.append(("newer%d:%s" % (i, kind), inst, conf, mis))
    for who, inst, conf, mis in subjects:
        for ti in range(len(texts)):
            if ti == 0 or rng.random() < 0.5:
                judged_fold(who, inst, conf, mis, ti, S, "same")
        if rng.random() < 0.25:
            try:        # the configured one keeps working in between
                cfg.fold(texts[0], S) if rng.random() < 0.5 else cfg.fold_enhanced(texts[0], S)
            except Exception:
                ctx.count("neighbour_configured_folds_raised")
    judged_fold("configured", cfg, cconf, cmis, 0, namesake, "namesake")
    ctx.count("neighbour_configured_judged_on_namesake")


JUNK_OUTPUTS = ["not json at all", "", "{", '{"unrelated": 1', "[1, 2", "sorry \u2014 I can\u2019t", "{'k': }"]


def heal_monitor(ctx, case, rng, S, enh, mk, FS):
    """(f) ChaperoneLoop.heal over the case's text: the generator fails `junk` times and then emits the raw text.
    Configurations cover the default and unusual ones (no retries, many retries, zero / steep / >1 decay); the text
    is reached on any attempt number or never."""
    from operon_ai.healing.chaperone_loop import ChaperoneLoop, HealingOutcome
    ctx.count("heal_runs")
    raw = case["raw"]
    max_retries = rng.choice([0, 1, 2, 3, 3, 3, 5, 8, 12, 15])
    decay = rng.choice([0.0, 0.05, 0.1, 0.1, 0.1, 0.25, 0.3, 0.5, 0.75, 1.0, 1.5, 2.5])
    r0 = rng.random()
    junk = 0 if r0 < 0.2 else (max_retries if r0 < 0.45 else rng.randint(0, max_retries + 1))
    junk_text = rng.choice(JUNK_OUTPUTS)
    outs = [junk_text] * junk + [raw]
    calls = []

    def gen(prompt, error_context=None):
        i = len(calls)
        calls.append(error_context)
        return outs[i] if i < len(outs) else outs[-1]

    ch, per_call = mk()
    if per_call:        # the loop cannot pass a per-call order; configure it on the instance
        ch = type(ch)(strategies=per_call, silent=True)
    junk_ok = ch.fold_enhanced(junk_text, S).valid if junk else False     # a repairable junk text would end the loop early
    kw = {}
    if not (max_retries == 3 and rng.random() < 0.5):
        kw["max_retries"] = max_retries
    if not (decay == 0.1 and rng.random() < 0.5):
        kw["confidence_decay"] = decay
    loop = ChaperoneLoop(generator=gen, chaperone=ch, schema=S, silent=True, **kw)
    try:
        r = loop.heal("p")
    except Exception as e:
        ctx.violation("heal-raises:" + type(e).__name__, "heal() raised %s" % (e,), _desc(case))
        return
    d = _desc(case, junk=junk, junk_text=junk_text, max_retries=max_retries, decay=decay, outcome=str(r.outcome))
    if junk_ok:
        ctx.count("heal_junk_accepted")
        return
    ctx.count("heal_attempts", len(calls))
    reached = len(calls) > junk          # the case's raw text was folded by the loop
    valid = r.outcome in (HealingOutcome.VALID_FIRST_TRY, HealingOutcome.HEALED)
    if valid:
        ctx.count("heal_valid")
        if junk:
            ctx.count("heal_valid_after_retries")
        if junk * decay >= 1.0:
            ctx.count("heal_valid_decay_saturated")     # the retry discount alone exhausts the confidence
        X = r.structure
        f = r.folded
        if f is None or not f.valid or X is None or not isinstance(X, S):
            ctx.violation("heal-valid-without-structure", "outcome %s with folded=%r structure=%r" % (r.outcome, f, X), d)
            return
        if not (reached and enh.valid):
            ctx.violation("heal-vs-fold:validity", "heal() reports %s but fold_enhanced on the same text is invalid" % (r.outcome,), d)
        elif not O.same(O.dump(X), O.dump(enh.structure)):
            ctx.violation("heal-vs-fold:structure", "heal() structure %r differs from fold_enhanced %r" % (X, enh.structure), d)
        # the fold's confidence (also as final_confidence) obeys both confidence clauses; a per-attempt record carries the
        # retry discount only (1.0 on the first attempt whatever the strategy), so only the range applies to it
        confs = [("final_confidence", r.final_confidence, True), ("folded.confidence", f.confidence, True)]
        confs += [("attempts[%d].confidence" % a.attempt_number, a.confidence, False) for a in r.attempts]
        for name, c, is_fold in confs:
            ctx.count("heal_confidences_checked")
            if not isinstance(c, (int, float)) or isinstance(c, bool) or not (0.0 <= c <= 1.0):
                ctx.violation("heal-confidence-out-of-range", "%s = %r for a valid healed fold" % (name, c), d)
                break
            elif is_fold and c == 1.0 and f.strategy_used != FS.STRICT:
                ctx.violation("heal-confidence-1.0-non-strict", "%s = 1.0 for a %s fold" % (name, f.strategy_used), d)
                break
    else:
        ctx.count("heal_degraded")
        if r.structure is not None or (r.folded is not None and r.folded.valid):
            ctx.violation("heal-invalid-with-structure", "outcome %s with structure %r" % (r.outcome, r.structure), d)
        if reached and enh.valid:
            ctx.violation("heal-vs-fold:validity", "heal() degraded although fold_enhanced accepts the text", d)
        confs = [r.final_confidence] + [a.confidence for a in r.attempts]
        if not all(isinstance(c, (int, float)) and 0.0 <= c < 1.0 for c in confs):
            ctx.violation("heal-confidence-out-of-range", "degraded result with confidences %r" % (confs,), d)


if __name__ == "__main__":
    core.main(sys.modules[__name__])
