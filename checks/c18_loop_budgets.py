"""C18 — healing / swarm / tool loops stop within their budgets against any generator.

Monitors: invocation counters inside the supplied generator / worker factory / worker /
provider stubs (the observation point named by the property), compared with the configured
limits; returned records cross-checked against what the stubs saw.
"""
import json
import sys
import types

from pydantic import BaseModel

from rv import core, sched
from rv import c18_sessions as S
from rv import c18_r4 as R4
from rv.faults import EXC_CLASSES

PID = "C18"
LEVEL = "exploration"
TECHNIQUE = "runtime monitoring: call counters and argument logs inside adversarial generator/worker/provider stubs, checked against the configured budgets"
RULE = ("cases = full sweep of limits 0..4 x adversarial behaviour programs for the three loops (silent and verbose, text and non-text "
        "outputs), three long-history sessions on one instance each, one slice of the sweep re-run under python -O, then seeded random "
        "behaviour programs and seeded random SESSIONS (1-3 differently configured instances used alternately and re-entrantly, every "
        "public setting reassigned between calls and limits also during a call, instances replaced by their copies, raising hooks, "
        "read-only and maintenance APIs interleaved, foreign time zones and clocks set back, strict output streams, each call judged "
        "against the limits in force during it), copy/deepcopy/pickle duplicates used alternately with their originals, short-lived "
        "schemas at reused addresses; non-trivial = the loop was driven past its first call (>=1 retry / regeneration / tool round); "
        "distinct = (loop, configuration, behaviour program, outcome)")
ASSUMPTIONS = ["generators/workers/providers/hooks raise only Exception subclasses",
               "completion markers are the five documented words, matched case-insensitively as substrings",
               "limits are non-negative ints (bools included); a budget >= 17 is only run against an adversary that stops by itself",
               "a constructor may reject an out-of-domain option value (nan / negative thresholds ...): such a session is skipped, not judged",
               "a final completion that raises and is asked again counts as a second final completion (own mechanism key)",
               "generator / worker outputs are text by protocol; outputs of other types (objects, None, bytes, dicts) are driven too, but a "
               "loop that RAISES on them by itself is not judged: only a returned result is (VALID/HEALED needs a schema-valid structure, "
               "success needs a marker-carrying text)",
               "a limit reassigned while a call is in progress: that call is judged against the largest value in force at any moment of it",
               "fractional settings may be float, Fraction or (entropy threshold) Decimal; flags are judged by truthiness"]

MARKERS = ["SUCCESS", "SOLVED", "COMPLETE", "DONE", "FINISHED"]


class Item(BaseModel):
    name: str
    price: float


class Other(BaseModel):
    title: str


def _twin():
    """an equal-but-distinct schema: a different model that happens to carry the same class name"""
    class Item(BaseModel):        # noqa: same __name__ as the module-level Item, different fields
        sku: int
        tags: list[str]
    return Item


TwinItem = _twin()


VALID = '{"name": "widget", "price": 9.5}'
OUTPUTS = {
    "valid": VALID,
    "fenced": "```json\n" + VALID + "\n```",
    "invalid_type": '{"name": "widget", "price": "one hundred"}',
    "missing": '{"name": "widget"}',
    "garbage": "I cannot comply",
    "empty": "",
    "other_schema": '{"title": "valid for another schema"}',
    "truncated": '{"name": "widget", "pri',
    "array": "[1, 2, 3]",
    "twin_valid": '{"sku": 7, "tags": ["a"]}',      # valid for the namesake schema, not for Item
}
INVALID_KINDS = ["invalid_type", "missing", "garbage", "empty", "other_schema", "truncated", "array", "twin_valid"]


_INJECTED = S._INJECTED       # trimmed in place by S.inject
inject = S.inject
Runaway = S.Runaway
HARD_CAP = S.HARD_CAP


def heal_programs():
    """behaviour programs: list of per-attempt tokens (cycled when exhausted)."""
    progs = []
    for k in INVALID_KINDS:
        progs.append([k])                         # always invalid
    for k in range(0, 7):
        progs.append(["invalid_type"] * k + ["valid"])        # valid at attempt k
        progs.append(["garbage"] * k + ["fenced"])
        progs.append(["missing"] * k + ["raise"])              # raising at attempt k
    progs.append(["invalid_type", "missing"])     # alternating
    progs.append(["echo"])                        # echoes the error context back
    progs.append(["grow"])                        # growing outputs
    progs.append(["echo", "valid"])
    progs.append(["other_schema", "echo", "grow", "valid"])
    progs.append(["invalid_type", "missing", "truncated", "other_schema", "array", "garbage", "valid"])   # never repeats an invalid output
    progs.append(["grow"] * 6 + ["valid"])
    progs.append(["verbose"])                     # long outputs, different on every attempt
    progs.append(["verbose_json", "verbose"])
    progs.append(["same"])                        # the very same string object on every attempt
    progs.append(["fresh", "same"])               # equal but distinct objects
    progs.append(["blank", "braces", "empty_obj", "nan_price"])
    # outputs that are not text, text with result-like attributes, str subclasses: at the first attempt and after failures
    for tok in S.OBJ_TOKENS:
        progs.append([tok])
        progs.append(["invalid_type", "garbage", tok])
    progs.append(["surrogate"])
    return progs


HEAL_PROGS = heal_programs()
LIMITS = [0, 1, 2, 3, 4]


def swarm_programs():
    progs = []
    for w in ["unique", "repeat", "empty", "two_cycle"]:
        progs.append({"worker": w, "marker_at": None})
    for k in range(0, 6):
        for marker in ["SUCCESS", "done", "unFINISHEDx", "Solved!", "complete"]:
            progs.append({"worker": "unique", "marker_at": (0, k), "marker": marker})
    progs.append({"worker": "unique", "marker_at": (1, 0), "marker": "DONE"})
    progs.append({"worker": "repeat", "marker_at": (2, 1), "marker": "SUCCESS"})
    progs.append({"worker": "unique", "marker_at": (4, 3), "marker": "SUCCESS"})
    progs.append({"worker": "unique", "marker_at": None, "raise_step": (0, 2)})
    progs.append({"worker": "unique", "marker_at": None, "raise_factory": 1})
    progs.append({"worker": "repeat", "marker_at": None, "raise_summarizer": 0})
    progs.append({"worker": "near", "marker_at": None})   # near-miss words that carry no marker
    for mem in ("none", "window2", "prefilled"):
        progs.append({"worker": "unique", "marker_at": None, "memory": mem})
        progs.append({"worker": "unique", "marker_at": (1, 2), "marker": "DONE", "memory": mem})
    # outputs that carry no marker themselves although a marker can be read across the seam of two / three consecutive ones
    for w in ["seam", "seam-bare", "seam3", "seam-x"]:
        progs.append({"worker": w, "marker_at": None})
    progs.append({"worker": "seam", "marker_at": (2, 3), "marker": "done"})
    # the marker words occur in the task / in the hints, never in an output
    progs.append({"worker": "unique", "marker_at": None, "task": "report SUCCESS when the puzzle is SOLVED"})
    progs.append({"worker": "near", "marker_at": None, "task": "get it DONE", "hints": "marker"})
    progs.append({"worker": "long", "marker_at": None})
    progs.append({"worker": "constant-object", "marker_at": None})
    progs.append({"worker": "unique", "marker_at": None, "shared_worker": True})
    progs.append({"worker": "seam", "marker_at": (1, 1), "marker": "Solved", "shared_worker": True})
    for w in S.OBJ_WORKERS:
        progs.append({"worker": w, "marker_at": None})
        progs.append({"worker": w, "marker_at": None, "obj_from": 2})
    # every collaborator fails (whichever is reached first), and a failure exactly at the last step / spawn the budget allows
    progs.append({"worker": "unique", "marker_at": None, "raise_step": (1, 1), "raise_factory": 2, "raise_summarizer": 0})
    progs.append({"worker": "repeat", "marker_at": None, "raise_step": "last"})
    progs.append({"worker": "unique", "marker_at": None, "raise_factory": "last"})
    progs.append({"worker": "unique", "marker_at": None, "raise_summarizer": "last"})
    return progs


SWARM_PROGS = swarm_programs()


def tool_programs():
    progs = []
    for n in range(0, 6):
        progs.append({"calls_per_round": [n], "forever": True})
    progs.append({"calls_per_round": [1, 2, 0], "forever": False})
    progs.append({"calls_per_round": [2, 1], "forever": False})
    progs.append({"calls_per_round": [1], "forever": True, "unknown_tool": True})
    progs.append({"calls_per_round": [1], "forever": True, "raising_tool": True})
    progs.append({"calls_per_round": [3], "forever": True, "auto_execute": False})
    progs.append({"calls_per_round": [1], "forever": True, "no_cwt": True})
    progs.append({"calls_per_round": [1], "forever": True, "no_tools": True})
    progs.append({"calls_per_round": [2], "forever": True, "same_ids": True})
    progs.append({"calls_per_round": [1], "forever": True, "provider_raises_round": 2})
    progs.append({"calls_per_round": [1], "forever": True, "reentrant_tool": True})
    progs.append({"calls_per_round": [2, 1], "forever": True, "reentrant_tool": True})
    # what the provider SAYS (blank / whitespace / long / format-like text) in the final completion and in the tool rounds
    for text in ["empty", "space", "ws", "long", "braces", "tool-ish"]:
        progs.append({"calls_per_round": [1], "forever": True, "final": text})
        progs.append({"calls_per_round": [2], "forever": True, "round_text": text, "final": text})
    progs.append({"calls_per_round": [1, 2, 0], "forever": False, "round_text": "empty", "final": "empty"})
    # a provider that hands back the very same response / list / call objects every round
    progs.append({"calls_per_round": [2], "forever": True, "const": True})
    progs.append({"calls_per_round": [1], "forever": True, "const": True, "final": "empty", "round_text": "empty"})
    # the final completion fails
    progs.append({"calls_per_round": [1], "forever": True, "final_raises": True})
    progs.append({"calls_per_round": [0], "forever": True, "final_raises": True, "no_tools": True})
    # what the provider hands back is only shaped like the documented types
    for box in ("tuple", "iter", "none-when-empty"):
        progs.append({"calls_per_round": [1, 0, 2], "forever": True, "container": box})
    progs.append({"calls_per_round": [2], "forever": True, "duck_calls": True})
    progs.append({"calls_per_round": [1], "forever": True, "duck_calls": True, "container": "iter", "raising_tool": True})
    # everything fails at once; the provider fails exactly in the last round the budget allows
    progs.append({"calls_per_round": [1], "forever": True, "raising_tool": True, "provider_raises_round": "last", "final_raises": True})
    progs.append({"calls_per_round": [2], "forever": True, "raising_tool": True, "unknown_tool": True, "final_raises": True})
    progs.append({"calls_per_round": [1], "forever": True, "hostile_names": True})
    return progs


# round 5: provider metadata on every response (the loop may read it, it must not buy extra rounds): the stop / finish vocabulary of the
# common APIs, usage blocks, odd types
RAW_PAYLOADS = [None, {}, {"stop_reason": "max_tokens"}, {"stop_reason": "tool_use"}, {"stop_reason": "end_turn"}, {"stop_reason": "pause_turn"},
                {"stop_reason": "refusal"}, {"stop_reason": "stop_sequence"}, {"stop_reason": None}, {"finish_reason": "length"},
                {"finish_reason": "tool_calls"}, {"finish_reason": "function_call"}, {"finish_reason": "content_filter"}, {"finish_reason": "stop"},
                {"choices": [{"finish_reason": "length", "message": {"tool_calls": [{}]}}]}, {"finishReason": "MAX_TOKENS"},
                {"candidates": [{"finishReason": "MAX_TOKENS"}]}, {"error": {"type": "overloaded_error"}}, {"type": "error"}, {"retry": True},
                {"retry_after": 0}, {"truncated": True}, {"incomplete": True}, {"status": "incomplete", "incomplete_details": {"reason": "max_output_tokens"}},
                {"usage": {"input_tokens": 0, "output_tokens": 0}}, {"usage": {"output_tokens": 10 ** 9}}, {"continue": True}, {"done": False},
                {"done_reason": "length"}, {"stop_reason": "max_tokens", "finish_reason": "length", "truncated": True, "retry": True, "done": False}]
META = [("stub", 1, 0.0), ("", 0, 0.0), ("m", -1, -1.0), ("gpt", 10 ** 12, float("inf")), ("claude", 1024, float("nan")), (None, None, None)]


def tool_programs_with_meta():
    progs = tool_programs()
    for i in range(1, len(RAW_PAYLOADS)):
        progs.append({"calls_per_round": [1], "forever": True, "raw": i, "meta": i % len(META)})
        progs.append({"calls_per_round": [2, 1], "forever": True, "raw": i, "unknown_tool": i % 2 == 0, "raising_tool": i % 3 == 0})
    return progs


TOOL_PROGS = tool_programs_with_meta()

SWEEP = ([("heal", m, i) for m in LIMITS for i in range(len(HEAL_PROGS))]
         + [("swarm", (r, s), i) for r in LIMITS for s in LIMITS for i in range(len(SWARM_PROGS))]
         + [("tool", m, i) for m in LIMITS for i in range(len(TOOL_PROGS))])


LONG = ["tool", "heal", "swarm"]          # cases len(SWEEP)+0..2: one long-history session each


def special(n, tier):
    """the cases that are not plain seeded programs / sessions"""
    k = n - len(SWEEP)
    if k < 0:
        return None
    if k < len(LONG):
        return "long"
    if k == len(LONG):
        return "python-O"
    if k == len(LONG) + 1:
        return "api-coverage"
    if n % (1500 if tier == "quick" else 20000) == 7:
        return "threads"
    if n % 89 == 3:
        return "protocols"
    if n % 211 == 5:
        return "address-reuse"
    return None


def plan(tier):
    extra = 26000 if tier == "quick" else 400000
    return {"cases": len(SWEEP) + extra, "shards": 8 if tier == "quick" else 14,
            "min_nontrivial": 200, "timeout": 600 if tier == "quick" else 2400,
            "require": {"generator_calls": 1000, "worker_steps": 1000, "provider_tool_rounds": 300,
                        "degraded_results": 20, "healed_results": 20, "swarm_success": 20,
                        "tool_loop_exhausted": 20, "heal_runs_with_stock_chaperone": 500, "echoed_outputs_checked": 200,
                        "reentrant_tool_loops": 100, "thread_schedules": 1000, "prior_loops_on_namesake_schema": 300,
                        # round-3 monitors
                        "sessions": 500, "session_heal_calls": 500, "session_swarm_calls": 500, "session_tool_calls": 500,
                        "sessions_alternating_instances": 100, "nested_calls": 100, "verbose_calls": 1000, "reads_done": 1000,
                        "differential_runs": 200, "calls_after_a_raise": 50, "hook_raises": 20, "maintenance_calls": 100,
                        "reconfigured_between_calls": 100, "seam_outputs": 500, "blank_final_completions": 100,
                        "long_history_sessions": 1, "long_history_operations": 10000,
                        "sessions_under_virtual_clock": 300, "nuclei_sharing_objects": 50,
                        # round-4 monitors
                        "nonstr_generator_outputs": 300, "nonstr_worker_outputs": 300, "results_judged_after_nonstr_output": 50,
                        "settings_changed_mid_call": 50, "duplicates_made": 100, "protocol_sessions": 30, "protocol_calls_judged": 100,
                        "protocol_duplicates:pickle": 10, "protocol_duplicates:deepcopy": 5, "protocol_duplicates:copy": 5,
                        "address_reuse_sessions": 10, "short_lived_requests": 50, "optimized_interpreter_cases": 100,
                        "sessions_in_foreign_time_zone": 50, "sessions_with_clock_set_back": 50, "strict_stream_cases": 1000,
                        "library_mock_provider_rounds": 20, "public_names_driven": 10}}


def run_case(ctx, n):
    strict = n % 3 == 1            # a third of the cases print (when verbose) to a strict UTF-8 stream
    S.use_strict_sink(strict)
    if strict:
        ctx.count("strict_stream_cases")
    if n < len(SWEEP):
        kind, lim, i = SWEEP[n]
        if kind == "heal":
            case_heal(ctx, lim, HEAL_PROGS[i], 0.1)
            case_heal(ctx, lim, HEAL_PROGS[i], 0.1, plain=True, prior_twin=True)
            case_heal(ctx, lim, HEAL_PROGS[i], 0.1, silent=False)
            return case_heal(ctx, lim, HEAL_PROGS[i], 0.1, plain=True, silent=False)
        if kind == "swarm":
            case_swarm(ctx, lim[0], lim[1], SWARM_PROGS[i], 0.9)
            return case_swarm(ctx, lim[0], lim[1], SWARM_PROGS[i], 2 / 3, silent=False, step_timeout=0.0)
        case_tool(ctx, lim, TOOL_PROGS[i])
        return case_tool(ctx, lim, TOOL_PROGS[i], silent=False)
    rng = ctx.rng(n)
    sp = special(n, ctx.tier)
    if sp == "long":
        return S.case_long(ctx, rng, LONG[n - len(SWEEP)], 20000 if ctx.tier == "quick" else 60000)
    if sp == "python-O":
        return R4.case_optimized(ctx)
    if sp == "api-coverage":
        return R4.case_api_coverage(ctx)
    if sp == "threads":
        return case_tool_threads(ctx, n, rng)
    if sp == "protocols":
        return R4.case_protocols(ctx, rng)
    if sp == "address-reuse":
        return R4.case_address_reuse(ctx, rng)
    kind = rng.choice(["heal", "swarm", "tool", "heal", "swarm", "tool", "heal-session", "swarm-session", "tool-session"])
    if kind.endswith("-session"):
        return S.case_session(ctx, rng, kind)
    if kind == "heal":
        toks = list(OUTPUTS) + ["echo", "grow", "raise", "verbose", "verbose_json", "same", "fresh", "blank", "braces"]
        prog = [rng.choice(toks) for _ in range(rng.randint(1, 7))]
        if rng.random() < 0.25:
            prog[rng.randrange(len(prog))] = rng.choice(S.OBJ_TOKENS + ["surrogate"])
        if rng.random() < 0.5:
            prog = [t if t not in ("valid", "fenced") else "missing" for t in prog[:-1]] + [prog[-1]]
        if rng.random() < 0.25:
            prog = prog + ["twin_valid"]
        return case_heal(ctx, rng.randint(0, 6), prog, rng.choice([0.0, 0.1, 0.5, 1.0]), plain=rng.random() < 0.5, prior_twin=rng.random() < 0.4,
                         silent=rng.random() < 0.6)
    if kind == "swarm":
        prog = {"worker": rng.choice(["unique", "repeat", "empty", "two_cycle", "near"] + S.WORKER_KINDS + S.OBJ_WORKERS), "marker_at": None,
                "memory": rng.choice(["full", "full", "none", "window2", "prefilled"]), "obj_from": rng.randint(0, 3)}
        if rng.random() < 0.3:
            prog["task"] = rng.choice(S.TASKS)
        if rng.random() < 0.15:
            prog["hints"] = "marker"
        if rng.random() < 0.15:
            prog["shared_worker"] = True
        if rng.random() < 0.6:
            prog["marker_at"] = (rng.randint(0, 5), rng.randint(0, 6))
            prog["marker"] = rng.choice(["SUCCESS", "done", "abcCOMPLETEd", "solved", "Finished."])
        if rng.random() < 0.1:
            prog["raise_step"] = rng.choice([(rng.randint(0, 3), rng.randint(0, 4)), "last"])
        if rng.random() < 0.06:
            prog["raise_factory"] = rng.choice([rng.randint(0, 3), "last"])
        if rng.random() < 0.06:
            prog["raise_summarizer"] = rng.choice([rng.randint(0, 2), "last"])
        return case_swarm(ctx, rng.randint(0, 5), rng.randint(0, 6), prog, rng.choice([0.0, 0.5, 0.9, 1.0, 2 / 3, 1 / 3, 0.67]),
                          silent=rng.random() < 0.6, step_timeout=rng.choice(S.STEP_TIMEOUTS))
    prog = {"calls_per_round": [rng.randint(0, 4) for _ in range(rng.randint(1, 5))], "forever": rng.random() < 0.6}
    for flag, p in [("unknown_tool", .15), ("raising_tool", .15), ("same_ids", .1), ("no_cwt", .05), ("no_tools", .05), ("reentrant_tool", .15)]:
        if rng.random() < p:
            prog[flag] = True
    if rng.random() < 0.15:
        prog["auto_execute"] = False
    if rng.random() < 0.1:
        prog["provider_raises_round"] = rng.choice([rng.randint(1, 4), "last"])
    if rng.random() < 0.12:
        prog["container"] = rng.choice(["tuple", "iter", "none-when-empty"])
    if rng.random() < 0.08:
        prog["duck_calls"] = True
    if rng.random() < 0.08:
        prog["hostile_names"] = True
    if rng.random() < 0.3:
        prog["raw"] = rng.randrange(1, len(RAW_PAYLOADS))
    if rng.random() < 0.1:
        prog["meta"] = rng.randrange(len(META))
    if rng.random() < 0.4:
        prog["final"] = rng.choice(list(S.TEXTS))
    if rng.random() < 0.3:
        prog["round_text"] = rng.choice(list(S.TEXTS))
    r = rng.random()
    if r < 0.1 and not (prog.get("unknown_tool") or prog.get("same_ids")):
        prog["const"] = True
    if rng.random() < 0.08:
        prog["final_raises"] = True
    return case_tool(ctx, rng.randint(0, 6), prog, silent=rng.random() < 0.6)


# ------------------------------------------------------------------ healing loop
def case_heal(ctx, max_retries, prog, decay, plain=False, prior_twin=False, schema=None, silent=True):
    with S.quiet():
        return _case_heal(ctx, max_retries, prog, decay, plain, prior_twin, silent)


def _case_heal(ctx, max_retries, prog, decay, plain, prior_twin, silent):
    from operon_ai.healing.chaperone_loop import ChaperoneLoop, HealingOutcome
    from operon_ai.organelles.chaperone import Chaperone

    calls = []        # (prompt, error_context)
    outs = []
    flags = {"nonstr": False}

    def generator(prompt, error_context=None):
        k = len(calls)
        calls.append((prompt, error_context))
        ctx.count("generator_calls")
        if k > max_retries + HARD_CAP:
            raise Runaway("generator called %d times" % (k + 1))
        tok = prog[k] if k < len(prog) else prog[-1] if len(prog) == 1 else prog[k % len(prog)]
        if tok == "raise":
            outs.append(None)
            raise inject(ctx, 0, "generator failed at attempt %d" % k)
        o = OUTPUTS[tok] if tok in OUTPUTS else S.heal_output(None, k, tok, error_context, Item)
        if not isinstance(o, str):
            ctx.count("nonstr_generator_outputs")
            flags["nonstr"] = True
        outs.append(o)
        return o

    traces = []   # error trace handed to the loop for each fold, made unique per attempt by the wrapper

    class TaggingChaperone(Chaperone):
        """Real validator; only makes each failure's error trace unique so threading is observable."""

        def fold_enhanced(self, raw, schema, *a, **kw):
            r = super().fold_enhanced(raw, schema, *a, **kw)
            if not r.valid:
                r.error_trace = "%s [trace#%d:%s]" % (r.error_trace or "Unknown folding error", len(traces), core.fp_digest(raw))
            traces.append(r.error_trace)
            return r

    if prior_twin:
        # an earlier, unrelated healing loop in the same process: other schema of the same NAME, for which some of this program's
        # outputs are valid; nothing it accepted may make this loop accept a structure that is not an Item
        ctx.count("prior_loops_on_namesake_schema")
        texts = [OUTPUTS[t] for t in prog if t in OUTPUTS] + ['{"sku": 7, "tags": ["a"]}']
        it = iter(texts + texts)
        prior = ChaperoneLoop(generator=lambda p_, e_=None: next(it, "{}"), chaperone=Chaperone(silent=True), schema=TwinItem,
                              max_retries=len(texts), silent=True)
        try:
            prior.heal("make an item")
            first = ChaperoneLoop(generator=lambda p_, e_=None: VALID, chaperone=Chaperone(silent=True), schema=Item, max_retries=0, silent=True)
            first.heal("make an item")      # and a loop of THIS schema that accepted the valid text before
        except Exception:
            pass
    if plain:
        ctx.count("heal_runs_with_stock_chaperone")
    if not silent:
        ctx.count("verbose_calls")
    loop = ChaperoneLoop(generator=generator, chaperone=(Chaperone(silent=silent) if plain else TaggingChaperone(silent=silent)), schema=Item,
                         max_retries=max_retries, confidence_decay=decay, silent=silent)
    desc = {"loop": "heal", "max_retries": max_retries, "program": prog, "decay": decay, "silent": silent}
    raised = None
    result = None
    try:
        result = loop.heal("make an item")
    except Runaway as e:
        S.viol(ctx, "heal-call-budget", "healing loop ran away: %s with max_retries=%d" % (e, max_retries), desc)
        return
    except Exception as e:
        if any(e is x for x in _INJECTED[-50:]):
            raised = e
        elif flags["nonstr"]:
            # the Generator protocol promises text: a loop that raises by itself on another type is not judged beyond its call budget
            ctx.count("own_raise_on_nonstr_output")
            raised = e
        else:
            S.viol(ctx, "heal-raises", "heal() raised %s on its own" % type(e).__name__, dict(desc, error=repr(e)))
            return
    ncalls = len(calls)
    desc["generator_calls"] = ncalls
    if ncalls > max_retries + 1:
        S.viol(ctx, "heal-call-budget", "generator called %d times with max_retries=%d" % (ncalls, max_retries), desc)
    # error-context threading, judged at the generator (independent fresh validator computes the expected trace)
    if calls and calls[0][1] is not None:
        S.viol(ctx, "heal-first-context", "first generator call received an error context", dict(desc, ctx0=calls[0][1]))
    # stale feedback: if this implementation echoes the previous attempt's output in the context (observed on retry 1), then a later
    # retry must echo ITS previous attempt's output, not an older one
    def marker(o):
        return o[:40] if isinstance(o, str) and len(o.strip()) >= 8 else None
    echoes = ncalls >= 2 and marker(outs[0]) is not None and calls[1][1] is not None and marker(outs[0]) in calls[1][1]
    if echoes:
        for k in range(2, ncalls):
            mk, older = marker(outs[k - 1]), [marker(o) for o in outs[:k - 1]]
            if mk is None or calls[k][1] is None:
                continue
            ctx.count("echoed_outputs_checked")
            if mk not in calls[k][1] and any(m and m != mk and m in calls[k][1] for m in older):
                S.viol(ctx, "heal-context-stale-output", "retry %d was fed the context of an older attempt (it echoes an older output, not attempt %d's)" % (k, k - 1),
                              dict(desc, attempt=k, context=calls[k][1], previous_output=outs[k - 1]))
                break
    for k in range(1, ncalls):
        got = calls[k][1]
        if plain:
            break
        exp_trace = traces[k - 1] if k - 1 < len(traces) and traces[k - 1] else "<no fold recorded for attempt %d>" % (k - 1)
        ctx.count("retry_contexts_checked")
        if got is None or exp_trace not in got:
            S.viol(ctx, "heal-context-threading",
                          "retry %d was not given the error of attempt %d" % (k, k - 1),
                          dict(desc, attempt=k, context=got, expected_to_contain=exp_trace))
            break
    for k, (p, _) in enumerate(calls):
        if p != "make an item":
            S.viol(ctx, "heal-prompt", "generator received a different prompt", dict(desc, prompt=p))
            break
    if raised is not None:
        ctx.count("heal_generator_raised")
        ctx.nontrivial(("heal-raise", max_retries, tuple(prog), ncalls))
        return
    valid = result.outcome in (HealingOutcome.VALID_FIRST_TRY, HealingOutcome.HEALED)
    desc["outcome"] = result.outcome.value
    if valid:
        ctx.count("healed_results")
        s = result.structure
        if flags["nonstr"]:
            ctx.count("results_judged_after_nonstr_output")
        if not S.schema_valid(s, Item) or result.folded is None or not result.folded.valid:
            S.viol(ctx, "heal-valid-without-structure", "outcome %s with a structure that is not a valid Item: %r" % (
                result.outcome.value, s), desc)
        if not result.valid:
            S.viol(ctx, "heal-valid-property", "result.valid is false for outcome %s" % result.outcome.value, desc)
        if (result.outcome == HealingOutcome.VALID_FIRST_TRY) != (ncalls == 1):
            S.viol(ctx, "heal-outcome-label", "outcome %s after %d generator calls" % (result.outcome.value, ncalls), desc)
        if result.ubiquitin_tagged:
            S.viol(ctx, "heal-valid-tagged", "valid result carries the degradation tag", desc)
        if not (0.0 <= result.final_confidence <= 1.0):
            S.viol(ctx, "heal-confidence-range", "final_confidence %r" % result.final_confidence, desc)
    else:
        ctx.count("degraded_results")
        if result.outcome != HealingOutcome.DEGRADED:
            S.viol(ctx, "heal-unknown-outcome", "outcome %r" % (result.outcome,), desc)
        if not result.ubiquitin_tagged or result.final_confidence != 0 or result.structure is not None \
                or (result.folded is not None and result.folded.valid) or result.valid:
            S.viol(ctx, "heal-degraded-shape", "DEGRADED result tagged=%r confidence=%r structure=%r" % (
                result.ubiquitin_tagged, result.final_confidence, result.structure), desc)
    if len(result.attempts) != ncalls:
        S.viol(ctx, "heal-attempt-log", "%d attempts logged for %d generator calls" % (len(result.attempts), ncalls), desc)
    if ncalls >= 2:
        ctx.nontrivial(("heal", max_retries, tuple(prog), result.outcome.value, ncalls))
    ctx.sample(desc)


# ------------------------------------------------------------------ swarm
NEAR = ["succes", "DON E", "finish", "solv ed", "complet"]
CONSTANT_OUTPUT = "still the very same string object"


def case_swarm(ctx, max_regen, max_steps, prog, threshold, silent=True, step_timeout=None):
    with S.quiet():
        return _case_swarm(ctx, max_regen, max_steps, prog, threshold, silent, step_timeout)


def _case_swarm(ctx, max_regen, max_steps, prog, threshold, silent, step_timeout):
    from operon_ai.healing.regenerative_swarm import RegenerativeSwarm, WorkerMemory
    task_text = prog.get("task", "task")

    factory_calls = []
    steps = {}          # worker index -> outputs
    summarizer_calls = []
    pool = []
    flags = {"nonstr": False}
    # "last": the failure is placed exactly at the last step / spawn / summary the budget allows
    raise_step = (max_regen, max_steps - 1) if prog.get("raise_step") == "last" else prog.get("raise_step")
    raise_factory = max_regen if prog.get("raise_factory") == "last" else prog.get("raise_factory")
    raise_summarizer = max(max_regen - 1, 0) if prog.get("raise_summarizer") == "last" else prog.get("raise_summarizer")

    class W:
        def __init__(self, wid, idx):
            self.id = wid
            self.idx = idx
            self.memory = WorkerMemory()

        def step(self, task):
            k = len(steps[self.idx])
            ctx.count("worker_steps")
            if k > max_steps + HARD_CAP:
                raise Runaway("worker %d stepped %d times" % (self.idx, k + 1))
            if raise_step == (self.idx, k):
                steps[self.idx].append(None)
                raise inject(ctx, 1, "worker step failed")
            if prog.get("marker_at") == (self.idx, k):
                o = "result %d: %s" % (k, prog["marker"])
            else:
                kind = prog["worker"]
                if kind == "unique":
                    o = "thinking %d-%d" % (self.idx, k)
                elif kind == "repeat":
                    o = "stuck"
                elif kind == "empty":
                    o = ""
                elif kind == "two_cycle":
                    o = "ab"[k % 2]
                elif kind == "long":
                    o = ("no progress at step %d-%d; " % (self.idx, k)) * 200
                elif kind == "constant-object":
                    o = CONSTANT_OUTPUT
                elif kind.startswith("seam"):
                    ctx.count("seam_outputs")
                    o = S.seam_output(kind, self.idx, k)
                elif kind == "hostile":
                    o = "%s #%d-%d" % (S.HOSTILE[(self.idx + k) % 5], self.idx, k)
                elif kind in S.OBJ_WORKERS:
                    o = S.obj_worker_output(kind, self.idx, k, prog.get("obj_from", 0))
                    if o is None or S.nonstr(o):
                        ctx.count("nonstr_worker_outputs")
                        flags["nonstr"] = True
                else:
                    o = NEAR[k % len(NEAR)] + " %d" % k
            steps[self.idx].append(o)
            mem = prog.get("memory", "full")      # how this (protocol-compliant) worker keeps its own memory
            if mem == "full":
                self.memory.add_attempt(task, o)
            elif mem == "window2":
                self.memory.add_attempt(task, o)
                del self.memory.task_history[:-2]
                del self.memory.output_history[:-2]
            elif mem == "prefilled" and k == 0:
                for _ in range(3):
                    self.memory.add_attempt("earlier life", "x")
            return o

    def factory(name, hints):
        idx = len(factory_calls)
        factory_calls.append((name, list(hints)))
        ctx.count("factory_calls")
        if idx > max_regen + HARD_CAP:
            raise Runaway("factory called %d times" % (idx + 1))
        if raise_factory == idx:
            raise inject(ctx, 2, "factory failed")
        steps[idx] = []
        if prog.get("shared_worker"):
            # a pooled agent: the SAME worker object is handed out for every spawn; steps are attributed to the current spawn
            if not pool:
                pool.append(W(name, idx))
            pool[0].id, pool[0].idx = name, idx
            return pool[0]
        return W(name, idx)

    def summarizer(mem):
        i = len(summarizer_calls)
        summarizer_calls.append(i)
        if raise_summarizer == i:
            raise inject(ctx, 3, "summarizer failed")
        if prog.get("hints") == "marker":
            return ["the previous worker was nearly DONE", "SUCCESS is close", "hint %d" % i]
        return ["hint %d" % i]

    kw = {}
    if step_timeout is not None:
        from datetime import timedelta
        kw["step_timeout"] = timedelta(seconds=step_timeout)
    if not silent:
        ctx.count("verbose_calls")
    swarm = RegenerativeSwarm(worker_factory=factory, summarizer=summarizer, entropy_threshold=threshold,
                              max_steps_per_worker=max_steps, max_regenerations=max_regen, silent=silent, **kw)
    desc = {"loop": "swarm", "max_regenerations": max_regen, "max_steps_per_worker": max_steps,
            "program": prog, "entropy_threshold": threshold, "silent": silent, "step_timeout": step_timeout}
    result = None
    raised = False
    try:
        result = swarm.supervise(task_text)
    except Runaway as e:
        mech = "swarm-step-budget" if "stepped" in str(e) else "swarm-spawn-budget"
        S.viol(ctx, mech, "swarm ran away: %s (max_regenerations=%d, max_steps_per_worker=%d)" % (e, max_regen, max_steps), desc)
        return
    except Exception as e:
        if any(e is x for x in _INJECTED[-50:]):
            raised = True
        elif flags["nonstr"]:
            # the Worker protocol promises text: a swarm that raises by itself on another type is not judged beyond its budgets
            ctx.count("own_raise_on_nonstr_output")
            raised = True
        else:
            S.viol(ctx, "swarm-raises", "supervise() raised %s on its own" % type(e).__name__, dict(desc, error=repr(e)))
            return
    desc["factory_calls"] = len(factory_calls)
    desc["steps_per_worker"] = {k: len(v) for k, v in steps.items()}
    if len(factory_calls) > max_regen + 1:
        S.viol(ctx, "swarm-spawn-budget", "factory called %d times with max_regenerations=%d" % (
            len(factory_calls), max_regen), desc)
    for idx, outs in steps.items():
        if len(outs) > max_steps:
            S.viol(ctx, "swarm-step-budget", "worker %d stepped %d times with max_steps_per_worker=%d" % (
                idx, len(outs), max_steps), desc)
            break
    if raised:
        ctx.count("swarm_stub_raised")
        ctx.nontrivial(("swarm-raise", max_regen, max_steps, repr(prog)))
        return
    if flags["nonstr"]:
        ctx.count("results_judged_after_nonstr_output")
    if result.success:
        ctx.count("swarm_success")
        out = result.output
        produced = [o for outs in steps.values() for o in outs if isinstance(o, str)]
        carries = isinstance(out, str) and any(m in out.upper() for m in MARKERS)
        if not carries or out not in produced:
            S.viol(ctx, "swarm-success-without-marker", "success reported for output %r" % (out,), desc)
    else:
        ctx.count("swarm_failure")
        if result.output is not None and not (isinstance(result.output, str) and any(m in result.output.upper() for m in MARKERS)):
            S.viol(ctx, "swarm-failure-output", "failure released an output %r" % (result.output,), desc)
    if result.total_workers_spawned != len(factory_calls):
        S.viol(ctx, "swarm-spawn-count", "reports %d workers, factory saw %d" % (
            result.total_workers_spawned, len(factory_calls)), desc)
    if len(factory_calls) >= 2 or sum(len(v) for v in steps.values()) >= 2:
        ctx.nontrivial(("swarm", max_regen, max_steps, repr(prog), threshold, result.success, len(factory_calls)))
    ctx.sample(desc)


# ------------------------------------------------------------------ tool loop
def case_tool(ctx, max_iter, prog, silent=True):
    with S.quiet():
        return _case_tool(ctx, max_iter, prog, silent)


def _case_tool(ctx, max_iter, prog, silent):
    from operon_ai.organelles.nucleus import Nucleus
    from operon_ai.organelles.mitochondria import Mitochondria
    from operon_ai.providers import LLMResponse, ToolCall

    log = {"cwt": 0, "complete": 0, "tool_runs": 0, "requested": 0, "prompts": []}
    const = {}
    probe_name = "a.*b(c)[d]{0}%s\nprobe\x00" if prog.get("hostile_names") else "probe"

    def resp(text):
        model, tokens, latency = META[prog.get("meta", 0)]
        raw = RAW_PAYLOADS[prog.get("raw", 0)]
        if raw is not None:
            ctx.count("responses_with_provider_metadata")
        return LLMResponse(content=text, model=model, tokens_used=tokens, latency_ms=latency, raw_response=None if raw is None else dict(raw))

    def final():
        log["complete"] += 1
        ctx.count("provider_complete")
        if log["complete"] > 1 + HARD_CAP:
            raise Runaway("plain completion called %d times" % log["complete"])
        if prog.get("final_raises"):
            raise inject(ctx, 7, "final completion failed")
        text = S.TEXTS[prog.get("final", "final")]
        if not text.strip():
            ctx.count("blank_final_completions")
        if prog.get("const"):
            return const.setdefault("final", resp(text))
        return resp(text)

    class Provider:
        name = "stub"

        def is_available(self):
            return True

        def complete(self, prompt, config=None):
            return final()

        def complete_with_tools(self, prompt, tools=None, config=None):
            if prompt.startswith("sub-question"):
                log["sub_cwt"] = log.get("sub_cwt", 0) + 1
                if log["sub_cwt"] > HARD_CAP:
                    raise Runaway("nested tool loop ran %d rounds" % log["sub_cwt"])
                return resp("sub answer"), []
            log["cwt"] += 1
            ctx.count("provider_tool_rounds")
            r = log["cwt"]
            if r > max_iter + HARD_CAP:
                raise Runaway("complete_with_tools called %d times" % r)
            log["prompts"].append(len(prompt))
            if (max_iter if prog.get("provider_raises_round") == "last" else prog.get("provider_raises_round")) == r:
                raise inject(ctx, 4, "provider failed in round %d" % r)
            cpr = prog["calls_per_round"]
            if r <= len(cpr):
                ncalls = cpr[r - 1]
            elif prog["forever"]:
                ncalls = cpr[-1]
            else:
                ncalls = 0
            text = S.TEXTS[prog["round_text"]] if "round_text" in prog else "round %d" % r
            if prog.get("const"):
                # the very same response object, list object and (repeated) call object in every round
                if ncalls not in const:
                    const[ncalls] = (resp(text), [ToolCall(id="k", name=probe_name, arguments={"x": 1})] * ncalls)
                log["requested"] += ncalls
                return const[ncalls]
            calls = []
            for j in range(ncalls):
                name = "missing_tool" if prog.get("unknown_tool") and j == 0 else probe_name
                cid = "same" if prog.get("same_ids") else S.HOSTILE[(r + j) % len(S.HOSTILE)] if prog.get("hostile_names") else "c%d_%d" % (r, j)
                if prog.get("duck_calls"):
                    calls.append(types.SimpleNamespace(id=cid, name=name, arguments=types.MappingProxyType({"x": j}), success=True, output="DONE"))
                else:
                    calls.append(ToolCall(id=cid, name=name, arguments={"x": j}))
                if name == probe_name:
                    log["requested"] += 1
            box = prog.get("container")
            if box == "tuple":
                calls = tuple(calls)
            elif box == "iter":
                calls = iter(calls)
            elif box == "none-when-empty" and not calls:
                calls = None
            return resp(text), calls

    class ProviderNoTools:
        name = "stub-plain"

        def is_available(self):
            return True

        def complete(self, prompt, config=None):
            return final()

    def probe(x=0):
        log["tool_runs"] += 1
        ctx.count("tool_runs")
        if prog.get("raising_tool"):
            raise inject(ctx, 5, "tool failed")
        if prog.get("reentrant_tool"):
            # a "sub-agent" tool: runs its own (short) tool loop on the same nucleus while the outer one is in progress
            ctx.count("reentrant_tool_loops")
            nucleus.transcribe_with_tools("sub-question %d" % log["tool_runs"], mito, max_iterations=1)
        return x * 2

    if not silent:
        ctx.count("verbose_calls")
    mito = Mitochondria(silent=silent)
    if not prog.get("no_tools"):
        mito.register_function(probe_name, probe, "probe tool {0} 100% %s" if prog.get("hostile_names") else "probe tool")
    provider = ProviderNoTools() if prog.get("no_cwt") else Provider()
    nucleus = Nucleus(provider=provider)
    auto = prog.get("auto_execute", True)
    desc = {"loop": "tool", "max_iterations": max_iter, "program": prog, "silent": silent}
    raised = False
    try:
        r = nucleus.transcribe_with_tools("question", mito, max_iterations=max_iter, auto_execute=auto)
    except Runaway as e:
        S.viol(ctx, "tool-round-budget", "tool loop ran away: %s with max_iterations=%d" % (e, max_iter), desc)
        return
    except Exception as e:
        if not any(e is x for x in _INJECTED[-50:]):
            S.viol(ctx, "tool-loop-raises", "transcribe_with_tools raised %s on its own" % type(e).__name__, dict(desc, error=repr(e)))
            return
        raised = True
    desc.update(cwt=log["cwt"], complete=log["complete"], tool_runs=log["tool_runs"])
    if log["cwt"] > max_iter:
        S.viol(ctx, "tool-round-budget", "complete_with_tools called %d times with max_iterations=%d" % (
            log["cwt"], max_iter), desc)
    if log["complete"] > 1:
        S.viol(ctx, "tool-final-completion:after-error" if prog.get("final_raises") else "tool-final-completion",
               "plain completion called %d times" % log["complete"], desc)
    if log["tool_runs"] > log["requested"]:
        S.viol(ctx, "tool-executed-more-than-requested", "tool body ran %d times for %d requested calls" % (
            log["tool_runs"], log["requested"]), desc)
    if not auto and log["tool_runs"]:
        S.viol(ctx, "tool-auto-execute-off", "tool ran although auto_execute=False", desc)
    if not raised:
        if log["cwt"] == max_iter and log["complete"] == 1 and max_iter > 0:
            ctx.count("tool_loop_exhausted")
        if not isinstance(r, LLMResponse):
            S.viol(ctx, "tool-return-type", "returned %r" % (r,), desc)
    if log["cwt"] >= 2 or (log["cwt"] >= 1 and log["tool_runs"] >= 1):
        ctx.nontrivial(("tool", max_iter, json.dumps(prog, sort_keys=True), log["cwt"], log["complete"], log["tool_runs"]))
    ctx.sample(desc)


def case_tool_threads(ctx, n, rng):
    """two threads run tool loops on ONE shared Nucleus under the line-level scheduler; each loop's own budget must hold"""
    from operon_ai.organelles.nucleus import Nucleus
    from operon_ai.organelles.mitochondria import Mitochondria
    from operon_ai.providers import LLMResponse, ToolCall
    limits = [rng.randint(1, 3), rng.randint(1, 3)]
    desc = {"loop": "tool-threads", "max_iterations": limits}

    class Provider:
        name = "stub"

        def __init__(self):
            self.rounds = {}
            self.finals = {}

        def is_available(self):
            return True

        def complete(self, prompt, config=None):
            q = prompt.split("|")[0]
            self.finals[q] = self.finals.get(q, 0) + 1
            return LLMResponse(content="final", model="m", tokens_used=1, latency_ms=0.0)

        def complete_with_tools(self, prompt, tools=None, config=None):
            q = prompt.split("|")[0]
            self.rounds[q] = self.rounds.get(q, 0) + 1
            if self.rounds[q] > 3 + HARD_CAP:
                raise Runaway("loop %s ran %d rounds" % (q, self.rounds[q]))
            return LLMResponse(content="r", model="m", tokens_used=1, latency_ms=0.0), [ToolCall(id="c", name="probe", arguments={})]

    sched.instrument(Nucleus, Provider)

    def one(policy, label):
        prov = Provider()
        nucleus = Nucleus(provider=prov)
        mito = Mitochondria(silent=True)
        mito.register_function("probe", lambda: 1, "probe")
        sc = sched.Scheduler(policy, watchdog_s=30.0)
        sc.run([(lambda i=i: nucleus.transcribe_with_tools("q%d|" % i, mito, max_iterations=limits[i])) for i in range(2)])
        ctx.count("thread_schedules")
        w = dict(desc, policy=label, rounds=dict(prov.rounds), finals=dict(prov.finals), choices=sc.choices[:200])
        if sc.stuck:
            ctx.inconclusive("a schedule hit the wall-clock watchdog (not a verdict)")
            return sc
        for i in range(2):
            e = sc.errors[i]
            if isinstance(e, Runaway) or prov.rounds.get("q%d" % i, 0) > limits[i] or prov.finals.get("q%d" % i, 0) > 1:
                S.viol(ctx, "tool-round-budget:concurrent", "loop q%d did %d tool rounds / %d final completions with max_iterations=%d while another loop ran on the same nucleus" % (
                    i, prov.rounds.get("q%d" % i, 0), prov.finals.get("q%d" % i, 0), limits[i]), w)
                break
        if sc.switch_while_other_inside:
            ctx.nontrivial(("tool-threads", sc.trace_hash()))
        return sc

    base = one(sched.PreemptionPolicy({}), "pb(0)")
    N = max(base.step, 1)
    combos = [(s_, t) for s_ in range(1, N + 1) for t in range(2)]
    if len(combos) > 150:
        combos = rng.sample(combos, 150)
    for (s_, t) in combos:
        one(sched.PreemptionPolicy({s_: t}), "pb(1)")
    for i in range(50):
        one(sched.RandomPolicy(rng, (0.1, 0.3, 0.6)[i % 3]), "random")


if __name__ == "__main__":
    core.main(sys.modules[__name__])
