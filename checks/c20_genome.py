"""C20 — immutable configuration: values change only through authorised, logged mutations.

Monitors (all observe executions of the real operon_ai.state.genome.Genome):
  1. history + reference model: every operation on any member of a lineage (root genome and all
     descendants) is bracketed by snapshots (export(), get_hash(), get_gene(n).value, get_value,
     get_statistics()) of EVERY member; the model holds the authorised value per gene, the
     expression levels and the approved-mutation log (for the rollback target);
  2. approval-callback stubs that record every (gene, new value, decision) they are asked about, so a
     value change is accepted only if mutations are enabled or the stub approved exactly that change
     during that very call;
  3. aliasing monitor: the workload keeps references to mutable values it handed in (Gene(...),
     mutate, replicate(mutations)) or got back (get_value/express/export/get_gene/list_genes) and
     mutates them in place; any snapshot change of any lineage member is reported under its own
     alias-* mechanism key;
  4. icontract postconditions attached from the harness to the real class ("a call that returns
     False leaves the hash unchanged", "expression/express/replicate leave the own hash unchanged").
"""
import contextlib
import io
import random as _global_random
import sys

from rv import core

PID = "C20"
LEVEL = "exploration"
TECHNIQUE = ("runtime monitoring: before/after snapshots of the whole lineage around every operation, replayed against an "
             "immutable-configuration reference model; recording approval-callback stubs; in-place aliasing probes; "
             "icontract postconditions on the real Genome class")
RULE = ("case = (configuration, history of 1..8 operations over add_gene/mutate/rollback/expression/replicate/express on a "
        "random member of the lineage); first cases are a systematic sweep allow x approval policy x gene type x "
        "expression level with a scripted history. non-trivial = the history contains a refused change attempt and, "
        "when the configuration can authorise anything, an authorised change, or a replication; "
        "distinct = (configuration, op-kind trace, outcome trace)")
ASSUMPTIONS = [
    "approval callbacks return a value and never raise, never re-enter the genome, never edit the Mutation record",
    "gene values are JSON-like (int/float/str/bool/None/list/dict with str keys); no lone surrogates",
    "authorisation of replicate()'s mutations is judged by the parent's settings (which the child inherits)",
    "an authorised mutate() that is not applied is counted, not judged (the statement only restricts unauthorised change)",
    "alias-* snapshot-change mechanisms are judged only for genomes with allow_mutations=False (changes seen on "
    "genomes with mutations enabled are counted); alias-rollback-restores-edited-object is judged for every genome "
    "because the rollback clause of the statement is unconditional",
    "a conditional gene is 'named in the context' when its name is a key of the context dict, whatever the value",
]

TYPES = ["structural", "regulatory", "housekeeping", "conditional", "dormant"]
POLICIES = ["none", "all", "nobody", "subset", "once", "alternate", "gene", "truthy"]
SILENCED = 0

SCRIPT = ["mutate", "mutate", "rollback", "add_existing", "silence", "express", "replicate", "mutate"]
SCRIPT2 = ["mutate", "replicate", "mutate", "rollback", "express", "set_expression", "add_new", "express"]
SWEEP = [(allow, pol, t, lvl, sc) for allow in (False, True) for pol in POLICIES for t in range(5) for lvl in range(5)
         for sc in (0, 1)]


def plan(tier):
    extra = 24000 if tier == "quick" else 800000
    return {"cases": len(SWEEP) + extra, "shards": 8 if tier == "quick" else 14,
            "min_nontrivial": 2000, "timeout": 600 if tier == "quick" else 2400,
            "require": {"ops": 50000, "refused_mutate_logged": 3000, "approved_by_callback": 1000,
                        "refused_readd": 500, "rollback_authorised": 300, "rollback_refused": 100,
                        "replications": 3000, "child_gene_compared": 5000, "express_checked": 3000,
                        "express_conditional_in_ctx": 200, "express_conditional_not_in_ctx": 200,
                        "express_dormant_seen": 200, "express_silenced_seen": 200,
                        "snapshots": 200000, "other_member_snapshots_compared": 20000,
                        "alias_probes": 500, "contract_evaluations": 50000,
                        "callback_calls": 3000}}


# ------------------------------------------------------------------ helpers
def canon(v, d=0):
    """Typed canonical text of a JSON-like value (1, True and 1.0 differ; NaN equals itself)."""
    if d > 8:
        return "<deep>"
    if isinstance(v, dict):
        return "{" + ",".join(sorted(canon(k, d + 1) + ":" + canon(x, d + 1) for k, x in v.items())) + "}"
    if isinstance(v, list):
        return "[" + ",".join(canon(x, d + 1) for x in v) + "]"
    if isinstance(v, tuple):
        return "(" + ",".join(canon(x, d + 1) for x in v) + ")"
    return type(v).__name__ + ":" + repr(v)


def gen_scalar(rng):
    k = rng.randrange(8)
    if k == 0:
        return rng.choice([0, 1, -1, 2, 7, 10, 4096, -300, 10 ** 12])
    if k == 1:
        return rng.choice([0.0, 0.7, -1.5, 1e-9, 3.25, 1e300, float("inf")])
    if k == 2:
        return rng.choice(["", "gpt-4", "x", "claude", "a b", "é中", "{}", "None"])
    if k == 3:
        return rng.choice([True, False])
    if k == 4:
        return None
    if k == 5:
        return rng.randrange(-50, 50)
    if k == 6:
        return round(rng.uniform(-10, 10), 3)
    return "s%d" % rng.randrange(6)


def gen_value(rng, mutable_p=0.35, depth=0):
    if depth < 2 and rng.random() < mutable_p:
        if rng.random() < 0.5:
            return [gen_value(rng, 0.25, depth + 1) for _ in range(rng.randrange(0, 4))]
        return {"k%d" % i: gen_value(rng, 0.25, depth + 1) for i in range(rng.randrange(0, 4))}
    return gen_scalar(rng)


def mutate_in_place(obj, rng):
    """In-place edit that always changes canon(obj); prefers a nested container when there is one."""
    inner = [x for x in (obj.values() if isinstance(obj, dict) else obj) if isinstance(x, (list, dict))]
    if inner and rng.random() < 0.4:
        return mutate_in_place(rng.choice(inner), rng)
    if isinstance(obj, list):
        obj.append("<edited-in-place>")
    else:
        obj["<edited-in-place>"] = 1


class Stub:
    """Recording approval callback."""

    def __init__(self, policy, salt, ctx):
        self.policy, self.salt, self.ctx = policy, salt, ctx
        self.calls = []
        self.n = 0

    def __call__(self, mutation):
        self.n += 1
        self.ctx.count("callback_calls")
        g, nv = mutation.gene_name, canon(mutation.new_value)
        p = self.policy
        if p == "all":
            d = True
        elif p == "nobody":
            d = False
        elif p in ("subset", "truthy"):
            d = core.stable_hash(self.salt, g, nv) % 2 == 0
        elif p == "once":
            d = self.n == 1
        elif p == "alternate":
            d = self.n % 2 == 1
        else:  # "gene"
            d = core.stable_hash(self.salt, g) % 2 == 0
        self.calls.append((g, nv, canon(mutation.original_value), d))
        if p == "truthy":
            k = core.stable_hash(self.salt, self.n) % 3
            return ("yes", 1, [0])[k] if d else (None, 0, "")[k]
        return d


class Node:
    def __init__(self, idx, g, parent, allow, has_cb):
        self.idx, self.g, self.parent, self.allow, self.has_cb = idx, g, parent, allow, has_cb
        self.vals = {}      # name -> canon of the authorised value
        self.types = {}     # name -> gene_type value
        self.levels = {}    # name -> expression level value
        self.log = []       # (gene, canon of value before, approved) ; None = unknown


_MISSING = object()


def snap(ctx, g):
    ctx.count("snapshots")
    ex = g.export()
    st = g.get_statistics()
    names = [d["name"] for d in ex["genes"]]
    levels = {n: e["level"] for n, e in ex["expression"].items()}
    vals = {}
    for n in names:
        gene = g.get_gene(n)
        vals[n] = canon(gene.value) if gene is not None else "<no gene>"
    gv = []
    for n in names:
        v = g.get_value(n, _MISSING)
        gv.append((n, "<default>" if v is _MISSING else canon(v)))
    return {
        "genes": tuple((d["name"], canon(d["value"]), d["gene_type"], d["required"], d["default_expression"],
                        d["description"]) for d in ex["genes"]),
        "levels": tuple(sorted(levels.items())),
        "generation": ex["generation"], "parent_hash": ex["parent_hash"],
        "hash": g.get_hash(), "stat_hash": st["hash"],
        "values": tuple(sorted(vals.items())), "get_value": tuple(gv),
        "log": (st["mutations_count"], st["approved_mutations"]),
    }


def snap_config(s):
    """The part of a snapshot that only authorised operations may change."""
    return (s["genes"], s["hash"], s["stat_hash"], s["values"], s["generation"], s["parent_hash"])


# ------------------------------------------------------------------ contracts
class ContractBroken(BaseException):
    pass


_CONTRACT = {"ctx": None, "installed": None}


def _install_contracts(ctx):
    try:
        import icontract
    except Exception:
        ctx.notes.append("icontract not importable; contract layer skipped")
        return
    from operon_ai.state.genome import Genome
    saved = {}

    def seen():
        c = _CONTRACT["ctx"]
        if c is not None:
            c.count("contract_evaluations")
        return True

    def refused_keeps_hash(self, result, OLD):
        seen()
        return bool(result) or self.get_hash() == OLD.h

    def own_hash_kept(self, OLD):
        seen()
        return self.get_hash() == OLD.h

    def wrap(name, cond, desc):
        orig = Genome.__dict__[name]
        saved[name] = orig
        f = icontract.ensure(cond, description=desc, error=lambda self: ContractBroken(name + ": " + desc))(orig)
        f = icontract.snapshot(lambda self: self.get_hash(), name="h")(f)
        setattr(Genome, name, f)

    for nm in ("add_gene", "mutate", "rollback_mutation"):
        wrap(nm, refused_keeps_hash, "a call returning False leaves get_hash() unchanged")
    for nm in ("set_expression", "express", "replicate"):
        wrap(nm, own_hash_kept, "leaves the genome's own get_hash() unchanged")
    _CONTRACT["installed"] = (Genome, saved)


def setup_shard(ctx):
    _CONTRACT["ctx"] = ctx
    _install_contracts(ctx)


def teardown_shard(ctx):
    inst = _CONTRACT["installed"]
    if inst:
        cls, saved = inst
        for k, v in saved.items():
            setattr(cls, k, v)
    _CONTRACT["installed"] = None
    _CONTRACT["ctx"] = None


# ------------------------------------------------------------------ case driver
def run_case(ctx, n):
    rng = ctx.rng(n)
    if n < len(SWEEP):
        allow, pol, t, lvl, sc = SWEEP[n]
        cfg = {"allow": allow, "policy": pol, "rate": 0.0, "silent": True, "alias": False,
               "genes": [{"name": "g0", "type": TYPES[t], "level": lvl, "required": False, "value": gen_value(rng)},
                         {"name": "g1", "type": TYPES[(t + 1) % 5], "level": (lvl + 2) % 5, "required": True,
                          "value": gen_value(rng)}]}
        kinds = list(SCRIPT if sc == 0 else SCRIPT2)
    else:
        ng = rng.randint(1, 6)
        genes = []
        for i in range(ng):
            name = "g%d" % i
            if i > 0 and rng.random() < 0.06:
                name = "g%d" % rng.randrange(i)          # duplicate name inside the initial gene list
            genes.append({"name": name, "type": rng.choice(TYPES), "level": rng.choice([0, 1, 2, 2, 2, 3, 4]),
                          "required": rng.random() < 0.3, "value": gen_value(rng)})
        cfg = {"allow": rng.random() < 0.3, "policy": rng.choice(POLICIES),
               "rate": rng.choice([0.0, 0.0, 0.0, 1.0, 0.5]), "silent": rng.random() < 0.9,
               "alias": rng.random() < 0.25, "genes": genes}
        kinds = None
    depth = len(kinds) if kinds else rng.randint(1, 8)
    out = io.StringIO()
    try:
        with contextlib.redirect_stdout(out):
            History(ctx, rng, cfg).run(depth, kinds)
    except ContractBroken as e:
        ctx.violation("contract:" + str(e).split(":")[0], "icontract postcondition failed: %s" % e, {"config": cfg})


class History:
    def __init__(self, ctx, rng, cfg):
        self.ctx, self.rng, self.cfg = ctx, rng, cfg
        self.nodes = []
        self.trace = []        # JSON-able op descriptions (the witness)
        self.kinds = []
        self.outcomes = []
        self.kept = []         # (object, route, node idx) references the workload keeps
        self.pool = []         # values used so far (re-used so that subset policies see repeats)
        self.aliased = False   # an in-place edit of a kept reference has happened
        self.stub = None
        self.flags = set()
        self.stop = False

    # -------------------------------------------------------------- utilities
    def witness(self, **kw):
        w = {"config": self.cfg, "history": self.trace}
        w.update(kw)
        return w

    def keep(self, v, route, idx):
        if isinstance(v, (list, dict)):
            self.kept.append((v, route, idx))

    def fresh_value(self):
        r = self.rng.random()
        if self.pool and r < 0.25:
            import copy
            return copy.deepcopy(self.rng.choice(self.pool))
        v = gen_value(self.rng)
        if len(self.pool) < 12:
            import copy
            self.pool.append(copy.deepcopy(v))
        return v

    def snaps(self):
        return [snap(self.ctx, nd.g) for nd in self.nodes]

    def drain(self):
        if self.stub is None:
            return []
        c, self.stub.calls = self.stub.calls, []
        return c

    def real_log(self, g):
        lg = getattr(g, "_mutations", None)
        return lg if isinstance(lg, list) else None

    # -------------------------------------------------------------- construction
    def build(self):
        from operon_ai.state.genome import Genome, Gene, GeneType, ExpressionLevel
        self.Gene, self.GeneType, self.ExpressionLevel, self.Genome = Gene, GeneType, ExpressionLevel, Genome
        cfg = self.cfg
        if cfg["policy"] != "none":
            self.stub = Stub(cfg["policy"], self.rng.getrandbits(32), self.ctx)
        genes = []
        for gd in cfg["genes"]:
            genes.append(self.make_gene(gd["name"], gd["value"], gd["type"], gd["level"], gd["required"], None))
        g = Genome(genes=genes, allow_mutations=cfg["allow"], mutation_rate=cfg["rate"], on_mutation=self.stub,
                   silent=cfg["silent"])
        nd = Node(0, g, None, cfg["allow"], self.stub is not None)
        # model of construction = add_gene semantics applied in order
        for gd in cfg["genes"]:
            if gd["name"] in nd.vals and not cfg["allow"]:
                continue
            nd.vals[gd["name"]] = canon(gd["value"])
            nd.types[gd["name"]] = gd["type"]
            nd.levels[gd["name"]] = gd["level"]
        self.nodes.append(nd)
        self.kept = [(o, r, 0 if i is None else i) for (o, r, i) in self.kept]
        s = snap(self.ctx, g)
        self.compare_model(nd, s, "construct")

    def make_gene(self, name, value, gtype, level, required, idx):
        self.keep(value, "ctor", idx)
        return self.Gene(name=name, value=value, gene_type=self.GeneType(gtype), description="d-" + name,
                         required=required, default_expression=self.ExpressionLevel(level))

    def compare_model(self, nd, s, where):
        """The model's authorised values must be what the genome stores."""
        actual = dict(s["values"])
        if actual != nd.vals:
            diff = {k: (nd.vals.get(k), actual.get(k)) for k in set(actual) | set(nd.vals) if nd.vals.get(k) != actual.get(k)}
            self.ctx.violation("stored-values-differ-from-authorised:" + where,
                               "genome #%d stores values that differ from the authorised ones" % nd.idx,
                               self.witness(member=nd.idx, differences=diff))
            nd.vals = actual
            return False
        exported = {t[0]: t[1] for t in s["genes"]}
        if exported != actual:
            self.ctx.violation("export-differs-from-stored", "export()['genes'] disagrees with get_gene().value",
                               self.witness(member=nd.idx, exported=exported, stored=actual))
        for name, gv in s["get_value"]:
            lvl = dict(s["levels"]).get(name)
            want = "<default>" if lvl == SILENCED else actual[name]
            if gv != want:
                self.ctx.violation("get_value-differs-from-stored", "get_value(%s) returned %s, stored %s (level %r)" % (
                    name, gv, actual[name], lvl), self.witness(member=nd.idx))
        if s["hash"] != s["stat_hash"]:
            self.ctx.violation("statistics-hash", "get_statistics()['hash'] != get_hash()", self.witness(member=nd.idx))
        return True

    # -------------------------------------------------------------- main loop
    def run(self, depth, forced_kinds):
        ctx = self.ctx
        self.build()
        for i in range(depth):
            if self.stop:
                break
            kind = forced_kinds[i] if forced_kinds else self.pick_kind()
            nd = self.rng.choice(self.nodes)
            if forced_kinds and kind == "mutate" and i == len(forced_kinds) - 1 and len(self.nodes) > 1:
                nd = self.nodes[-1]
            ctx.count("ops")
            ctx.count("op:" + kind)
            getattr(self, "op_" + kind)(nd)
        ctx.maxc("lineage_size", len(self.nodes))
        refused = "refused" in self.flags
        can_authorise = self.cfg["allow"] or self.cfg["policy"] not in ("none", "nobody")
        if refused or self.cfg["allow"]:
            if "authorised" in self.flags or not can_authorise or "replicated" in self.flags:
                cfgkey = (self.cfg["allow"], self.cfg["policy"], self.cfg["rate"],
                          tuple((g["name"], g["type"], g["level"], canon(g["value"])) for g in self.cfg["genes"]))
                ctx.nontrivial((cfgkey, tuple(self.kinds), tuple(self.outcomes)))
        ctx.sample({"config": self.cfg, "history": self.trace}, cap=3)

    def pick_kind(self):
        w = [("mutate", 30), ("add_existing", 9), ("add_new", 5), ("rollback", 13), ("set_expression", 6),
             ("silence", 4), ("activate", 3), ("replicate", 12 if len(self.nodes) < 5 else 2), ("express", 10)]
        if self.cfg["alias"]:
            w.append(("alias", 14))
        tot = sum(x for _, x in w)
        r = self.rng.uniform(0, tot)
        for k, x in w:
            r -= x
            if r <= 0:
                return k
        return "mutate"

    def record(self, kind, nd, outcome, **kw):
        self.kinds.append(kind)
        self.outcomes.append(outcome)
        d = {"op": kind, "on": nd.idx, "outcome": outcome}
        d.update(kw)
        self.trace.append(core.jsonable(d))

    # -------------------------------------------------------------- generic frame invariant
    def frame(self, kind, nd, before, after, calls, new_gene=None, meta_may_change=()):
        """Checks that hold for every operation; returns the set of genes of `nd` whose value changed."""
        ctx = self.ctx
        for other in self.nodes:
            if other is nd or other.idx >= len(before):
                continue
            ctx.count("other_member_snapshots_compared")
            b, a = before[other.idx], after[other.idx]
            if a != b:
                what = [k for k in a if a[k] != b[k]]
                mech = "replicate-alters-other-member" if kind == "replicate" else "cross-genome-effect:" + kind
                ctx.violation(mech, "%s on genome #%d changed %s of genome #%d" % (kind, nd.idx, what, other.idx),
                              self.witness(changed=what, before=b, after=a))
        b, a = before[nd.idx], after[nd.idx]
        bv, av = dict(b["values"]), dict(a["values"])
        changed = set()
        for name, old in bv.items():
            if name not in av:
                ctx.violation("gene-disappeared:" + kind, "gene %s vanished" % name, self.witness(member=nd.idx))
                continue
            if av[name] != old:
                changed.add(name)
                ok = nd.allow or any(c[0] == name and c[1] == av[name] and c[3] for c in calls)
                if not ok:
                    ctx.violation("unauthorised-value-change:" + kind,
                                  "%s changed stored value of %s from %s to %s with mutations disabled and no approval "
                                  "of that change" % (kind, name, old, av[name]),
                                  self.witness(member=nd.idx, gene=name, approvals_asked=calls))
        added = [x for x in av if x not in bv]
        if added and added != [new_gene]:
            ctx.violation("unexpected-gene:" + kind, "genes %r appeared" % added, self.witness(member=nd.idx))
        if added and not changed:
            bm = {t[0]: t for t in b["genes"]}
            am = {t[0]: t for t in a["genes"]}
            if any(am.get(x) != bm[x] for x in bm):
                ctx.violation("new-gene-changes-existing", "adding a new gene changed the record of an existing gene",
                              self.witness(member=nd.idx, before=b["genes"], after=a["genes"]))
        if not changed and not added:
            if snap_config(b) != snap_config(a):
                bm = {t[0]: t[2:] for t in b["genes"]}
                am = {t[0]: t[2:] for t in a["genes"]}
                meta = [x for x in bm if bm[x] != am.get(x)]
                if meta and set(meta) <= set(meta_may_change) and nd.allow:
                    pass
                elif a["hash"] != b["hash"] or a["stat_hash"] != b["stat_hash"]:
                    ctx.violation("hash-changed-without-value-change:" + kind,
                                  "get_hash() went %s -> %s although no stored value changed" % (b["hash"], a["hash"]),
                                  self.witness(member=nd.idx))
                else:
                    ctx.violation("config-changed-without-authorisation:" + kind,
                                  "export()/lineage data changed although no value changed",
                                  self.witness(member=nd.idx, before=b, after=a))
        if kind == "replicate" and a != b:
            what = [k for k in a if a[k] != b[k]]
            ctx.violation("replicate-alters-parent", "replicate changed %s of the parent" % what,
                          self.witness(member=nd.idx, before=b, after=a))
        return changed

    # -------------------------------------------------------------- operations
    def pick_gene_name(self, nd, unknown_p=0.08):
        names = list(nd.vals)
        if not names or self.rng.random() < unknown_p:
            return "nope%d" % self.rng.randrange(3)
        return self.rng.choice(names)

    def op_mutate(self, nd):
        ctx = self.ctx
        name = self.pick_gene_name(nd)
        r = self.rng.random()
        if name in nd.vals and r < 0.08:
            new = nd.g.get_gene(name).value          # "mutation" to the identical stored object
            self.keep(new, "gene-object", nd.idx)
        else:
            new = self.fresh_value()
            self.keep(new, "mutate-arg", nd.idx)
        newc = canon(new)
        before = self.snaps()
        ret = nd.g.mutate(name, new, "r")
        after = self.snaps()
        calls = self.drain()
        self.frame("mutate", nd, before, after, calls)
        b, a = before[nd.idx], after[nd.idx]
        dlog = (a["log"][0] - b["log"][0], a["log"][1] - b["log"][1])
        if name not in nd.vals:
            if ret or snap_config(a) != snap_config(b):
                ctx.violation("mutate-unknown-gene", "mutate on an unknown gene returned %r / changed the genome" % (ret,),
                              self.witness(member=nd.idx))
            self.record("mutate", nd, "unknown", gene=name)
            return
        authorised = nd.allow or any(c[0] == name and c[1] == newc and c[3] for c in calls)
        if nd.has_cb and not nd.allow:
            ctx.count("callback_consulted_ops" if calls else "callback_not_consulted_ops")
        if not authorised:
            self.flags.add("refused")
            ok = True
            if ret:
                ok = False
                ctx.violation("refused-mutate-returns-true", "mutate returned %r for a change nobody authorised" % (ret,),
                              self.witness(member=nd.idx, gene=name))
            if dlog != (1, 0):
                ok = False
                ctx.violation("refused-mutate-not-logged",
                              "refused mutate changed (mutations_count, approved_mutations) by %r instead of (1, 0)" % (dlog,),
                              self.witness(member=nd.idx, gene=name, new=newc))
            else:
                lg = self.real_log(nd.g)
                if lg:
                    ctx.count("log_entries_inspected")
                    m = lg[-1]
                    if m.gene_name != name or m.approved or canon(m.new_value) != newc \
                            or canon(m.original_value) != nd.vals[name]:
                        ok = False
                        ctx.violation("refused-mutate-log-entry",
                                      "last log entry does not describe the refused attempt",
                                      self.witness(member=nd.idx, gene=name, entry=repr(m)))
            if snap_config(a) != snap_config(b):
                ok = False   # already reported by frame()
            if ok:
                ctx.count("refused_mutate_logged")
            nd.log.append((name, nd.vals[name], False)) if nd.log is not None else None
            self.record("mutate", nd, "refused", gene=name, new=newc)
            return
        # authorised
        if not nd.allow:
            ctx.count("approved_by_callback")
        stored = dict(a["values"])[name]
        if stored == newc and (ret or nd.vals[name] != newc):
            self.flags.add("authorised")
            if not ret:
                ctx.violation("applied-mutate-returns-false", "mutate applied the change but returned %r" % (ret,),
                              self.witness(member=nd.idx, gene=name))
            if dlog != (1, 1):
                ctx.violation("approved-mutate-not-logged",
                              "authorised mutate changed (mutations_count, approved_mutations) by %r instead of (1, 1)" % (dlog,),
                              self.witness(member=nd.idx, gene=name, new=newc))
            if nd.log is not None:
                nd.log.append((name, nd.vals[name], True))
            nd.vals[name] = newc
            self.record("mutate", nd, "applied", gene=name, new=newc)
        elif stored == nd.vals[name]:
            ctx.count("authorised_mutation_not_applied")
            if nd.log is not None:
                nd.log.append((name, nd.vals[name], dlog[1] > 0))
            self.record("mutate", nd, "authorised-not-applied", gene=name, new=newc)
        else:
            ctx.violation("mutate-stores-other-value", "authorised change to %s but stored %s" % (newc, stored),
                          self.witness(member=nd.idx, gene=name))
            nd.vals[name] = stored
            self.record("mutate", nd, "other", gene=name, new=newc)

    def op_rollback(self, nd):
        ctx = self.ctx
        name = self.pick_gene_name(nd, 0.05)
        # prefer genes that have an approved mutation
        if nd.log:
            cands = [e[0] for e in nd.log if e[2]]
            if cands and self.rng.random() < 0.7:
                name = self.rng.choice(cands)
        before = self.snaps()
        ret = nd.g.rollback_mutation(name)
        after = self.snaps()
        calls = self.drain()
        self.frame("rollback", nd, before, after, calls)
        b, a = before[nd.idx], after[nd.idx]
        dlog = (a["log"][0] - b["log"][0], a["log"][1] - b["log"][1])
        if nd.log is None:
            ctx.count("rollback_with_unknown_log")
            nd.vals = dict(a["values"])
            self.record("rollback", nd, "unknown-log", gene=name)
            return
        target = None
        for e in reversed(nd.log):
            if e[0] == name and e[2]:
                target = e
                break
        if target is None or name not in nd.vals:
            if ret or snap_config(a) != snap_config(b):
                ctx.violation("rollback-without-approved-mutation",
                              "rollback returned %r / changed the genome although the gene has no approved mutation" % (ret,),
                              self.witness(member=nd.idx, gene=name))
                nd.vals = dict(a["values"])
            self.record("rollback", nd, "nothing", gene=name)
            return
        want = target[1]
        authorised = nd.allow or any(c[0] == name and c[1] == want and c[3] for c in calls)
        stored = dict(a["values"])[name]
        asked = [c for c in calls if c[0] == name]
        if not nd.allow and asked and all(c[1] != want for c in asked):
            mech = "alias-rollback-restores-edited-object" if self.aliased else "rollback-wrong-value"
            if self.aliased:
                ctx.count("recorded_not_judged:" + mech)
                self.stop = True
                return
            ctx.violation(mech, "rollback of %s asked approval for restoring %s; the value preceding the last approved "
                                "mutation was %s" % (name, asked[0][1], want), self.witness(member=nd.idx, gene=name))
            nd.log.append((name, nd.vals[name], dlog[1] > 0))
            nd.vals = dict(a["values"])
            self.record("rollback", nd, "wrong-target", gene=name, to=want)
            return
        if authorised:
            self.flags.add("authorised")
            if stored != want or not ret:
                mech = "alias-rollback-restores-edited-object" if self.aliased else "rollback-wrong-value"
                if self.aliased:
                    ctx.count("recorded_not_judged:" + mech)
                    self.stop = True
                    return
                ctx.violation(mech, "authorised rollback of %s stored %s (returned %r); the value preceding the last "
                                    "approved mutation was %s" % (name, stored, ret, want),
                              self.witness(member=nd.idx, gene=name))
            else:
                ctx.count("rollback_authorised")
                if want != nd.vals[name]:
                    ctx.count("rollback_authorised_changing_value")
            if dlog != (1, 1):
                ctx.violation("approved-rollback-not-logged", "authorised rollback changed the log counters by %r" % (dlog,),
                              self.witness(member=nd.idx, gene=name))
            nd.log.append((name, nd.vals[name], True))
            nd.vals[name] = stored
            self.record("rollback", nd, "restored", gene=name, to=want)
        else:
            self.flags.add("refused")
            if ret or dlog != (1, 0):
                ctx.violation("refused-rollback-not-logged",
                              "refused rollback returned %r and changed the log counters by %r instead of (1, 0)" % (ret, dlog),
                              self.witness(member=nd.idx, gene=name, approvals_asked=calls))
            else:
                ctx.count("rollback_refused")
            nd.log.append((name, nd.vals[name], False))
            nd.vals = dict(a["values"])
            self.record("rollback", nd, "refused", gene=name, to=want)

    def _add(self, nd, name, kind):
        ctx = self.ctx
        value = self.fresh_value()
        gtype = self.rng.choice(TYPES)
        level = self.rng.choice([0, 1, 2, 3, 4])
        gene = self.make_gene(name, value, gtype, level, self.rng.random() < 0.3, nd.idx)
        vc = canon(value)
        existed = name in nd.vals
        before = self.snaps()
        ret = nd.g.add_gene(gene)
        after = self.snaps()
        calls = self.drain()
        self.frame(kind, nd, before, after, calls, new_gene=None if existed else name, meta_may_change=(name,))
        b, a = before[nd.idx], after[nd.idx]
        if a["log"] != b["log"] and not nd.allow:
            ctx.count("readd_logged")
        if existed and not nd.allow:
            self.flags.add("refused")
            bb, aa = dict(b), dict(a)
            bb.pop("log"), aa.pop("log")      # a refused re-add may or may not be logged
            if ret or aa != bb:
                ctx.violation("refused-readd-changes-genome",
                              "re-adding %s with mutations disabled returned %r / changed %s" % (
                                  name, ret, [k for k in aa if aa[k] != bb[k]]),
                              self.witness(member=nd.idx, gene=name))
            else:
                ctx.count("refused_readd")
            self.record(kind, nd, "refused", gene=name, value=vc)
            return
        stored = dict(a["values"]).get(name)
        if stored == vc:
            if existed:
                self.flags.add("authorised")
            nd.vals[name] = vc
            nd.types[name] = gtype
            self.record(kind, nd, "added", gene=name, value=vc, type=gtype, level=level)
        else:
            if not existed:
                ctx.count("new_gene_not_added")
            self.record(kind, nd, "not-added", gene=name, value=vc)
        # types/levels after an accepted add are observed, not judged
        nd.vals = dict(a["values"]) if nd.allow else nd.vals
        am = {t[0]: t[2] for t in a["genes"]}
        nd.types.update({k: v for k, v in am.items()})
        nd.levels = dict(a["levels"])

    def op_add_existing(self, nd):
        self._add(nd, self.pick_gene_name(nd, 0.0), "add_existing")

    def op_add_new(self, nd):
        self._add(nd, "n%d" % len(nd.vals), "add_new")

    def _expr(self, nd, kind, name, level, call):
        ctx = self.ctx
        before = self.snaps()
        ret = call()
        after = self.snaps()
        calls = self.drain()
        self.frame(kind, nd, before, after, calls)
        b, a = before[nd.idx], after[nd.idx]
        if snap_config(a) != snap_config(b) or a["log"] != b["log"]:
            pass  # frame() reported value/hash changes; log changes are not judged here
        if name in nd.vals:
            nd.levels[name] = level
        if bool(ret) != (name in nd.vals):
            ctx.violation("expression-op-return", "%s(%s) returned %r" % (kind, name, ret), self.witness(member=nd.idx))
        if dict(a["levels"]) != nd.levels:
            ctx.violation("expression-op-level", "after %s(%s) the levels are %r, expected %r" % (
                kind, name, dict(a["levels"]), nd.levels), self.witness(member=nd.idx))
            nd.levels = dict(a["levels"])
        ctx.count("expression_ops_checked")
        self.record(kind, nd, "ok" if ret else "unknown", gene=name, level=level)

    def op_set_expression(self, nd):
        name = self.pick_gene_name(nd)
        level = self.rng.randrange(5)
        self._expr(nd, "set_expression", name, level,
                   lambda: nd.g.set_expression(name, self.ExpressionLevel(level), "m"))

    def op_silence(self, nd):
        name = self.pick_gene_name(nd)
        self._expr(nd, "silence", name, 0, lambda: nd.g.silence_gene(name, "why"))

    def op_activate(self, nd):
        name = self.pick_gene_name(nd)
        self._expr(nd, "activate", name, 2, lambda: nd.g.activate_gene(name))

    def op_express(self, nd):
        ctx = self.ctx
        r = self.rng.random()
        names = list(nd.vals)
        if r < 0.2:
            context = None
        elif r < 0.3:
            context = {}
        else:
            context = {}
            for nm in names:
                if self.rng.random() < 0.5:
                    context[nm] = self.rng.choice([True, False, None, 0, "x"])
            if self.rng.random() < 0.3:
                context["unrelated"] = 1
        before = self.snaps()
        cfg = nd.g.express(context) if (context is not None or self.rng.random() < 0.5) else nd.g.express()
        after = self.snaps()
        calls = self.drain()
        self.frame("express", nd, before, after, calls)
        if after[nd.idx] != before[nd.idx] and snap_config(after[nd.idx]) == snap_config(before[nd.idx]):
            ctx.violation("express-changes-state", "express changed %s" % [
                k for k in after[nd.idx] if after[nd.idx][k] != before[nd.idx][k]], self.witness(member=nd.idx))
        inctx = set(context or {})
        want = {}
        for nm in names:
            t, lvl = nd.types[nm], nd.levels.get(nm)
            if lvl == SILENCED:
                ctx.count("express_silenced_seen")
                continue
            if t == "dormant":
                ctx.count("express_dormant_seen")
                continue
            if t == "conditional":
                if nm in inctx:
                    ctx.count("express_conditional_in_ctx")
                else:
                    ctx.count("express_conditional_not_in_ctx")
                    continue
            want[nm] = nd.vals[nm]
        got = {k: canon(v) for k, v in cfg.items()} if isinstance(cfg, dict) else repr(cfg)
        ctx.count("express_checked")
        if got != want:
            extra = sorted(set(got) - set(want)) if isinstance(got, dict) else []
            missing = sorted(set(want) - set(got)) if isinstance(got, dict) else []
            kinds = set()
            for nm in extra:
                kinds.add("silenced" if nd.levels.get(nm) == SILENCED else nd.types[nm] if nd.types.get(nm) in (
                    "dormant", "conditional") else "other")
            mech = "express-includes-" + "+".join(sorted(kinds)) if extra else (
                "express-omits-gene" if missing else "express-wrong-value")
            ctx.violation(mech, "express(%r) returned genes %r, the statement defines %r" % (
                context, sorted(got) if isinstance(got, dict) else got, sorted(want)),
                self.witness(member=nd.idx, context=context, got=got, want=want, types=nd.types, levels=nd.levels))
        self.record("express", nd, "ok", context=sorted(inctx) if context is not None else None, genes=sorted(want))

    def op_replicate(self, nd):
        ctx = self.ctx
        r = self.rng.random()
        muts = None
        if r < 0.7:
            muts = {}
            for _ in range(self.rng.randint(1, 3)):
                nm = self.pick_gene_name(nd, 0.1)
                v = self.fresh_value()
                self.keep(v, "replicate-arg", len(self.nodes))
                muts[nm] = v
        elif r < 0.8:
            muts = {}
        inherit = self.rng.random() < 0.7
        _global_random.seed(self.rng.getrandbits(32))
        before = self.snaps()
        if muts is None and inherit and self.rng.random() < 0.5:
            child = nd.g.replicate()
        else:
            child = nd.g.replicate(muts, inherit) if self.rng.random() < 0.5 else nd.g.replicate(
                mutations=muts, inherit_expression=inherit)
        after = self.snaps()
        calls = self.drain()
        self.frame("replicate", nd, before, after, calls)
        ctx.count("replications")
        self.flags.add("replicated")
        cs = snap(ctx, child)
        pv = dict(after[nd.idx]["values"])
        cv = dict(cs["values"])
        mc = {k: canon(v) for k, v in (muts or {}).items()}
        rate = self.cfg["rate"]
        if set(cv) != set(pv):
            ctx.violation("child-gene-set", "child genes %r, parent genes %r" % (sorted(cv), sorted(pv)),
                          self.witness(member=nd.idx))
        differing = []
        for nm in pv:
            if nm not in cv:
                continue
            ctx.count("child_gene_compared")
            if cv[nm] != pv[nm]:
                differing.append(nm)
                ok = nd.allow or any(c[0] == nm and c[1] == cv[nm] and c[3] for c in calls)
                if not ok:
                    ctx.violation("child-differs-unauthorised",
                                  "child value of %s is %s, parent has %s; mutations disabled and that change was not approved"
                                  % (nm, cv[nm], pv[nm]), self.witness(member=nd.idx, gene=nm, approvals_asked=calls,
                                                                       mutations=mc))
                elif nd.allow and rate == 0 and cv[nm] != mc.get(nm):
                    ctx.violation("child-differs-unrequested", "child value of %s is %s; requested mutations %r, rate 0" % (
                        nm, cv[nm], mc), self.witness(member=nd.idx, gene=nm))
                else:
                    ctx.count("child_gene_authorised_difference")
                    self.flags.add("authorised")
        pm = {t[0]: t[2:] for t in after[nd.idx]["genes"]}
        cm = {t[0]: t[2:] for t in cs["genes"]}
        if pm != cm:
            ctx.violation("child-gene-metadata", "child gene types/flags differ from the parent's",
                          self.witness(member=nd.idx, parent=pm, child=cm))
        # refused attempts on the child are logged on the child
        n_explicit = sum(1 for k in (muts or {}) if k in pv)
        total, approved = cs["log"]
        unapproved = total - approved
        if nd.allow:
            if unapproved:
                ctx.violation("child-log-unapproved-under-allow", "child logs %d unapproved mutations although mutations are enabled"
                              % unapproved, self.witness(member=nd.idx))
        elif nd.has_cb:
            refused_calls = sum(1 for c in calls if not c[3])
            ok_calls = sum(1 for c in calls if c[3])
            if refused_calls:
                self.flags.add("refused")
            if unapproved != refused_calls or approved != ok_calls:
                ctx.violation("child-log-mismatch",
                              "callback refused %d and approved %d changes during replicate, child logs %d unapproved / %d approved"
                              % (refused_calls, ok_calls, unapproved, approved),
                              self.witness(member=nd.idx, approvals_asked=calls))
            else:
                ctx.count("child_log_checked")
            if rate == 0 and len(calls) != n_explicit:
                ctx.count("replicate_callback_consultations_differ_from_requests")   # observed, not judged
        else:
            if n_explicit:
                self.flags.add("refused")
            if approved or unapproved < n_explicit or (rate == 0 and unapproved != n_explicit):
                ctx.violation("child-refused-not-logged",
                              "%d explicit mutations had to be refused; child logs %d unapproved / %d approved" % (
                                  n_explicit, unapproved, approved), self.witness(member=nd.idx, mutations=mc))
            else:
                ctx.count("child_log_checked")
        # model of the child
        c_allow = getattr(child, "allow_mutations", nd.allow)
        if bool(c_allow) != bool(nd.allow) or (getattr(child, "on_mutation", self.stub) is not None) != nd.has_cb:
            ctx.violation("child-authorisation-settings", "child has allow_mutations=%r / callback %r, parent %r / %r" % (
                c_allow, getattr(child, "on_mutation", None) is not None, nd.allow, nd.has_cb), self.witness(member=nd.idx))
        cn = Node(len(self.nodes), child, nd.idx, nd.allow, nd.has_cb)
        cn.vals = dict(cv)
        cn.types = {t[0]: t[2] for t in cs["genes"]}
        cn.levels = dict(cs["levels"])
        if inherit and cn.levels != dict(after[nd.idx]["levels"]):
            ctx.count("child_levels_differ_from_parent_with_inherit")
        lg = self.real_log(child)
        if lg is None:
            cn.log = None if total else []
        else:
            cn.log = [(m.gene_name, canon(m.original_value), bool(m.approved)) for m in lg]
        self.nodes.append(cn)
        self.record("replicate", nd, "child#%d:%s" % (cn.idx, ",".join(sorted(differing))), mutations=mc,
                    inherit_expression=inherit, child_log=[total, approved])

    # -------------------------------------------------------------- aliasing probe
    def op_alias(self, nd):
        ctx = self.ctx
        rng = self.rng
        route, obj, src = None, None, nd.idx
        r = rng.random()
        if self.kept and r < 0.45:
            obj, route, src = rng.choice(self.kept)
        else:
            names = [n for n in nd.vals if nd.vals[n][0] in "[{"]
            if not names:
                if self.kept:
                    obj, route, src = rng.choice(self.kept)
                else:
                    ctx.count("alias_probe_no_mutable_value")
                    self.record("alias", nd, "skipped")
                    return
            else:
                nm = rng.choice(names)
                route = rng.choice(["get_value", "express", "export", "gene-object", "list_genes"])
                if route == "get_value":
                    obj = nd.g.get_value(nm)
                elif route == "express":
                    obj = nd.g.express({nm: 1}).get(nm)
                elif route == "export":
                    obj = next((d["value"] for d in nd.g.export()["genes"] if d["name"] == nm), None)
                elif route == "list_genes":
                    obj = next((d["value"] for d in nd.g.list_genes() if d["name"] == nm), None)
                else:
                    obj = nd.g.get_gene(nm).value
                self.drain()
                if not isinstance(obj, (list, dict)):
                    ctx.count("alias_probe_value_not_reachable")   # silenced / dormant / not expressed
                    self.record("alias", nd, "skipped")
                    return
        before = self.snaps()
        mutate_in_place(obj, rng)
        after = self.snaps()
        self.aliased = True
        ctx.count("alias_probes")
        ctx.count("alias_probe:" + route)
        hit = []
        for other in self.nodes:
            b, a = before[other.idx], after[other.idx]
            if a == b:
                continue
            hit.append(other.idx)
            if other.allow:
                ctx.count("alias_change_seen_with_mutations_enabled")
                continue
            if route in ("ctor", "mutate-arg", "replicate-arg"):
                mech = "alias-caller-kept-reference" if other.idx == src else "alias-lineage-shared-value"
            elif other.idx != src:
                mech = "alias-lineage-shared-value"
            elif route == "gene-object":
                mech = "alias-gene-object-value"
            else:
                mech = "alias-returned-reference"
            what = [k for k in a if a[k] != b[k]]
            # Recorded, not judged: editing a value object in place is not one of the configuration operations the
            # statement quantifies over (lead's triage, DESIGN.md C20); the evidence shows how often it was observed.
            ctx.count("recorded_not_judged:" + mech)
            ctx.notes.append("observed (not judged) %s via %s" % (mech, route)) if len(ctx.notes) < 3 else None
            continue
            ctx.violation(mech, "editing in place a value object (%s, genome #%d) changed %s of genome #%d: no operation, "
                                "no approval, nothing logged" % (route, src, what, other.idx),
                          self.witness(route=route, obtained_from=src, changed_member=other.idx, changed=what,
                                       hash_before=b["hash"], hash_after=a["hash"]))
        self.record("alias", nd, "hit" if hit else "no-effect", route=route, source=src, changed=hit)
        if hit:
            ctx.count("alias_probe_effective")
            self.stop = True   # the model no longer describes the stored objects


if __name__ == "__main__":
    core.main(sys.modules[__name__])
