"""C20 — immutable configuration: values change only through authorised, logged mutations.

Monitors (all observe executions of the real operon_ai.state.genome.Genome):
  1. history + reference model: every operation on any member of a lineage (root genome, all
     descendants and all copy/deepcopy/pickle duplicates) is bracketed by snapshots (export(),
     get_hash(), get_gene(n).value, get_value, get_statistics()) of EVERY member; the model holds the
     authorised value per gene, the expression levels, the approved-mutation log (for the rollback
     target) and the CURRENT authorisation settings of every member (the workload assigns the public
     attributes allow_mutations / on_mutation / mutation_rate / silent mid-session);
  2. approval-callback stubs that record every (gene, new value, decision) they are asked about, so a
     value change is accepted only if mutations are enabled or the member's CURRENT stub approved
     exactly that change during that very call; stubs may be falsy callables, may raise, may answer
     with non-bool values;
  3. aliasing monitor: the workload keeps references to mutable values it handed in (Gene(...),
     mutate, replicate(mutations)) or got back (get_value/express/export/get_gene/list_genes) and
     mutates them in place; any snapshot change of any lineage member is recorded under its own
     alias-* key (recorded, not judged);
  4. icontract postconditions attached from the harness to the real class ("a call that returns
     False leaves the hash unchanged", "expression/express/replicate leave the own hash unchanged");
  5. environment: non-silent output goes to strict UTF-8 / latin-1 streams (print may raise), the
     process time zone is stepped backwards and forwards between operations (TZ + tzset, restored after
     every case), values include identity-only objects, and a small probe of the refusal obligations
     runs in a child interpreter started with -O.
"""
import contextlib
import copy
import gc
import io
import json
import os
import pickle
import random as _global_random
import subprocess
import sys
import threading
import time
from decimal import Decimal
from enum import Enum
from fractions import Fraction

from rv import core

PID = "C20"
LEVEL = "exploration"
TECHNIQUE = ("runtime monitoring: before/after snapshots of the whole lineage around every operation, replayed against an "
             "immutable-configuration reference model that follows the current public settings; recording approval-callback "
             "stubs (falsy / raising / non-bool answers); in-place aliasing probes; copy/deepcopy/pickle duplicates; strict "
             "output streams; time-zone steps; -O child probe; icontract postconditions on the real Genome class")
RULE = ("case = (configuration, history of 1..8 operations (a few sessions up to 40, marathon sessions of thousands) over "
        "add_gene/mutate/rollback/expression/replicate/express/setting assignment/duplicate/read-only calls on a random "
        "member of the lineage); first cases are a systematic sweep allow x approval policy x gene type x expression level "
        "x 4 scripted histories. non-trivial = the history contains a refused change attempt and, when the configuration "
        "can authorise anything, an authorised change, or a replication; distinct = (configuration, op-kind trace, outcome trace)")
ASSUMPTIONS = [
    "approval callbacks never re-enter the genome and never edit the Mutation record; a callback that raises has not approved",
    "gene values are JSON-like (int/float/str/bool/None/list/dict with str keys, tuples, bytes, Fraction, Decimal, enum members) "
    "or identity-only objects (sentinels, handles); identity-only values are compared by identity",
    "authorisation is judged by the CURRENT public settings of the member the operation is called on (truthiness of "
    "allow_mutations; approval by the object currently assigned to on_mutation); replicate()'s mutations are judged by the "
    "parent's settings at that moment (which the child inherits)",
    "an authorised mutate() that is not applied is counted, not judged (the statement only restricts unauthorised change)",
    "a call that raises (user callback raised, print to a strict stream raised, unusable mutation_rate) is judged on the state it "
    "leaves: no unauthorised change anywhere; a refused attempt whose callback did not raise must still be logged",
    "alias-* snapshot-change mechanisms are recorded, not judged; a copy.copy() duplicate is a second handle on shared state: "
    "changes seen through the other handle must be authorised by the acting handle, nothing else is judged across handles",
    "a conditional gene is 'named in the context' when its name is a key of the context dict, whatever the value",
    "rollback 'last approved mutation' = last in operation order, whatever the wall clock / time zone did in between",
]

TYPES = ["structural", "regulatory", "housekeeping", "conditional", "dormant"]
POLICIES = ["none", "all", "nobody", "subset", "once", "alternate", "gene", "truthy"]
EXTRA_POLICIES = ["raise", "raise-some", "falsy-all", "falsy-bool-all"]
SILENCED = 0

SCRIPT = ["mutate", "mutate", "rollback", "add_existing", "silence", "express", "replicate", "mutate"]
SCRIPT2 = ["mutate", "replicate", "mutate", "rollback", "express", "set_expression", "add_new", "express"]
SCRIPT3 = ["mutate", "tz_back", "mutate_same", "rollback_same", "seal", "mutate_same", "rollback_same", "replicate"]
SCRIPT4 = ["open", "mutate", "seal", "mutate_same", "rollback_same", "duplicate", "mutate_same", "reads"]
SCRIPTS = [SCRIPT, SCRIPT2, SCRIPT3, SCRIPT4]
SWEEP = [(allow, pol, t, lvl, sc) for allow in (False, True) for pol in POLICIES for t in range(5) for lvl in range(5)
         for sc in range(4)]
MARATHONS = 8
PSEUDO = ("tz_back",)

HOSTILE_NAMES = ["", " ", "a.b*", "{x}", "%s", "a\x00b", "line\nbreak", "G0", "g0 ", "é中", "a\udc80", "__class__",
                 "(?P<n>x)", "\\d+", "{0}{1}", "%(x)s"]
EXC_TYPES = [TypeError, KeyError, AssertionError, TimeoutError, ValueError, RuntimeError, LookupError, OSError]
ZONES = [("UTC0", 0.0), ("VAA-14", 14.0), ("VBB12", -12.0), ("VCC-5:30", 5.5), ("VDD3", -3.0), ("VEE-1", 1.0), ("VFF-2", 2.0)]
_TZ0 = os.environ.get("TZ")


def plan(tier):
    extra = 24000 if tier == "quick" else 500000
    return {"cases": len(SWEEP) + MARATHONS + extra, "shards": 8 if tier == "quick" else 14,
            "min_nontrivial": 2000, "timeout": 600 if tier == "quick" else 2400,
            "require": {"ops": 50000, "refused_mutate_logged": 3000, "approved_by_callback": 1000,
                        "refused_readd": 500, "rollback_authorised": 300, "rollback_refused": 100,
                        "replications": 3000, "child_gene_compared": 5000, "express_checked": 3000,
                        "express_conditional_in_ctx": 200, "express_conditional_not_in_ctx": 200,
                        "express_dormant_seen": 200, "express_silenced_seen": 200,
                        "snapshots": 200000, "other_member_snapshots_compared": 20000,
                        "alias_probes": 500, "contract_evaluations": 50000,
                        "callback_calls": 3000,
                        # round 4
                        "setting_assignments": 1000, "attempts_after_sealing": 300, "attempts_after_callback_change": 300,
                        "tz_backward_steps": 300, "rollback_across_backward_clock_step": 40,
                        "identity_value_child_compared": 300, "duplicates": 200, "ops_on_duplicates": 300,
                        "callback_raised_ops": 100, "print_raised_ops": 100, "refused_while_print_raises": 30,
                        "falsy_callback_attempts": 100, "read_only_ops": 500, "churn_mutations": 500,
                        "optimized_probe_cases": 100}}


# ------------------------------------------------------------------ helpers
class S(str):
    """a str subclass"""


class Sentinel:
    """compares by identity only"""


class Holder:
    """identity-only payload whose attributes are named like the library's own labels"""

    def __init__(self):
        self.name, self.value, self.gene_type, self.approved, self.level = "g0", 1, "dormant", True, 0


_ATOMS = (int, float, str, bool, type(None), bytes, complex, Fraction, Decimal)
_IDS = {}
_ALIVE = []
_STUBS = {}
_API_CALLED = set()


def _reset_case_state():
    _IDS.clear()
    del _ALIVE[:]
    _STUBS.clear()


def canon(v, d=0):
    """Typed canonical text of a value (1, True and 1.0 differ; NaN equals itself). Objects that are not plain data are
    named by identity: the registry keeps them alive, so an index is never reused within a case."""
    if d > 8:
        return "<deep>"
    if isinstance(v, dict):
        return "{" + ",".join(sorted(canon(k, d + 1) + ":" + canon(x, d + 1) for k, x in v.items())) + "}"
    if isinstance(v, list):
        return "[" + ",".join(canon(x, d + 1) for x in v) + "]"
    if isinstance(v, tuple):
        return "(" + ",".join(canon(x, d + 1) for x in v) + ")"
    if isinstance(v, _ATOMS) or isinstance(v, Enum):
        return type(v).__name__ + ":" + repr(v)
    k = _IDS.get(id(v))
    if k is None:
        k = _IDS[id(v)] = len(_ALIVE)
        _ALIVE.append(v)
    return "<obj %s #%d>" % (type(v).__name__, k)


def has_identity(c):
    return "<obj " in c


def _lib():
    import operon_ai.state.genome as m
    return m


def gen_scalar(rng):
    if rng.random() < 0.74:
        k = rng.randrange(8)
    else:
        k = 8 + rng.randrange(4)
    if k == 0:
        return rng.choice([0, 1, -1, 2, 7, 10, 4096, -300, 10 ** 12])
    if k == 1:
        return rng.choice([0.0, 0.7, -1.5, 1e-9, 3.25, 1e300, float("inf")])
    if k == 2:
        return rng.choice(["", "gpt-4", "x", "claude", "a b", "é中", "{}", "None"])
    if k == 3:
        return rng.choice([True, False])
    if k == 4:
        return None
    if k == 5:
        return rng.randrange(-50, 50)
    if k == 6:
        return round(rng.uniform(-10, 10), 3)
    if k == 7:
        return "s%d" % rng.randrange(6)
    if k == 8:      # boundaries of the arithmetic
        return rng.choice([2 ** 53 + 1, 2 ** 64, -2 ** 63, 10 ** 30, -0.0, float("nan"), float("-inf"), 0.1 + 0.2, 0.3,
                           5e-324, 10 ** 400])
    if k == 9:      # other value types
        j = rng.randrange(8)
        return [Fraction(1, 3), Decimal("0.10"), Decimal("NaN"), S("sub"), b"x", (1, 2), ("a", [1]), 1 + 2j][j]
    if k == 10:     # identity-only values
        r = rng.random()
        if r < 0.5:
            return Sentinel()
        if r < 0.68:
            return object()
        if r < 0.78:
            return rng.choice([_lib().ExpressionLevel.SILENCED, _lib().GeneType.DORMANT])
        if r < 0.88:
            return _lib().Gene(name="inner", value=1)
        if r < 0.97:
            return Holder()
        return threading.Lock()
    return rng.choice(["a\udc80", "%s{}\\d+", "a\x00b", "line\nbreak", "\U0001f9ec"])


def gen_value(rng, mutable_p=0.35, depth=0):
    if depth < 2 and rng.random() < mutable_p:
        if rng.random() < 0.5:
            return [gen_value(rng, 0.25, depth + 1) for _ in range(rng.randrange(0, 4))]
        return {"k%d" % i: gen_value(rng, 0.25, depth + 1) for i in range(rng.randrange(0, 4))}
    return gen_scalar(rng)


def mutate_in_place(obj, rng):
    """In-place edit that always changes canon(obj); prefers a nested container when there is one."""
    inner = [x for x in (obj.values() if isinstance(obj, dict) else obj) if isinstance(x, (list, dict))]
    if inner and rng.random() < 0.4:
        return mutate_in_place(rng.choice(inner), rng)
    if isinstance(obj, list):
        obj.append("<edited-in-place>")
    else:
        obj["<edited-in-place>"] = 1


def rate_is_zero(rate):
    try:
        return not (rate > 0)
    except Exception:
        return False


def _stub_lookup(key):
    return _STUBS[key]


class Stub:
    """Recording approval callback. Copies and pickles like a function does: by reference."""
    falsy = False

    def __init__(self, policy, salt, hist, key):
        self.policy, self.salt, self.ctx, self.key = policy, salt, hist.ctx, key
        self.sink = hist.calls
        self.n = 0
        _STUBS[key] = self

    def __call__(self, mutation, *extra, **kw):
        self.n += 1
        self.ctx.count("callback_calls")
        g, nv = mutation.gene_name, canon(mutation.new_value)
        p = self.policy
        raised = None
        if p == "raise":
            raised = EXC_TYPES[core.stable_hash(self.salt, self.n) % len(EXC_TYPES)]
        elif p == "raise-some" and core.stable_hash(self.salt, g, nv, "r") % 3 == 0:
            raised = EXC_TYPES[core.stable_hash(self.salt, g, nv) % len(EXC_TYPES)]
        if p in ("all", "falsy-all", "falsy-bool-all"):
            d = True
        elif p in ("nobody", "raise"):
            d = False
        elif p in ("subset", "truthy", "raise-some"):
            d = core.stable_hash(self.salt, g, nv) % 2 == 0
        elif p == "once":
            d = self.n == 1
        elif p == "alternate":
            d = self.n % 2 == 1
        else:  # "gene"
            d = core.stable_hash(self.salt, g) % 2 == 0
        if raised is not None:
            d = False
        self.sink.append((g, nv, canon(mutation.original_value), d, self, raised is not None))
        if raised is not None:
            self.ctx.count("callback_raised")
            raise raised("approval callback failed")
        if p == "truthy":
            k = core.stable_hash(self.salt, self.n) % 3
            return ("yes", 1, [0])[k] if d else (None, 0, "")[k]
        return d

    def __deepcopy__(self, memo):
        return self

    def __copy__(self):
        return self

    def __reduce__(self):
        return (_stub_lookup, (self.key,))

    def __repr__(self):
        return "<stub %s %s>" % (self.key, self.policy)


class FalsyLenStub(Stub):
    """a callable container that is empty: bool(stub) is False"""
    falsy = True

    def __len__(self):
        return 0


class FalsyBoolStub(Stub):
    falsy = True

    def __bool__(self):
        return False


class Node:
    def __init__(self, idx, g, parent, allow, cb, rate, silent, group):
        self.idx, self.g, self.parent = idx, g, parent
        self.allow, self.cb, self.rate, self.silent, self.group = bool(allow), cb, rate, silent, group
        self.vals = {}      # name -> canon of the authorised value
        self.types = {}     # name -> gene_type value
        self.levels = {}    # name -> expression level value
        self.log = []       # (gene, canon of value before, approved, backward-clock epoch) ; None = unknown
        self.sealed_after_open = False
        self.cb_changed = False
        self.duplicate = False


_MISSING = object()


def snap(ctx, g):
    ctx.count("snapshots")
    ex = g.export()
    st = g.get_statistics()
    names = [d["name"] for d in ex["genes"]]
    levels = {n: e["level"] for n, e in ex["expression"].items()}
    vals = {}
    for n in names:
        gene = g.get_gene(n)
        vals[n] = canon(gene.value) if gene is not None else "<no gene>"
    gv = []
    for n in names:
        v = g.get_value(n, _MISSING)
        gv.append((n, "<default>" if v is _MISSING else canon(v)))
    return {
        "genes": tuple((d["name"], canon(d["value"]), d["gene_type"], d["required"], d["default_expression"],
                        d["description"]) for d in ex["genes"]),
        "levels": tuple(sorted(levels.items())),
        "generation": ex["generation"], "parent_hash": ex["parent_hash"],
        "hash": g.get_hash(), "stat_hash": st["hash"],
        "values": tuple(sorted(vals.items())), "get_value": tuple(gv),
        "log": (st["mutations_count"], st["approved_mutations"]),
    }


def snap_config(s):
    """The part of a snapshot that only authorised operations may change."""
    return (s["genes"], s["hash"], s["stat_hash"], s["values"], s["generation"], s["parent_hash"])


def make_sink(kind):
    if kind == "stringio":
        return io.StringIO()
    enc = "utf-8" if kind == "utf8-strict" else "latin-1"
    return io.TextIOWrapper(io.BytesIO(), encoding=enc, errors="strict", write_through=True)


def _set_tz(name):
    if name is None:
        os.environ.pop("TZ", None)
    else:
        os.environ["TZ"] = name
    time.tzset()


# ------------------------------------------------------------------ contracts
class ContractBroken(BaseException):
    pass


_CONTRACT = {"ctx": None, "installed": None}


def _install_contracts(ctx):
    try:
        import icontract
    except Exception:
        ctx.notes.append("icontract not importable; contract layer skipped")
        return
    from operon_ai.state.genome import Genome
    saved = {}

    def seen():
        c = _CONTRACT["ctx"]
        if c is not None:
            c.count("contract_evaluations")
        return True

    def refused_keeps_hash(self, result, OLD):
        seen()
        return bool(result) or self.get_hash() == OLD.h

    def own_hash_kept(self, OLD):
        seen()
        return self.get_hash() == OLD.h

    def wrap(name, cond, desc):
        orig = Genome.__dict__[name]
        saved[name] = orig
        f = icontract.ensure(cond, description=desc, error=lambda self: ContractBroken(name + ": " + desc))(orig)
        f = icontract.snapshot(lambda self: self.get_hash(), name="h")(f)
        setattr(Genome, name, f)

    for nm in ("add_gene", "mutate", "rollback_mutation"):
        wrap(nm, refused_keeps_hash, "a call returning False leaves get_hash() unchanged")
    for nm in ("set_expression", "express", "replicate"):
        wrap(nm, own_hash_kept, "leaves the genome's own get_hash() unchanged")
    _CONTRACT["installed"] = (Genome, saved)


def setup_shard(ctx):
    _CONTRACT["ctx"] = ctx
    _install_contracts(ctx)


def teardown_shard(ctx):
    inst = _CONTRACT["installed"]
    if inst:
        cls, saved = inst
        for k, v in saved.items():
            setattr(cls, k, v)
    _CONTRACT["installed"] = None
    _CONTRACT["ctx"] = None
    try:
        Genome = _lib().Genome
        public = [n for n in dir(Genome) if not n.startswith("_") and callable(getattr(Genome, n))]
        for n in public:
            if n not in _API_CALLED:
                ctx.count("api_never_called_in_shard:" + n)
        ctx.maxc("public_methods", len(public))
    except Exception:
        pass


# ------------------------------------------------------------------ case driver
def make_case(ctx, rng, n):
    tier_marathon = 700 if ctx.tier == "quick" else (25000 if n == len(SWEEP) else 4000)
    if n < len(SWEEP):
        allow, pol, t, lvl, sc = SWEEP[n]
        cfg = {"allow": allow, "policy": pol, "rate": 0.0, "silent": True, "alias": False, "sink": "stringio", "tz": sc == 2,
               "ctor": "list", "unsilence_at": None,
               "genes": [{"name": "g0", "type": TYPES[t], "level": lvl, "required": False, "value": gen_value(rng)},
                         {"name": "g1", "type": TYPES[(t + 1) % 5], "level": (lvl + 2) % 5, "required": True,
                          "value": gen_value(rng)}]}
        kinds = list(SCRIPTS[sc])
        return cfg, kinds, len(kinds)
    marathon = n < len(SWEEP) + MARATHONS
    ng = rng.randint(1, 6)
    genes = []
    hostile = rng.random() < 0.2
    for i in range(ng):
        name = "g%d" % i
        if hostile and rng.random() < 0.6:
            name = rng.choice(HOSTILE_NAMES)
            if rng.random() < 0.2:
                name = S(name)
        if i > 0 and rng.random() < 0.06:
            name = genes[rng.randrange(i)]["name"]          # duplicate name inside the initial gene list
        genes.append({"name": name, "type": rng.choice(TYPES), "level": rng.choice([0, 1, 2, 2, 2, 3, 4]),
                      "required": rng.random() < 0.3, "value": gen_value(rng)})
    policy = rng.choice(POLICIES) if rng.random() < 0.8 else rng.choice(EXTRA_POLICIES)
    sink = rng.choice(["stringio"] * 6 + ["utf8-strict"] * 3 + ["latin1-strict"])
    cfg = {"allow": rng.random() < 0.3, "policy": policy,
           "rate": rng.choice([0.0, 0.0, 0.0, 0, 1.0, 0.5, 1, True, Fraction(1, 2), Decimal("0.5"), 1e-9, 5, -1]),
           "silent": rng.random() < 0.85, "alias": rng.random() < 0.25, "sink": sink, "tz": rng.random() < 0.3,
           "ctor": rng.choice(["list", "list", "list", "tuple", "generator", "iter", "from_dict", "add_later"]),
           "unsilence_at": None, "genes": genes}
    depth = rng.randint(1, 8)
    if rng.random() < 0.03:
        depth = rng.randint(9, 40)
    if marathon:
        depth = tier_marathon
        cfg["alias"] = False
        if (n - len(SWEEP)) % 2 == 1:
            # round 5: a mutation storm on ONE genome (well over a thousand attempts, approved and refused): caps on the audit log,
            # counters that wrap, rollback after a long tail of refusals
            cfg["storm"] = True
            depth = max(depth, 1600)
    if sink != "stringio" and rng.random() < 0.7:
        cfg["silent"] = True                      # built silently, made verbose later through the public attribute
        cfg["unsilence_at"] = rng.randrange(depth)
    if rng.random() < 0.01:
        cfg["rate"] = rng.choice([None, "0.5"])
    return cfg, None, depth


def run_case(ctx, n):
    rng = ctx.rng(n)
    _reset_case_state()
    cfg, kinds, depth = make_case(ctx, rng, n)
    h = History(ctx, rng, cfg)
    try:
        h.run(depth, kinds)
    except ContractBroken as e:
        ctx.violation("contract:" + str(e).split(":")[0], "icontract postcondition failed: %s" % e,
                      {"config": cfg, "history": h.trace})
    finally:
        if h.tz_touched:
            _set_tz(_TZ0)
        _reset_case_state()


class History:
    def __init__(self, ctx, rng, cfg):
        self.ctx, self.rng, self.cfg = ctx, rng, cfg
        self.nodes = []
        self.trace = []        # JSON-able op descriptions (the witness)
        self.dropped = 0
        self.kinds = []
        self.outcomes = []
        self.kept = []         # (object, route, node idx) references the workload keeps
        self.genes_made = []   # Gene objects handed to some member (re-used: the same object in several genomes)
        self.pool = []         # values used so far (re-used so that subset policies see repeats)
        self.aliased = False   # an in-place edit of a kept reference has happened
        self.calls = []        # shared sink of all stubs of this case
        self.stubs = []
        self.flags = set()
        self.stop = False
        self.sink = make_sink(cfg["sink"])
        self.tz_touched = False
        self.tz_off = None
        self.back_epoch = 0
        self.last_gene = None
        self.last_node = None
        self.nops = 0
        self.churn_serial = 0

    # -------------------------------------------------------------- utilities
    def witness(self, **kw):
        w = {"config": self.cfg, "history": self.trace, "earlier_operations_not_shown": self.dropped}
        w.update(kw)
        return w

    def keep(self, v, route, idx):
        if isinstance(v, (list, dict)) and len(self.kept) < 64:
            self.kept.append((v, route, idx))

    def fresh_value(self):
        r = self.rng.random()
        if self.pool and r < 0.25:
            return copy.deepcopy(self.rng.choice(self.pool))
        v = gen_value(self.rng)
        if len(self.pool) < 12 and not has_identity(canon(v)):
            self.pool.append(copy.deepcopy(v))
        return v

    def snaps(self):
        return [snap(self.ctx, nd.g) for nd in self.nodes]

    def drain(self):
        c = list(self.calls)
        del self.calls[:]
        return c

    def api(self, name):
        _API_CALLED.add(name)

    def invoke(self, name, fn):
        """Run one library call with stdout on the case's sink. Returns (True, result) or (False, exception)."""
        self.api(name)
        try:
            with contextlib.redirect_stdout(self.sink):
                return True, fn()
        except Exception as e:
            self.ctx.count("call_raised:" + type(e).__name__)
            return False, e

    def approved_by(self, nd, calls, name, valc):
        """The member's CURRENT callback approved exactly this change during this call."""
        return any(c[0] == name and c[1] == valc and c[3] and c[4] is nd.cb for c in calls)

    def real_log(self, g):
        lg = getattr(g, "_mutations", None)      # informational only; every judged obligation uses the public counters
        return lg if isinstance(lg, list) else None

    def log_add(self, nd, name, prev, approved):
        if nd.log is not None:
            nd.log.append((name, prev, approved, self.back_epoch))

    def sync(self, nd, s):
        nd.vals = dict(s["values"])
        nd.types = {t[0]: t[2] for t in s["genes"]}
        nd.levels = dict(s["levels"])

    def new_stub(self, policy=None):
        if policy is None:
            policy = self.rng.choice(POLICIES[1:]) if self.rng.random() < 0.75 else self.rng.choice(EXTRA_POLICIES)
        cls = {"falsy-all": FalsyLenStub, "falsy-bool-all": FalsyBoolStub}.get(policy, Stub)
        s = cls(policy, self.rng.getrandbits(32), self, "s%d" % len(self.stubs))
        self.stubs.append(s)
        return s

    # -------------------------------------------------------------- construction
    def build(self):
        m = _lib()
        self.Gene, self.GeneType, self.ExpressionLevel, self.Genome = m.Gene, m.GeneType, m.ExpressionLevel, m.Genome
        cfg = self.cfg
        stub = None
        if cfg["policy"] != "none":
            stub = self.new_stub(cfg["policy"])
        ctor = cfg["ctor"]
        if ctor == "from_dict":
            seen = {}
            for gd in cfg["genes"]:
                gd["type"], gd["level"], gd["required"] = "structural", 2, False
                seen[gd["name"]] = gd
            cfg["genes"] = list(seen.values())
        genes = []
        for gd in cfg["genes"]:
            genes.append(self.make_gene(gd["name"], gd["value"], gd["type"], gd["level"], gd["required"], None))
        kw = dict(allow_mutations=cfg["allow"], mutation_rate=cfg["rate"], on_mutation=stub, silent=cfg["silent"])
        if ctor == "from_dict":
            ok, g = self.invoke("from_dict", lambda: self.Genome.from_dict({gd["name"]: gd["value"] for gd in cfg["genes"]}, **kw))
        elif ctor == "add_later":
            ok, g = self.invoke("__init__", lambda: self.Genome(**kw))
            if ok:
                for gene in genes:
                    ok2, e = self.invoke("add_gene", lambda: g.add_gene(gene))
                    if not ok2:
                        self.ctx.count("construct_add_raised")
        else:
            arg = {"list": lambda: list(genes), "tuple": lambda: tuple(genes), "generator": lambda: (x for x in genes),
                   "iter": lambda: iter(genes)}[ctor]()
            ok, g = self.invoke("__init__", lambda: self.Genome(arg, **kw) if self.rng.random() < 0.3 else self.Genome(genes=arg, **kw))
        if not ok:
            self.ctx.count("construct_raised")
            return False
        self.ctx.count("ctor:" + ctor)
        nd = Node(0, g, None, cfg["allow"], stub, cfg["rate"], cfg["silent"], 0)
        # model of construction = add_gene semantics applied in order
        for gd in cfg["genes"]:
            if gd["name"] in nd.vals and not cfg["allow"]:
                continue
            nd.vals[gd["name"]] = canon(gd["value"])
            nd.types[gd["name"]] = gd["type"]
            nd.levels[gd["name"]] = gd["level"]
        self.nodes.append(nd)
        self.kept = [(o, r, 0 if i is None else i) for (o, r, i) in self.kept]
        s = snap(self.ctx, g)
        if ctor == "add_later" and dict(s["values"]) != nd.vals:
            self.ctx.count("construct_add_later_partial")       # a print raised between store and return
        self.compare_model(nd, s, "construct")
        self.sync(nd, s) if ctor == "add_later" else None
        return True

    def make_gene(self, name, value, gtype, level, required, idx):
        self.keep(value, "ctor", idx)
        g = self.Gene(name=name, value=value, gene_type=self.GeneType(gtype), description="d-" + name,
                      required=required, default_expression=self.ExpressionLevel(level))
        if len(self.genes_made) < 32:
            self.genes_made.append((g, gtype, level))
        return g

    def compare_model(self, nd, s, where):
        """The model's authorised values must be what the genome stores."""
        actual = dict(s["values"])
        if actual != nd.vals:
            diff = {k: (nd.vals.get(k), actual.get(k)) for k in set(actual) | set(nd.vals) if nd.vals.get(k) != actual.get(k)}
            self.ctx.violation("stored-values-differ-from-authorised:" + where,
                               "genome #%d stores values that differ from the authorised ones" % nd.idx,
                               self.witness(member=nd.idx, differences=diff))
            nd.vals = actual
            return False
        exported = {t[0]: t[1] for t in s["genes"]}
        if exported != actual:
            self.ctx.violation("export-differs-from-stored", "export()['genes'] disagrees with get_gene().value",
                               self.witness(member=nd.idx, exported=exported, stored=actual))
        for name, gv in s["get_value"]:
            lvl = dict(s["levels"]).get(name)
            want = "<default>" if lvl == SILENCED else actual[name]
            if gv != want:
                self.ctx.violation("get_value-differs-from-stored", "get_value(%r) returned %s, stored %s (level %r)" % (
                    name, gv, actual[name], lvl), self.witness(member=nd.idx))
        if s["hash"] != s["stat_hash"]:
            self.ctx.violation("statistics-hash", "get_statistics()['hash'] != get_hash()", self.witness(member=nd.idx))
        return True

    # -------------------------------------------------------------- main loop
    def run(self, depth, forced_kinds):
        ctx = self.ctx
        if self.cfg["tz"]:
            self.tz_set(0)
        if not self.build():
            return
        deadline = ctx.t0 + 0.7 * plan(ctx.tier)["timeout"]
        for i in range(depth):
            if self.stop:
                break
            if i > 40 and i % 256 == 0 and time.time() > deadline:
                ctx.count("marathon_cut_short_by_shard_budget")     # workload size only, never a verdict
                break
            if self.cfg["unsilence_at"] == i:
                self.unsilence()
            kind = forced_kinds[i] if forced_kinds else self.pick_kind()
            if kind in PSEUDO:
                self.tz_step(back=True)
                continue
            if self.cfg["tz"] and not forced_kinds and self.rng.random() < 0.2:
                self.tz_step(back=self.rng.random() < 0.6)
            nd = self.rng.choice(self.nodes)
            if forced_kinds and kind == "mutate" and i == len(forced_kinds) - 1 and len(self.nodes) > 1:
                nd = self.nodes[-1]
            name = None
            if kind.endswith("_same"):
                kind = kind[:-5]
                if self.last_node is not None:
                    nd, name = self.last_node, self.last_gene
            self.nops += 1
            if self.nops % 300 == 0:
                self.sink = make_sink(self.cfg["sink"])
            ctx.count("ops")
            ctx.count("op:" + kind)
            if nd.duplicate:
                ctx.count("ops_on_duplicates")
            if name is not None:
                getattr(self, "op_" + kind)(nd, name=name)
            else:
                getattr(self, "op_" + kind)(nd)
        ctx.maxc("lineage_size", len(self.nodes))
        ctx.maxc("history_length", self.nops)
        refused = "refused" in self.flags
        can_authorise = self.cfg["allow"] or self.cfg["policy"] not in ("none", "nobody", "raise") or "reconfigured" in self.flags
        if refused or self.cfg["allow"]:
            if "authorised" in self.flags or not can_authorise or "replicated" in self.flags:
                cfgkey = (self.cfg["allow"], self.cfg["policy"], repr(self.cfg["rate"]), self.cfg["sink"], self.cfg["ctor"],
                          tuple((g["name"], g["type"], g["level"], canon(g["value"])) for g in self.cfg["genes"]))
                ctx.nontrivial((cfgkey, tuple(self.kinds[-80:]), tuple(self.outcomes[-80:])))
        ctx.sample({"config": self.cfg, "history": self.trace[:12]}, cap=3)

    def retire(self):
        """Marathon sessions: drop one non-root member so that the lineage (and the snapshot cost) stays bounded."""
        victim = self.rng.choice(self.nodes[1:])
        self.nodes.remove(victim)
        for i, nd in enumerate(self.nodes):
            nd.idx = i
        if self.last_node is victim:
            self.last_node = None
        self.ctx.count("members_retired")
        self.trace.append({"env": "member retired, members renumbered", "was": victim.idx})

    def pick_kind(self):
        if self.cfg.get("storm"):
            self.ctx.count("storm_ops")
            r = self.rng.random()
            return "mutate" if r < 0.9 else "rollback" if r < 0.94 else "reads" if r < 0.97 else "reconfigure"
        many = len(self.nodes) >= 5
        if len(self.nodes) >= 7:
            if self.cfg["alias"]:
                many = True
            else:
                self.retire()
        w = [("mutate", 30), ("add_existing", 9), ("add_new", 5), ("rollback", 13), ("set_expression", 6),
             ("silence", 4), ("activate", 3), ("replicate", 2 if many else 12), ("express", 10),
             ("reconfigure", 9), ("duplicate", 1 if many else 4), ("reads", 4), ("churn", 2)]
        if len(self.nodes) >= 8:
            w = [x for x in w if x[0] not in ("replicate", "duplicate")]
        if self.cfg["alias"]:
            w.append(("alias", 14))
        tot = sum(x for _, x in w)
        r = self.rng.uniform(0, tot)
        for k, x in w:
            r -= x
            if r <= 0:
                return k
        return "mutate"

    def record(self, kind, nd, outcome, **kw):
        self.kinds.append(kind)
        self.outcomes.append(outcome)
        d = {"op": kind, "on": nd.idx, "outcome": outcome}
        d.update(kw)
        self.trace.append(core.jsonable(d))
        if len(self.trace) > 80:
            del self.trace[:20]
            self.dropped += 20
            del self.kinds[:-100]
            del self.outcomes[:-100]

    # -------------------------------------------------------------- environment steps
    def tz_set(self, zi):
        self.tz_touched = True
        name, off = ZONES[zi]
        _set_tz(name)
        old, self.tz_off = self.tz_off, off
        self.ctx.count("tz_steps")
        if abs(-time.timezone / 3600.0 - off) > 1e-6:
            self.ctx.inconclusive("time.tzset() did not move the local clock to TZ=%s" % name)
            return
        if old is not None and off < old:
            self.ctx.count("tz_backward_steps")
            self.back_epoch += 1
            self.trace.append({"env": "local clock stepped back", "TZ": name, "hours": old - off})
        elif old is not None:
            self.trace.append({"env": "TZ", "TZ": name})

    def tz_step(self, back):
        cur = self.tz_off if self.tz_off is not None else 0.0
        if back:
            lower = [i for i, (_, off) in enumerate(ZONES) if off < cur]
            if not lower:
                self.tz_set(1)                 # jump to UTC+14 first (forward), then back
                cur = self.tz_off
                lower = [i for i, (_, off) in enumerate(ZONES) if off < cur]
            self.tz_set(self.rng.choice(lower))
        else:
            self.tz_set(self.rng.randrange(len(ZONES)))

    def unsilence(self):
        for nd in self.nodes:
            nd.g.silent = False
            nd.silent = False
        self.ctx.count("setting_assignments", len(self.nodes))
        self.trace.append({"env": "silent = False assigned on every member", "sink": self.cfg["sink"]})

    # -------------------------------------------------------------- generic frame invariant
    def frame(self, kind, nd, before, after, calls, new_gene=None, meta_may_change=()):
        """Checks that hold for every operation; returns the set of genes of `nd` whose value changed."""
        ctx = self.ctx
        for other in self.nodes:
            if other is nd or other.idx >= len(before):
                continue
            b, a = before[other.idx], after[other.idx]
            if other.group == nd.group:
                # a second handle on shared state (copy.copy): only "no unauthorised value change" is judged
                ctx.count("shared_handle_snapshots_compared")
                if a != b:
                    bv, av = dict(b["values"]), dict(a["values"])
                    for name in set(bv) & set(av):          # a gene under a new name is not a change of a stored value
                        if bv.get(name) != av.get(name) and not (
                                nd.allow or self.approved_by(nd, calls, name, av.get(name))):
                            ctx.violation("unauthorised-value-change-through-shared-handle:" + kind,
                                          "%s on genome #%d changed value of %r seen through handle #%d without authorisation"
                                          % (kind, nd.idx, name, other.idx), self.witness(member=nd.idx, gene=name))
                    self.sync(other, a)
                    other.log = None
                continue
            ctx.count("other_member_snapshots_compared")
            if a != b:
                what = [k for k in a if a[k] != b[k]]
                mech = "replicate-alters-other-member" if kind == "replicate" else "cross-genome-effect:" + kind
                ctx.violation(mech, "%s on genome #%d changed %s of genome #%d" % (kind, nd.idx, what, other.idx),
                              self.witness(changed=what, before=b, after=a))
        b, a = before[nd.idx], after[nd.idx]
        bv, av = dict(b["values"]), dict(a["values"])
        changed = set()
        for name, old in bv.items():
            if name not in av:
                ctx.violation("gene-disappeared:" + kind, "gene %r vanished" % name, self.witness(member=nd.idx))
                continue
            if av[name] != old:
                changed.add(name)
                ok = nd.allow or self.approved_by(nd, calls, name, av[name])
                if not ok:
                    ctx.violation("unauthorised-value-change:" + kind,
                                  "%s changed stored value of %r from %s to %s with mutations disabled and no approval "
                                  "of that change by the current callback" % (kind, name, old, av[name]),
                                  self.witness(member=nd.idx, gene=name, approvals_asked=calls,
                                               settings_changed_after_construction=nd.sealed_after_open or nd.cb_changed))
        added = [x for x in av if x not in bv]
        if added and added != [new_gene]:
            ctx.violation("unexpected-gene:" + kind, "genes %r appeared" % added, self.witness(member=nd.idx))
        if added and not changed:
            bm = {t[0]: t for t in b["genes"]}
            am = {t[0]: t for t in a["genes"]}
            if any(am.get(x) != bm[x] for x in bm):
                ctx.violation("new-gene-changes-existing", "adding a new gene changed the record of an existing gene",
                              self.witness(member=nd.idx, before=b["genes"], after=a["genes"]))
        if not changed and not added:
            if snap_config(b) != snap_config(a):
                bm = {t[0]: t[2:] for t in b["genes"]}
                am = {t[0]: t[2:] for t in a["genes"]}
                meta = [x for x in bm if bm[x] != am.get(x)]
                if meta and set(meta) <= set(meta_may_change) and nd.allow:
                    pass
                elif a["hash"] != b["hash"] or a["stat_hash"] != b["stat_hash"]:
                    ctx.violation("hash-changed-without-value-change:" + kind,
                                  "get_hash() went %s -> %s although no stored value changed" % (b["hash"], a["hash"]),
                                  self.witness(member=nd.idx))
                else:
                    ctx.violation("config-changed-without-authorisation:" + kind,
                                  "export()/lineage data changed although no value changed",
                                  self.witness(member=nd.idx, before=b, after=a))
        if kind == "replicate" and a != b:
            what = [k for k in a if a[k] != b[k]]
            ctx.violation("replicate-alters-parent", "replicate changed %s of the parent" % what,
                          self.witness(member=nd.idx, before=b, after=a))
        return changed

    def after_raise(self, kind, nd, name, before, after, calls, exc, authorised, known):
        """A mutate/rollback call raised. frame() has judged the values; here: the refusal must still be on the log."""
        ctx = self.ctx
        b, a = before[nd.idx], after[nd.idx]
        dlog = (a["log"][0] - b["log"][0], a["log"][1] - b["log"][1])
        cb_raised = any(c[5] for c in calls)
        if cb_raised:
            ctx.count("callback_raised_ops")
        else:
            ctx.count("print_raised_ops" if isinstance(exc, UnicodeEncodeError) else "other_raised_ops")
        if known and not authorised and not cb_raised:
            # the attempt was refused (nobody approved, the callback - if any - answered) and the call then raised
            self.flags.add("refused")
            ctx.count("refused_while_print_raises")
            if dlog != (1, 0):
                why = "print-raised" if isinstance(exc, UnicodeEncodeError) else "raised-" + type(exc).__name__
                ctx.violation("refused-%s-not-logged:%s" % (kind, why),
                              "%s of %r was refused and then raised %s; (mutations_count, approved_mutations) changed by %r "
                              "instead of (1, 0): the refused attempt is not on the log" % (kind, name, type(exc).__name__, dlog),
                              self.witness(member=nd.idx, gene=name, sink=self.cfg["sink"], silent=nd.silent))
        prev = nd.vals.get(name)
        if dlog == (1, 1):
            self.log_add(nd, name, prev, True)
        elif dlog == (1, 0):
            self.log_add(nd, name, prev, False)
        elif dlog != (0, 0):
            nd.log = None
        self.sync(nd, a)
        self.record(kind, nd, "raised:" + type(exc).__name__, gene=name)

    # -------------------------------------------------------------- operations
    def pick_gene_name(self, nd, unknown_p=0.08):
        names = list(nd.vals)
        if not names or self.rng.random() < unknown_p:
            return "nope%d" % self.rng.randrange(3) if self.rng.random() < 0.7 else self.rng.choice(HOSTILE_NAMES)
        return self.rng.choice(names)

    def op_mutate(self, nd, name=None, value=_MISSING):
        ctx = self.ctx
        if name is None:
            name = self.pick_gene_name(nd)
        r = self.rng.random()
        if value is not _MISSING:
            new = value
        elif name in nd.vals and r < 0.08 and nd.g.get_gene(name) is not None:
            new = nd.g.get_gene(name).value          # "mutation" to the identical stored object
            self.keep(new, "gene-object", nd.idx)
        else:
            new = self.fresh_value()
            self.keep(new, "mutate-arg", nd.idx)
        newc = canon(new)
        self.last_gene, self.last_node = name, nd
        form = self.rng.randrange(3)
        before = self.snaps()
        if form == 0:
            ok, ret = self.invoke("mutate", lambda: nd.g.mutate(name, new, "r"))
        elif form == 1:
            ok, ret = self.invoke("mutate", lambda: nd.g.mutate(name, new))
        else:
            ok, ret = self.invoke("mutate", lambda: nd.g.mutate(gene_name=name, new_value=new, reason="why\udc80{}%s"))
        after = self.snaps()
        calls = self.drain()
        self.frame("mutate", nd, before, after, calls)
        b, a = before[nd.idx], after[nd.idx]
        dlog = (a["log"][0] - b["log"][0], a["log"][1] - b["log"][1])
        known = name in nd.vals
        authorised = nd.allow or self.approved_by(nd, calls, name, newc)
        if known and not nd.allow:
            if nd.sealed_after_open:
                ctx.count("attempts_after_sealing")
            if nd.cb_changed:
                ctx.count("attempts_after_callback_change")
            if nd.cb is not None and nd.cb.falsy:
                ctx.count("falsy_callback_attempts")
                ctx.count("falsy_callback_consulted" if calls else "falsy_callback_not_consulted")
        if not ok:
            self.after_raise("mutate", nd, name, before, after, calls, ret, authorised, known)
            return
        if not known:
            if ret or snap_config(a) != snap_config(b):
                ctx.violation("mutate-unknown-gene", "mutate on an unknown gene returned %r / changed the genome" % (ret,),
                              self.witness(member=nd.idx))
            self.record("mutate", nd, "unknown", gene=name)
            return
        if nd.cb is not None and not nd.allow:
            ctx.count("callback_consulted_ops" if calls else "callback_not_consulted_ops")
        if not authorised:
            self.flags.add("refused")
            good = True
            if ret:
                good = False
                ctx.violation("refused-mutate-returns-true", "mutate returned %r for a change nobody authorised" % (ret,),
                              self.witness(member=nd.idx, gene=name, approvals_asked=calls))
            if dlog != (1, 0):
                good = False
                ctx.violation("refused-mutate-not-logged",
                              "refused mutate changed (mutations_count, approved_mutations) by %r instead of (1, 0)" % (dlog,),
                              self.witness(member=nd.idx, gene=name, new=newc))
            else:
                lg = self.real_log(nd.g)
                if lg:
                    ctx.count("log_entries_inspected")
                    m = lg[-1]
                    if m.gene_name != name or m.approved or canon(m.new_value) != newc \
                            or canon(m.original_value) != nd.vals[name]:
                        good = False
                        ctx.violation("refused-mutate-log-entry",
                                      "last log entry does not describe the refused attempt",
                                      self.witness(member=nd.idx, gene=name, entry=repr(m)))
            if snap_config(a) != snap_config(b):
                good = False   # already reported by frame()
            if good:
                ctx.count("refused_mutate_logged")
            self.log_add(nd, name, nd.vals[name], False)
            self.record("mutate", nd, "refused", gene=name, new=newc)
            return
        # authorised
        if not nd.allow:
            ctx.count("approved_by_callback")
        stored = dict(a["values"])[name]
        if stored == newc and (ret or nd.vals[name] != newc):
            self.flags.add("authorised")
            if not ret:
                ctx.violation("applied-mutate-returns-false", "mutate applied the change but returned %r" % (ret,),
                              self.witness(member=nd.idx, gene=name))
            if dlog != (1, 1):
                ctx.violation("approved-mutate-not-logged",
                              "authorised mutate changed (mutations_count, approved_mutations) by %r instead of (1, 1)" % (dlog,),
                              self.witness(member=nd.idx, gene=name, new=newc))
            self.log_add(nd, name, nd.vals[name], True)
            nd.vals[name] = newc
            self.record("mutate", nd, "applied", gene=name, new=newc)
        elif stored == nd.vals[name]:
            ctx.count("authorised_mutation_not_applied")
            self.log_add(nd, name, nd.vals[name], dlog[1] > 0)
            self.record("mutate", nd, "authorised-not-applied", gene=name, new=newc)
        else:
            ctx.violation("mutate-stores-other-value", "authorised change to %s but stored %s" % (newc, stored),
                          self.witness(member=nd.idx, gene=name))
            nd.vals[name] = stored
            self.record("mutate", nd, "other", gene=name, new=newc)

    def op_churn(self, nd):
        """Many short-lived equal-length inputs on one gene (address reuse), each judged like any mutate."""
        names = list(nd.vals)
        if not names:
            return self.op_mutate(nd)
        name = self.rng.choice(names)
        k = self.rng.randint(4, 12)
        collect = self.rng.random() < 0.08
        for i in range(k):
            if self.stop:
                break
            self.churn_serial += 1
            j = self.rng.randrange(3)
            v = ("v%06d" % self.churn_serial) if j == 0 else [self.churn_serial] if j == 1 else {"k": "%06d" % self.churn_serial}
            self.ctx.count("ops")
            self.ctx.count("churn_mutations")
            self.op_mutate(nd, name=name, value=v)
            del v
            if collect and i % 4 == 3:
                gc.collect()
                self.ctx.count("gc_collections")

    def op_rollback(self, nd, name=None):
        ctx = self.ctx
        if name is None:
            name = self.pick_gene_name(nd, 0.05)
            # prefer genes that have an approved mutation
            if nd.log:
                cands = [e[0] for e in nd.log if e[2]]
                if cands and self.rng.random() < 0.7:
                    name = self.rng.choice(cands)
        before = self.snaps()
        ok, ret = self.invoke("rollback_mutation", (lambda: nd.g.rollback_mutation(name)) if self.rng.random() < 0.7 else (
            lambda: nd.g.rollback_mutation(gene_name=name)))
        after = self.snaps()
        calls = self.drain()
        self.frame("rollback", nd, before, after, calls)
        b, a = before[nd.idx], after[nd.idx]
        dlog = (a["log"][0] - b["log"][0], a["log"][1] - b["log"][1])
        if nd.log is None:
            ctx.count("rollback_with_unknown_log")
            self.sync(nd, a)
            self.record("rollback", nd, "unknown-log", gene=name)
            return
        target = None
        for e in reversed(nd.log):
            if e[0] == name and e[2]:
                target = e
                break
        if not ok and self.aliased:
            # the model's rollback target may be an object the workload edited in place: nothing to judge beyond frame()
            ctx.count("recorded_not_judged:alias-rollback-raised")
            self.stop = True
            return
        if not ok:
            want = target[1] if target is not None else None
            authorised = target is not None and (nd.allow or self.approved_by(nd, calls, name, want))
            self.after_raise("rollback", nd, name, before, after, calls, ret, authorised,
                             target is not None and name in nd.vals)
            return
        if target is None or name not in nd.vals:
            if ret or snap_config(a) != snap_config(b):
                ctx.violation("rollback-without-approved-mutation",
                              "rollback returned %r / changed the genome although the gene has no approved mutation" % (ret,),
                              self.witness(member=nd.idx, gene=name))
                self.sync(nd, a)
            self.record("rollback", nd, "nothing", gene=name)
            return
        want = target[1]
        epochs = set(e[3] for e in nd.log if e[0] == name and e[2])
        authorised = nd.allow or self.approved_by(nd, calls, name, want)
        stored = dict(a["values"])[name]
        asked = [c for c in calls if c[0] == name and c[4] is nd.cb]
        if not nd.allow and asked and all(c[1] != want for c in asked):
            mech = "alias-rollback-restores-edited-object" if self.aliased else "rollback-wrong-value"
            if self.aliased:
                ctx.count("recorded_not_judged:" + mech)
                self.stop = True
                return
            ctx.violation(mech, "rollback of %r asked approval for restoring %s; the value preceding the last approved "
                                "mutation was %s" % (name, asked[0][1], want),
                          self.witness(member=nd.idx, gene=name, local_clock_stepped_back_between_mutations=len(epochs) > 1))
            self.log_add(nd, name, nd.vals[name], dlog[1] > 0)
            self.sync(nd, a)
            self.record("rollback", nd, "wrong-target", gene=name, to=want)
            return
        if authorised:
            self.flags.add("authorised")
            if stored != want or not ret:
                mech = "alias-rollback-restores-edited-object" if self.aliased else "rollback-wrong-value"
                if self.aliased:
                    ctx.count("recorded_not_judged:" + mech)
                    self.stop = True
                    return
                ctx.violation(mech, "authorised rollback of %r stored %s (returned %r); the value preceding the last "
                                    "approved mutation was %s" % (name, stored, ret, want),
                              self.witness(member=nd.idx, gene=name,
                                           local_clock_stepped_back_between_mutations=len(epochs) > 1))
            else:
                ctx.count("rollback_authorised")
                if want != nd.vals[name]:
                    ctx.count("rollback_authorised_changing_value")
                if len(epochs) > 1:
                    ctx.count("rollback_across_backward_clock_step")
            if dlog != (1, 1):
                ctx.violation("approved-rollback-not-logged", "authorised rollback changed the log counters by %r" % (dlog,),
                              self.witness(member=nd.idx, gene=name))
            self.log_add(nd, name, nd.vals[name], True)
            nd.vals[name] = stored
            self.record("rollback", nd, "restored", gene=name, to=want)
        else:
            self.flags.add("refused")
            if nd.sealed_after_open:
                ctx.count("attempts_after_sealing")
            if ret or dlog != (1, 0):
                ctx.violation("refused-rollback-not-logged",
                              "refused rollback returned %r and changed the log counters by %r instead of (1, 0)" % (ret, dlog),
                              self.witness(member=nd.idx, gene=name, approvals_asked=calls))
            else:
                ctx.count("rollback_refused")
            self.log_add(nd, name, nd.vals[name], False)
            self.sync(nd, a)
            self.record("rollback", nd, "refused", gene=name, to=want)

    def _add(self, nd, name, kind):
        ctx = self.ctx
        reuse = None
        if self.genes_made and self.rng.random() < 0.12:
            cand = [t for t in self.genes_made if (t[0].name in nd.vals) == (kind == "add_existing")]
            if cand:
                reuse = self.rng.choice(cand)     # the very same Gene object, possibly already stored in another member
        if reuse is not None:
            gene, gtype, level = reuse
            name, value = gene.name, gene.value
            ctx.count("gene_object_reused")
        else:
            value = self.fresh_value()
            gtype = self.rng.choice(TYPES)
            level = self.rng.choice([0, 1, 2, 3, 4])
            gene = self.make_gene(name, value, gtype, level, self.rng.random() < 0.3, nd.idx)
        vc = canon(value)
        existed = name in nd.vals
        before = self.snaps()
        ok, ret = self.invoke("add_gene", (lambda: nd.g.add_gene(gene)) if self.rng.random() < 0.7 else (lambda: nd.g.add_gene(gene=gene)))
        after = self.snaps()
        calls = self.drain()
        self.frame(kind, nd, before, after, calls, new_gene=None if existed else name, meta_may_change=(name,))
        b, a = before[nd.idx], after[nd.idx]
        if not ok:
            ctx.count("add_raised")
            ret = False
        if a["log"] != b["log"] and not nd.allow:
            ctx.count("readd_logged")
        if existed and not nd.allow:
            self.flags.add("refused")
            if nd.sealed_after_open:
                ctx.count("attempts_after_sealing")
            bb, aa = dict(b), dict(a)
            bb.pop("log"), aa.pop("log")      # a refused re-add may or may not be logged
            if ret or aa != bb:
                ctx.violation("refused-readd-changes-genome",
                              "re-adding %r with mutations disabled returned %r / changed %s" % (
                                  name, ret, [k for k in aa if aa[k] != bb[k]]),
                              self.witness(member=nd.idx, gene=name))
                self.sync(nd, a)
            else:
                ctx.count("refused_readd")
            self.record(kind, nd, "refused" if ok else "refused-raised", gene=name, value=vc)
            return
        stored = dict(a["values"]).get(name)
        if stored == vc:
            if existed:
                self.flags.add("authorised")
            nd.vals[name] = vc
            nd.types[name] = gtype
            self.record(kind, nd, "added" if ok else "added-raised", gene=name, value=vc, type=gtype, level=level)
        else:
            if not existed:
                ctx.count("new_gene_not_added")
            self.record(kind, nd, "not-added", gene=name, value=vc)
        # types/levels after an accepted add are observed, not judged
        nd.vals = dict(a["values"]) if nd.allow else nd.vals
        am = {t[0]: t[2] for t in a["genes"]}
        nd.types.update({k: v for k, v in am.items()})
        nd.levels = dict(a["levels"])

    def op_add_existing(self, nd):
        self._add(nd, self.pick_gene_name(nd, 0.0), "add_existing")

    def op_add_new(self, nd):
        nm = "n%d" % len(nd.vals)
        if self.rng.random() < 0.15:
            nm = self.rng.choice(HOSTILE_NAMES)
        self._add(nd, nm, "add_existing" if nm in nd.vals else "add_new")

    def _expr(self, nd, kind, name, level, call):
        ctx = self.ctx
        before = self.snaps()
        ok, ret = self.invoke(kind if kind == "set_expression" else kind + "_gene", call)
        after = self.snaps()
        calls = self.drain()
        self.frame(kind, nd, before, after, calls)
        b, a = before[nd.idx], after[nd.idx]
        if not ok:
            ctx.count("expression_op_raised")
            nd.levels = dict(a["levels"])
            self.record(kind, nd, "raised:" + type(ret).__name__, gene=name, level=level)
            return
        if name in nd.vals:
            nd.levels[name] = level
        if bool(ret) != (name in nd.vals):
            ctx.violation("expression-op-return", "%s(%r) returned %r" % (kind, name, ret), self.witness(member=nd.idx))
        if dict(a["levels"]) != nd.levels:
            ctx.violation("expression-op-level", "after %s(%r) the levels are %r, expected %r" % (
                kind, name, dict(a["levels"]), nd.levels), self.witness(member=nd.idx))
            nd.levels = dict(a["levels"])
        ctx.count("expression_ops_checked")
        self.record(kind, nd, "ok" if ret else "unknown", gene=name, level=level)

    def op_set_expression(self, nd):
        name = self.pick_gene_name(nd)
        level = self.rng.randrange(5)
        lv = self.ExpressionLevel(level)
        f = self.rng.randrange(3)
        self._expr(nd, "set_expression", name, level,
                   (lambda: nd.g.set_expression(name, lv, "m")) if f == 0 else
                   (lambda: nd.g.set_expression(name, lv)) if f == 1 else
                   (lambda: nd.g.set_expression(gene_name=name, level=lv, modifier="%s{}\udc80")))

    def op_silence(self, nd):
        name = self.pick_gene_name(nd)
        f = self.rng.randrange(3)
        self._expr(nd, "silence", name, 0, (lambda: nd.g.silence_gene(name, "why")) if f == 0 else
                   (lambda: nd.g.silence_gene(name)) if f == 1 else (lambda: nd.g.silence_gene(gene_name=name, reason="")))

    def op_activate(self, nd):
        name = self.pick_gene_name(nd)
        f = self.rng.randrange(2)
        self._expr(nd, "activate", name, 2, (lambda: nd.g.activate_gene(name)) if f == 0 else
                   (lambda: nd.g.activate_gene(gene_name=name, reason="r")))

    def op_express(self, nd):
        ctx = self.ctx
        r = self.rng.random()
        names = list(nd.vals)
        if r < 0.2:
            context = None
        elif r < 0.3:
            context = {}
        else:
            context = {}
            for nm in names:
                if self.rng.random() < 0.5:
                    context[nm] = self.rng.choice([True, False, None, 0, "x"])
            if self.rng.random() < 0.3:
                context["unrelated"] = 1
        before = self.snaps()
        f = self.rng.randrange(3)
        ok, cfg = self.invoke("express", (lambda: nd.g.express(context)) if (context is not None and f < 2) else
                              (lambda: nd.g.express(context=context)) if f == 2 else (lambda: nd.g.express()))
        after = self.snaps()
        calls = self.drain()
        self.frame("express", nd, before, after, calls)
        if after[nd.idx] != before[nd.idx] and snap_config(after[nd.idx]) == snap_config(before[nd.idx]):
            ctx.violation("express-changes-state", "express changed %s" % [
                k for k in after[nd.idx] if after[nd.idx][k] != before[nd.idx][k]], self.witness(member=nd.idx))
        if not ok:
            ctx.count("express_raised")
            self.record("express", nd, "raised:" + type(cfg).__name__)
            return
        inctx = set(context or {})
        want = {}
        for nm in names:
            t, lvl = nd.types[nm], nd.levels.get(nm)
            if lvl == SILENCED:
                ctx.count("express_silenced_seen")
                continue
            if t == "dormant":
                ctx.count("express_dormant_seen")
                continue
            if t == "conditional":
                if nm in inctx:
                    ctx.count("express_conditional_in_ctx")
                else:
                    ctx.count("express_conditional_not_in_ctx")
                    continue
            want[nm] = nd.vals[nm]
        got = {k: canon(v) for k, v in cfg.items()} if isinstance(cfg, dict) else repr(cfg)
        ctx.count("express_checked")
        if got != want:
            extra = sorted(set(got) - set(want)) if isinstance(got, dict) else []
            missing = sorted(set(want) - set(got)) if isinstance(got, dict) else []
            kinds = set()
            for nm in extra:
                kinds.add("silenced" if nd.levels.get(nm) == SILENCED else nd.types[nm] if nd.types.get(nm) in (
                    "dormant", "conditional") else "other")
            mech = "express-includes-" + "+".join(sorted(kinds)) if extra else (
                "express-omits-gene" if missing else "express-wrong-value")
            ctx.violation(mech, "express(%r) returned genes %r, the statement defines %r" % (
                context, sorted(got) if isinstance(got, dict) else got, sorted(want)),
                self.witness(member=nd.idx, context=context, got=got, want=want, types=nd.types, levels=nd.levels))
        self.record("express", nd, "ok", context=sorted(inctx) if context is not None else None, genes=sorted(want))

    def op_replicate(self, nd):
        ctx = self.ctx
        r = self.rng.random()
        muts = None
        if r < 0.7:
            muts = {}
            for _ in range(self.rng.randint(1, 3)):
                nm = self.pick_gene_name(nd, 0.1)
                v = self.fresh_value()
                self.keep(v, "replicate-arg", len(self.nodes))
                muts[nm] = v
        elif r < 0.8:
            muts = {}
        inherit = self.rng.random() < 0.7
        _global_random.seed(self.rng.getrandbits(32))
        arg = muts
        if muts is not None and self.rng.random() < 0.2:
            import collections
            import types
            arg = self.rng.choice([collections.OrderedDict(muts), types.MappingProxyType(muts)])
        before = self.snaps()
        if muts is None and inherit and self.rng.random() < 0.5:
            ok, child = self.invoke("replicate", lambda: nd.g.replicate())
        else:
            ok, child = self.invoke("replicate", (lambda: nd.g.replicate(arg, inherit)) if self.rng.random() < 0.5 else (
                lambda: nd.g.replicate(mutations=arg, inherit_expression=inherit)))
        after = self.snaps()
        calls = self.drain()
        self.frame("replicate", nd, before, after, calls)
        mc = {k: canon(v) for k, v in (muts or {}).items()}
        if not ok:
            ctx.count("replicate_raised")
            if any(c[5] for c in calls):
                ctx.count("callback_raised_ops")
            self.record("replicate", nd, "raised:" + type(child).__name__, mutations=mc)
            return
        ctx.count("replications")
        self.flags.add("replicated")
        cs = snap(ctx, child)
        pv = dict(after[nd.idx]["values"])
        cv = dict(cs["values"])
        rate0 = rate_is_zero(nd.rate)
        if set(cv) != set(pv):
            ctx.violation("child-gene-set", "child genes %r, parent genes %r" % (sorted(cv), sorted(pv)),
                          self.witness(member=nd.idx))
        differing = []
        for nm in pv:
            if nm not in cv:
                continue
            ctx.count("child_gene_compared")
            if has_identity(pv[nm]):
                ctx.count("identity_value_child_compared")
            if cv[nm] != pv[nm]:
                differing.append(nm)
                okc = nd.allow or self.approved_by(nd, calls, nm, cv[nm])
                if not okc:
                    ctx.violation("child-differs-unauthorised",
                                  "child value of %r is %s, parent has %s; mutations disabled and that change was not approved"
                                  % (nm, cv[nm], pv[nm]), self.witness(member=nd.idx, gene=nm, approvals_asked=calls,
                                                                       mutations=mc))
                elif nd.allow and rate0 and cv[nm] != mc.get(nm):
                    ctx.violation("child-differs-unrequested", "child value of %r is %s; requested mutations %r, rate 0" % (
                        nm, cv[nm], mc), self.witness(member=nd.idx, gene=nm))
                else:
                    ctx.count("child_gene_authorised_difference")
                    self.flags.add("authorised")
        pm = {t[0]: t[2:] for t in after[nd.idx]["genes"]}
        cm = {t[0]: t[2:] for t in cs["genes"]}
        if pm != cm:
            ctx.violation("child-gene-metadata", "child gene types/flags differ from the parent's",
                          self.witness(member=nd.idx, parent=pm, child=cm))
        # refused attempts on the child are logged on the child
        explicit = [k for k in (muts or {}) if k in pv]
        n_explicit = len(explicit)
        total, approved = cs["log"]
        unapproved = total - approved
        mine = [c for c in calls if c[4] is nd.cb]
        if nd.allow:
            if unapproved:
                ctx.violation("child-log-unapproved-under-allow", "child logs %d unapproved mutations although mutations are enabled"
                              % unapproved, self.witness(member=nd.idx))
        elif mine:
            refused_calls = sum(1 for c in mine if not c[3])
            ok_calls = sum(1 for c in mine if c[3])
            if refused_calls:
                self.flags.add("refused")
            if unapproved != refused_calls or approved != ok_calls:
                ctx.violation("child-log-mismatch",
                              "callback refused %d and approved %d changes during replicate, child logs %d unapproved / %d approved"
                              % (refused_calls, ok_calls, unapproved, approved),
                              self.witness(member=nd.idx, approvals_asked=calls))
            else:
                ctx.count("child_log_checked")
            if rate0 and len(mine) != n_explicit:
                ctx.count("replicate_callback_consultations_differ_from_requests")   # observed, not judged
        else:
            if n_explicit:
                self.flags.add("refused")
                if nd.sealed_after_open:
                    ctx.count("attempts_after_sealing")
            if approved or unapproved < n_explicit or (rate0 and unapproved != n_explicit):
                ctx.violation("child-refused-not-logged",
                              "%d explicit mutations had to be refused; child logs %d unapproved / %d approved" % (
                                  n_explicit, unapproved, approved), self.witness(member=nd.idx, mutations=mc))
            else:
                ctx.count("child_log_checked")
        # model of the child: it inherits the parent's current settings
        c_allow = getattr(child, "allow_mutations", nd.allow)
        if bool(c_allow) != bool(nd.allow) or (getattr(child, "on_mutation", nd.cb) is not None) != (nd.cb is not None):
            ctx.violation("child-authorisation-settings", "child has allow_mutations=%r / callback %r, parent %r / %r" % (
                c_allow, getattr(child, "on_mutation", None) is not None, nd.allow, nd.cb is not None),
                self.witness(member=nd.idx))
        cn = Node(len(self.nodes), child, nd.idx, nd.allow, nd.cb, nd.rate, nd.silent, self.new_group())
        cn.sealed_after_open, cn.cb_changed = nd.sealed_after_open, nd.cb_changed
        self.sync(cn, cs)
        if inherit and cn.levels != dict(after[nd.idx]["levels"]):
            ctx.count("child_levels_differ_from_parent_with_inherit")
        if total == n_explicit:
            # the child's log = one record per explicit mutation of an existing gene, in the order of the mapping
            cn.log = [(k, pv[k], bool(nd.allow or self.approved_by(nd, calls, k, mc[k])), self.back_epoch) for k in explicit]
        else:
            cn.log = None if total else []
        self.nodes.append(cn)
        self.record("replicate", nd, "child#%d:%s" % (cn.idx, ",".join(sorted(map(str, differing)))), mutations=mc,
                    inherit_expression=inherit, child_log=[total, approved])

    def new_group(self):
        return 1 + max(n.group for n in self.nodes)

    # -------------------------------------------------------------- settings assigned after construction
    def op_reconfigure(self, nd, what=None):
        ctx = self.ctx
        rng = self.rng
        what = what or rng.choice(["allow", "allow", "allow", "cb", "cb", "cb", "rate", "silent"])
        before = self.snaps()
        desc = None
        if what == "allow":
            v = rng.choice([True, False, False, False, 0, 1, None, "", "yes", [], [0], 0.0, 2])
            if nd.allow and not v:
                nd.sealed_after_open = True
            nd.g.allow_mutations = v
            nd.allow = bool(v)
            desc = repr(v)
        elif what == "seal":
            if nd.allow:
                nd.sealed_after_open = True
            if nd.cb is not None:
                nd.cb_changed = True
            nd.g.allow_mutations = False
            nd.g.on_mutation = None
            nd.allow, nd.cb = False, None
            desc = "allow_mutations=False, on_mutation=None"
        elif what == "open":
            nd.g.allow_mutations = True
            nd.allow = True
            desc = "allow_mutations=True"
        elif what == "cb":
            r = rng.random()
            if r < 0.35:
                s = None
            elif r < 0.45 and len(self.stubs) > 1:
                s = rng.choice(self.stubs)           # a callback that another member uses / used
            else:
                s = self.new_stub()
            if s is not nd.cb:
                nd.cb_changed = True
            nd.g.on_mutation = s
            nd.cb = s
            desc = repr(s)
        elif what == "rate":
            v = rng.choice([0, 0.0, 1.0, 0.5, True, False, Fraction(1, 2), Decimal("0.5"), 1e-9, 5, -1])
            nd.g.mutation_rate = v
            nd.rate = v
            desc = repr(v)
        else:
            v = rng.choice([True, False, False, 0, 1, None, ""])
            nd.g.silent = v
            nd.silent = v
            desc = repr(v)
        after = self.snaps()
        self.drain()
        ctx.count("setting_assignments")
        ctx.count("setting:" + what)
        self.flags.add("reconfigured")
        self.frame("reconfigure", nd, before, after, [])
        if after[nd.idx] != before[nd.idx]:
            ctx.violation("setting-assignment-changes-genome", "assigning %s changed %s" % (
                what, [k for k in after[nd.idx] if after[nd.idx][k] != before[nd.idx][k]]), self.witness(member=nd.idx))
            self.sync(nd, after[nd.idx])
        self.record("assign:" + what, nd, "ok", value=desc)

    def op_seal(self, nd, name=None):
        self.op_reconfigure(nd, "seal")

    def op_open(self, nd, name=None):
        self.op_reconfigure(nd, "open")

    # -------------------------------------------------------------- object protocols
    def op_duplicate(self, nd, name=None):
        ctx = self.ctx
        how = self.rng.choice(["deepcopy", "deepcopy", "pickle", "pickle", "copy"])
        before = self.snaps()
        if how == "deepcopy":
            ok, dup = self.invoke("<deepcopy>", lambda: copy.deepcopy(nd.g))
        elif how == "pickle":
            proto = self.rng.choice([2, pickle.HIGHEST_PROTOCOL])
            ok, dup = self.invoke("<pickle>", lambda: pickle.loads(pickle.dumps(nd.g, proto)))
        else:
            ok, dup = self.invoke("<copy>", lambda: copy.copy(nd.g))
        after = self.snaps()
        self.drain()
        self.frame("duplicate", nd, before, after, [])
        if after[nd.idx] != before[nd.idx]:
            ctx.violation("duplicate-alters-original", "%s of genome #%d changed %s of it" % (
                how, nd.idx, [k for k in after[nd.idx] if after[nd.idx][k] != before[nd.idx][k]]), self.witness(member=nd.idx))
        if not ok:
            ctx.count("duplicate_raised")            # e.g. a lock stored as a value
            self.record("duplicate:" + how, nd, "raised:" + type(dup).__name__)
            return
        ctx.count("duplicates")
        ctx.count("duplicate:" + how)
        ok2, ds = self.invoke("<snapshot>", lambda: snap(ctx, dup))
        if not ok2:
            ctx.count("duplicate_unusable")
            self.record("duplicate:" + how, nd, "unusable:" + type(ds).__name__)
            return
        group = nd.group if how == "copy" else self.new_group()
        dn = Node(len(self.nodes), dup, nd.idx, nd.allow, nd.cb, nd.rate, nd.silent, group)
        dn.sealed_after_open, dn.cb_changed, dn.duplicate = nd.sealed_after_open, nd.cb_changed, True
        self.sync(dn, ds)
        ident = any(has_identity(v) for v in nd.vals.values()) or any(has_identity(str(e[1])) for e in (nd.log or []))
        if not ident and dict(ds["values"]) != nd.vals:
            ctx.count("recorded_not_judged:duplicate-differs")
        if nd.log is None or (ident and how != "copy"):
            dn.log = None
        else:
            dn.log = list(nd.log)
        self.nodes.append(dn)
        self.record("duplicate:" + how, nd, "member#%d" % dn.idx)

    # -------------------------------------------------------------- read-only / reporting calls
    def op_reads(self, nd, name=None):
        ctx = self.ctx
        rng = self.rng
        before = self.snaps()
        done = []
        for _ in range(rng.randint(1, 4)):
            k = rng.choice(["validate", "list_genes", "get_statistics", "export", "repr", "diff", "gene_hash", "get_value",
                            "get_hash", "get_gene"])
            done.append(k)
            other = rng.choice(self.nodes)
            nm = self.pick_gene_name(nd)
            if k == "diff":
                for x, y in ((nd, other), (other, nd)):
                    ok, d = self.invoke("diff", lambda: x.g.diff(y.g))
                    if ok and isinstance(d, dict):
                        ctx.count("diff_checked")
                        vx, vy = dict(before[x.idx]["values"]), dict(before[y.idx]["values"])
                        for gname in d:
                            cx, cy = vx.get(gname), vy.get(gname)
                            if cx == cy and cx is not None and "nan" not in cx.lower():
                                ctx.violation("diff-reports-equal-gene", "diff() lists %r although both members store %s" % (
                                    gname, cx), self.witness(member=x.idx, other=y.idx))
            elif k == "gene_hash":
                g = nd.g.get_gene(nm)
                if g is not None:
                    self.invoke("Gene.get_hash", lambda: g.get_hash())
            elif k == "repr":
                self.invoke("<repr>", lambda: (repr(nd.g), str(nd.g)))
            elif k == "get_value":
                self.invoke("get_value", (lambda: nd.g.get_value(nm)) if rng.random() < 0.5 else (lambda: nd.g.get_value(name=nm, default=[])))
            elif k == "get_gene":
                self.invoke("get_gene", lambda: nd.g.get_gene(name=nm))
            elif k == "validate":
                ok, v = self.invoke("validate", lambda: nd.g.validate())
                if ok:
                    silenced_required = [t[0] for t in before[nd.idx]["genes"] if t[3] and nd.levels.get(t[0]) == SILENCED]
                    if bool(v[0]) != (not silenced_required):
                        ctx.count("validate_differs_from_model")     # observed, not part of the statement
            else:
                self.invoke(k, lambda: getattr(nd.g, k)())
        after = self.snaps()
        self.drain()
        ctx.count("read_only_ops")
        for other in self.nodes:
            if after[other.idx] != before[other.idx]:
                ctx.violation("read-only-call-changes-genome", "%r on genome #%d changed %s of genome #%d" % (
                    done, nd.idx, [k for k in after[other.idx] if after[other.idx][k] != before[other.idx][k]], other.idx),
                    self.witness(member=nd.idx))
                self.sync(other, after[other.idx])
        self.record("reads", nd, "ok", calls=done)

    # -------------------------------------------------------------- aliasing probe
    def op_alias(self, nd):
        ctx = self.ctx
        rng = self.rng
        route, obj, src = None, None, nd.idx
        r = rng.random()
        if self.kept and r < 0.45:
            obj, route, src = rng.choice(self.kept)
        else:
            names = [n for n in nd.vals if nd.vals[n][0] in "[{"]
            if not names:
                if self.kept:
                    obj, route, src = rng.choice(self.kept)
                else:
                    ctx.count("alias_probe_no_mutable_value")
                    self.record("alias", nd, "skipped")
                    return
            else:
                nm = rng.choice(names)
                route = rng.choice(["get_value", "express", "export", "gene-object", "list_genes"])
                if route == "get_value":
                    obj = nd.g.get_value(nm)
                elif route == "express":
                    obj = nd.g.express({nm: 1}).get(nm)
                elif route == "export":
                    obj = next((d["value"] for d in nd.g.export()["genes"] if d["name"] == nm), None)
                elif route == "list_genes":
                    self.api("list_genes")
                    obj = next((d["value"] for d in nd.g.list_genes() if d["name"] == nm), None)
                else:
                    obj = nd.g.get_gene(nm).value
                self.drain()
                if not isinstance(obj, (list, dict)):
                    ctx.count("alias_probe_value_not_reachable")   # silenced / dormant / not expressed
                    self.record("alias", nd, "skipped")
                    return
        before = self.snaps()
        mutate_in_place(obj, rng)
        after = self.snaps()
        self.aliased = True
        ctx.count("alias_probes")
        ctx.count("alias_probe:" + route)
        hit = []
        for other in self.nodes:
            b, a = before[other.idx], after[other.idx]
            if a == b:
                continue
            hit.append(other.idx)
            if other.allow:
                ctx.count("alias_change_seen_with_mutations_enabled")
                continue
            if route in ("ctor", "mutate-arg", "replicate-arg"):
                mech = "alias-caller-kept-reference" if other.idx == src else "alias-lineage-shared-value"
            elif other.idx != src:
                mech = "alias-lineage-shared-value"
            elif route == "gene-object":
                mech = "alias-gene-object-value"
            else:
                mech = "alias-returned-reference"
            # Recorded, not judged: editing a value object in place is not one of the configuration operations the
            # statement quantifies over (lead's triage, DESIGN.md C20); the evidence shows how often it was observed.
            ctx.count("recorded_not_judged:" + mech)
            ctx.notes.append("observed (not judged) %s via %s" % (mech, route)) if len(ctx.notes) < 3 else None
        self.record("alias", nd, "hit" if hit else "no-effect", route=route, source=src, changed=hit)
        if hit:
            ctx.count("alias_probe_effective")
            self.stop = True   # the model no longer describes the stored objects


# ------------------------------------------------------------------ -O probe (class I: guards written as assert)
PROBE_CASES = list(range(0, len(SWEEP), 7)) + list(range(len(SWEEP) + MARATHONS, len(SWEEP) + MARATHONS + 150))


def probe_main():
    """Runs inside a child interpreter started with -O: a small slice of the same workload, result as JSON on stdout."""
    seed = int(sys.argv[1]) if len(sys.argv) > 1 else 0
    ctx = core.Ctx(PID, "quick", seed)
    for n in PROBE_CASES:
        ctx.case = n
        ctx.evaluations += 1
        run_case(ctx, n)
    d = ctx.dump()
    d["debug"] = __debug__
    sys.__stdout__.write("\nPROBE-RESULT " + json.dumps(d) + "\n")


def extra_parent(pctx):
    code = "import sys; from checks import c20_genome as m; m.probe_main()"
    try:
        r = subprocess.run([sys.executable, "-O", "-B", "-c", code, str(pctx.seed)], capture_output=True, text=True,
                           timeout=420, cwd=core.VERIF)
    except subprocess.TimeoutExpired:
        pctx.inconclusive("the -O child probe did not finish within 420 s")
        return
    line = [l for l in r.stdout.splitlines() if l.startswith("PROBE-RESULT ")]
    if r.returncode != 0 or not line:
        pctx.inconclusive("the -O child probe failed (rc=%s): %s" % (r.returncode, (r.stderr or r.stdout)[-400:]))
        return
    d = json.loads(line[-1][len("PROBE-RESULT "):])
    if d.get("debug"):
        pctx.inconclusive("the -O child probe ran with __debug__ true")
        return
    pctx.count("optimized_probe_cases", d["evaluations"])
    pctx.count("optimized_probe_ops", d["counters"].get("ops", 0))
    pctx.count("optimized_probe_refusals_judged", d["counters"].get("refused_mutate_logged", 0) + d["counters"].get(
        "refused_readd", 0) + d["counters"].get("rollback_refused", 0))
    for v in d["violations"]:
        pctx.case = "python -O probe, case %r" % (v.get("case"),)
        pctx.violation(v["mechanism"], "under python -O: " + v["what"], v.get("witness"))
    pctx.case = None


if __name__ == "__main__":
    core.main(sys.modules[__name__])
