"""C03 — tools outside the allowed capability set are never executed, on any path.

Monitor: every generated tool body increments a per-tool counter, appends to a log and opens a
sentinel file (so an execution is visible to the counter and to the interpreter audit hook even
if the tool object is wrapped). Oracle: for every request the model says
permitted = allowed is None or required <= allowed; a forbidden request must leave the counter
unchanged, produce no audit `open` of the sentinel, and be reported as a failure.
"""
import inspect
import os
import sys
import tempfile

from rv import core, sched
from rv.locks import wrap_all_locks

PID = "C03"
LEVEL = "exploration"
TECHNIQUE = "runtime monitoring: side-effect counters + audit-hook sentinel inside generated tool bodies, history checked against a capability-subset model over every tool entry point"
RULE = ("histories of <= 8 steps over {register/re-register tool, change allowed set, request via metabolize auto/forced, "
        "digest_glucose, execute_tool_call, LLM tool loop with adversarial provider}; non-trivial = history contains >= 1 "
        "forbidden request that reached an entry point; distinct = (entry point, |allowed|, |required - allowed|, declaration style)")
ASSUMPTIONS = ["capability sets are compared in one representation per history (all enum members or all raw strings)",
               "a tool declares its requirements through `required_capabilities` and/or `capabilities`; the model uses their union"]

_AUDIT = {"armed": False, "hits": [], "dir": None}


def _audit(event, args):
    if _AUDIT["armed"] and event == "open" and args and isinstance(args[0], str) and _AUDIT["dir"] and args[0].startswith(_AUDIT["dir"]):
        _AUDIT["hits"].append(args[0])


def setup_shard(ctx):
    _AUDIT["dir"] = tempfile.mkdtemp(prefix="operon-verif-c03-", dir="/var/tmp")
    sys.addaudithook(_audit)
    discover_entry_points(ctx)


def teardown_shard(ctx):
    import shutil
    shutil.rmtree(_AUDIT["dir"], ignore_errors=True)


DRIVEN = {"Mitochondria": {"metabolize", "digest_glucose", "execute_tool_call"},
          "Nucleus": {"transcribe_with_tools"}}
SUSPECT_PARAMS = {"expression", "expr", "call", "calls", "tool_call", "tool_calls", "tool_name", "tool", "mitochondria"}


def discover_entry_points(ctx):
    """An entry point added later (public method taking an expression / ToolCall / tool name) that this
    driver does not drive makes the run inconclusive instead of silently passing."""
    from operon_ai.organelles.mitochondria import Mitochondria
    from operon_ai.organelles.nucleus import Nucleus
    registration = {"engulf_tool", "register_function"}
    for cls in (Mitochondria, Nucleus):
        for name, fn in inspect.getmembers(cls, predicate=inspect.isfunction):
            if name.startswith("_") or name in registration:
                continue
            try:
                sig = inspect.signature(fn)
            except (TypeError, ValueError):
                continue
            params = [p for p in sig.parameters.values() if p.name != "self"]
            suspicious = [p.name for p in params if p.name in SUSPECT_PARAMS or "ToolCall" in str(p.annotation)]
            if suspicious:
                ctx.count("entry_points_discovered")
                if name not in DRIVEN.get(cls.__name__, ()):
                    ctx.inconclusive("undriven tool entry point %s.%s%s" % (cls.__name__, name, sig))


def plan(tier):
    return {"cases": 20000 if tier == "quick" else 600000, "shards": 8 if tier == "quick" else 14,
            "min_nontrivial": 20, "timeout": 600 if tier == "quick" else 2400,
            "require": {"forbidden_requests": 2000, "permitted_runs": 500, "entry:execute_tool_call": 300,
                        "entry:metabolize_auto": 300, "entry:metabolize_forced": 300, "entry:llm_loop": 300,
                        "entry_points_discovered": 1, "register_function_calls": 300, "thread_schedules": 1000, "misspelled_requests": 1000}}


def thread_case(ctx, n):
    """A request for tool X races with re-registrations of X (permitted <-> forbidden) on the same engine, under the line-level
    scheduler. Whatever the interleaving, the body of a tool whose requirements are outside the allowed set never runs."""
    from operon_ai.core.types import Capability
    from operon_ai.organelles.mitochondria import Mitochondria, MetabolicPathway, SimpleTool
    from operon_ai.providers import ToolCall
    sched.instrument(Mitochondria, SimpleTool)
    rng = ctx.rng(n)
    allowed = {Capability.READ_FS}
    entry = rng.choice(["metabolize_forced", "metabolize_auto", "execute_tool_call"])
    desc = {"threads": "request X || re-register X with a forbidden tool", "entry": entry}

    def one(policy, label):
        ran = []
        good = SimpleTool(name="x", description="ok", func=lambda *a, **k: ran.append("good") or 1, required_capabilities={Capability.READ_FS})
        bad = SimpleTool(name="x", description="bad", func=lambda *a, **k: ran.append("bad") or 2, required_capabilities={Capability.NET})
        mito = Mitochondria(silent=True, allowed_capabilities=set(allowed), max_ros=1e9)
        mito.engulf_tool(good)
        wrap_all_locks(mito, sched.SchedLock, "mito")

        def req():
            if entry == "execute_tool_call":
                return mito.execute_tool_call(ToolCall(id="c", name="x", arguments={})).success
            return mito.metabolize("x(1 + 1, k=abs(-2))", MetabolicPathway.OXIDATIVE if entry == "metabolize_forced" else None).success

        def rereg():
            mito.engulf_tool(bad)
            return None
        sc = sched.Scheduler(policy, watchdog_s=30.0)
        sc.run([req, rereg] + ([req] if rng.random() < 0.3 else []))
        ctx.count("thread_schedules")
        if sc.stuck:
            ctx.inconclusive("a schedule hit the wall-clock watchdog (not a verdict)")
            return sc
        if "bad" in ran:
            ctx.violation("forbidden-tool-ran:concurrent-reregistration",
                          "a tool requiring NET ran (allowed = {READ_FS}) when its registration raced with a request for the same name via %s" % entry,
                          dict(desc, policy=label, choices=sc.choices[:200], ran=ran))
        if sc.switch_while_other_inside:
            ctx.nontrivial(("threads", entry, sc.trace_hash()))
        return sc
    base = one(sched.PreemptionPolicy({}), "pb(0)")
    N = max(base.step, 1)
    for s_ in range(1, N + 1):
        for t in range(2):
            one(sched.PreemptionPolicy({s_: t}), "pb(1)@%d->%d" % (s_, t))
    for i in range(40):
        one(sched.RandomPolicy(rng, (0.2, 0.4, 0.6)[i % 3]), "random")


def run_case(ctx, n):
    if n % (700 if ctx.tier == "quick" else 10000) == 11:
        return thread_case(ctx, n)
    from operon_ai.core.types import Capability
    from operon_ai.organelles.mitochondria import Mitochondria, MetabolicPathway, SimpleTool
    from operon_ai.organelles.nucleus import Nucleus
    from operon_ai.providers import LLMResponse, ToolCall

    rng = ctx.rng(n)
    as_str = rng.random() < 0.2
    caps = [c.value if as_str else c for c in Capability]

    def subset(p=None):
        p = rng.choice([0.0, 0.2, 0.5, 0.8, 1.0]) if p is None else p
        return {c for c in caps if rng.random() < p}

    runs = {}        # tool key -> count
    log = []
    tools_model = {}   # registered name -> (key, required set, style)

    def make_tool(name, required, style, key):
        sentinel = os.path.join(_AUDIT["dir"], "%d-%s" % (ctx.shard, key))

        def body(*a, **kw):
            runs[key] = runs.get(key, 0) + 1
            log.append(key)
            try:
                with open(sentinel, "a"):
                    pass
            except OSError:
                pass
            if style.endswith("!raise"):
                raise RuntimeError("tool %s failed" % key)
            return "RAN-%s" % key

        base = style.split("!")[0]
        if base == "required":
            return SimpleTool(name=name, description="t", func=body, required_capabilities=set(required))
        if base == "register_function":
            return ("register", name, body, set(required))
        if base == "frozen_required":
            return SimpleTool(name=name, description="t", func=body, required_capabilities=frozenset(required))

        class Obj:
            description = "custom tool"
            parameters_schema = {"type": "object", "properties": {}}

            def execute(self, *a, **kw):
                return body(*a, **kw)
        o = Obj()
        o.name = name
        if base == "capabilities":
            o.capabilities = set(required)
        elif base == "both_equal":
            o.capabilities = set(required)
            o.required_capabilities = set(required)
        elif base == "empty_required_plus_capabilities":
            o.required_capabilities = set()
            o.capabilities = set(required)
        elif base == "list_required":
            o.required_capabilities = list(required)
        elif base == "none":
            pass
        return o

    allowed_kind = rng.choice(["none", "empty", "subset", "subset", "subset", "all"])
    allowed = None if allowed_kind == "none" else set() if allowed_kind == "empty" else set(caps) if allowed_kind == "all" else subset()
    via_ctor = rng.random() < 0.5
    names = ["fetch", "Fetch", "fetcher", "sum", "abs", "t1", "len", "tool_two", "pay"]
    styles = ["required", "register_function", "capabilities", "both_equal", "empty_required_plus_capabilities",
              "list_required", "frozen_required", "none", "required!raise"]

    initial = []
    counter = [0]

    def new_tool(name=None):
        name = name or rng.choice(names)
        style = rng.choice(styles)
        required = set() if style.startswith("none") else subset(rng.choice([0.0, 0.15, 0.3, 0.6]))
        counter[0] += 1
        key = "%s#%d" % (name, counter[0])
        return name, required, style, key, make_tool(name, required, style, key)

    def register(mito, spec):
        name, required, style, key, obj = spec
        if isinstance(obj, tuple):
            kw = {}
            if rng.random() < 0.5:       # the other optional registration arguments must not disturb the declaration
                kw["parameters_schema"] = {"type": "object", "properties": {"x": {"type": "integer"}}}
            if rng.random() < 0.5:
                kw["description"] = "tool %s" % name
                mito.register_function(obj[1], obj[2], required_capabilities=obj[3], **kw)
            else:
                mito.register_function(obj[1], obj[2], "d", required_capabilities=obj[3], **kw)
            ctx.count("register_function_calls")
        else:
            mito.engulf_tool(obj)
        tools_model[name] = (key, required, style)

    for _ in range(rng.randint(0, 2)):
        initial.append(new_tool())
    ctor_tools = [s[4] for s in initial if not isinstance(s[4], tuple)] if via_ctor else []
    mito = Mitochondria(silent=True, allowed_capabilities=allowed, tools=ctor_tools or None, max_ros=1e9)
    if via_ctor:   # constructor tools are registered first, in order; the others afterwards
        for s in initial:
            if not isinstance(s[4], tuple):
                tools_model[s[0]] = (s[3], s[1], s[2])
        for s in initial:
            if isinstance(s[4], tuple):
                register(mito, s)
    else:
        for s in initial:
            register(mito, s)

    history = []
    forbidden_seen = []

    def permitted(name):
        key, required, style = tools_model[name]
        cur = mito.allowed_capabilities
        return cur is None or required <= set(cur)

    def spell(name):
        """how the request spells the tool: mostly exactly; sometimes a case / whitespace variant that is NOT a registered
        name (then no registered tool is addressed at all and, in particular, no forbidden tool may run)"""
        if rng.random() < 0.75:
            return name
        v = rng.choice([name.upper(), name.lower(), name.title(), name.swapcase(), name + " ", " " + name, name + "_", name[:-1]])
        return v

    def request(entry, name):
        """returns nothing; checks obligations."""
        key, required, style = tools_model[name]
        ok = permitted(name)
        before = runs.get(key, 0)
        all_before = dict(runs)
        target = name
        name = spell(name)
        addressed = True
        if name != target:
            ctx.count("misspelled_requests")
            if name in tools_model:        # the variant happens to be another registered tool: that one is addressed
                target = name
                key, required, style = tools_model[name]
                ok = permitted(name)
                before = runs.get(key, 0)
            else:
                addressed = False          # no registered tool is addressed; only the global rule below applies
        _AUDIT["hits"].clear()
        _AUDIT["armed"] = True
        reported_success = None
        detail = None
        try:
            if entry == "metabolize_auto":
                expr = "%s(1, 2)" % name
                r = mito.metabolize(expr)
                reported_success, detail = r.success, r.error
                # auto-detection may route an allow-listed name (sum/abs/len) elsewhere; that is fine
            elif entry == "metabolize_forced":
                r = mito.metabolize("%s(3, k=4)" % name, MetabolicPathway.OXIDATIVE)
                reported_success, detail = r.success, r.error
            elif entry == "metabolize_other_pathway":
                r = mito.metabolize("%s(3)" % name, rng.choice([MetabolicPathway.GLYCOLYSIS, MetabolicPathway.KREBS_CYCLE, MetabolicPathway.BETA_OXIDATION]))
                reported_success, detail = r.success, r.error
            elif entry == "digest_glucose":
                s = mito.digest_glucose("%s(5)" % name)
                reported_success, detail = ("RAN-" in s), s
            elif entry == "execute_tool_call":
                r = mito.execute_tool_call(ToolCall(id="c1", name=name, arguments=rng.choice([{}, {"x": 1}])))
                reported_success, detail = r.success, r.error or r.output
            elif entry == "llm_loop":
                prompts = []

                class Provider:
                    name = "adversary"

                    def is_available(self):
                        return True

                    def complete(self, prompt, config=None):
                        prompts.append(prompt)
                        return LLMResponse(content="final", model="m", tokens_used=1, latency_ms=0.0)

                    def complete_with_tools(self, prompt, tools=None, config=None):
                        prompts.append(prompt)
                        k = len(prompts)
                        others = [t for t in tools_model if t != name]
                        calls = [ToolCall(id="id%d" % k, name=name, arguments={})]
                        if others and rng.random() < 0.5:
                            calls.insert(rng.randint(0, 1), ToolCall(id="o%d" % k, name=rng.choice(others), arguments={}))
                        if rng.random() < 0.3:
                            calls.append(ToolCall(id="u%d" % k, name="no_such_tool", arguments={}))
                        if rng.random() < 0.3:
                            calls.append(ToolCall(id="id%d" % k, name=name, arguments={}))
                        return LLMResponse(content="r", model="m", tokens_used=1, latency_ms=0.0), calls
                # other tools requested in the same round are judged too
                other_before = {t: runs.get(tools_model[t][0], 0) for t in tools_model}
                Nucleus(provider=Provider()).transcribe_with_tools("q", mito, max_iterations=rng.randint(1, 4))
                for t, b in other_before.items():
                    k2 = tools_model[t][0]
                    if not permitted(t) and runs.get(k2, 0) != b:
                        ctx.violation("forbidden-tool-ran:llm_loop",
                                      "tool %r (requires %s) ran in the LLM tool loop with allowed=%s" % (
                                          t, sorted(map(str, tools_model[t][1])), fmt(mito.allowed_capabilities)),
                                      {"history": history, "tool": t})
                leaked = [p for p in prompts if ("RAN-%s" % key) in p]
                reported_success = bool(leaked)
                detail = leaked[:1]
        except BaseException as e:  # an exception is not an execution; totality belongs to C01
            reported_success, detail = False, "raised %r" % (e,)
        finally:
            _AUDIT["armed"] = False
        after = runs.get(key, 0)
        # whatever was requested and however it was spelled: no forbidden tool may have run
        for t, (k2, req2, st2) in tools_model.items():
            if not permitted(t) and runs.get(k2, 0) != all_before.get(k2, 0) and (k2 != key or not addressed):
                ctx.violation("forbidden-tool-ran:" + entry,
                              "request spelled %r via %s ran tool %r (requires %s) with allowed=%s" % (
                                  name, entry, t, sorted(map(str, req2)), fmt(mito.allowed_capabilities)),
                              {"history": list(history), "spelled": name})
        ctx.count("entry:" + entry)
        rec = {"entry": entry, "tool": target, "spelled": name, "required": sorted(map(str, required)), "style": style,
               "allowed": fmt(mito.allowed_capabilities), "permitted_by_model": ok, "ran": after - before,
               "reported_success": reported_success}
        history.append(rec)
        if not addressed:
            return
        if not ok:
            ctx.count("forbidden_requests")
            forbidden_seen.append((entry, len(mito.allowed_capabilities), len(required - set(mito.allowed_capabilities)), style))
            sent = [h for h in _AUDIT["hits"] if h.endswith("-" + key)]
            if after != before or sent:
                ctx.violation("forbidden-tool-ran:" + entry,
                              "tool %r requiring %s ran via %s with allowed=%s (counter +%d, sentinel opens %d)" % (
                                  name, rec["required"], entry, rec["allowed"], after - before, len(sent)),
                              {"history": list(history)})
            elif reported_success and entry in ("metabolize_forced", "execute_tool_call", "llm_loop"):
                # (on the other entries the text may legitimately address an allow-listed function of the same name)
                ctx.violation("forbidden-request-reported-success:" + entry,
                              "forbidden request for %r via %s reported success (%r)" % (name, entry, detail),
                              {"history": list(history)})
        else:
            if after > before:
                ctx.count("permitted_runs")

    def fmt(a):
        return None if a is None else sorted(map(str, a))

    steps = rng.randint(2, 8)
    for _ in range(steps):
        r = rng.random()
        if r < 0.15 or not tools_model:
            s = new_tool(rng.choice(list(tools_model)) if tools_model and rng.random() < 0.5 else None)
            register(mito, s)
            history.append({"op": "register", "tool": s[0], "required": sorted(map(str, s[1])), "style": s[2]})
        elif r < 0.25:
            kind = rng.choice(["none", "empty", "subset", "all"])
            mito.allowed_capabilities = None if kind == "none" else set() if kind == "empty" else set(caps) if kind == "all" else subset()
            history.append({"op": "set_allowed", "allowed": fmt(mito.allowed_capabilities)})
        else:
            entry = rng.choice(["metabolize_auto", "metabolize_forced", "execute_tool_call", "llm_loop",
                                "metabolize_auto", "metabolize_forced", "execute_tool_call", "llm_loop",
                                "digest_glucose", "metabolize_other_pathway"])
            # aim at forbidden tools more often than chance would
            forb = [t for t in tools_model if not permitted(t)]
            name = rng.choice(forb) if forb and rng.random() < 0.7 else rng.choice(list(tools_model))
            request(entry, name)
    if forbidden_seen:
        for f in set(forbidden_seen):
            ctx.nontrivial(f)
    if n % 500 == 0:
        ctx.sample({"allowed_initial": fmt(allowed), "history": history})


if __name__ == "__main__":
    core.main(sys.modules[__name__])
