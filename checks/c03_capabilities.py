"""C03 — tools outside the allowed capability set are never executed, on any path.

Monitor: every generated tool body appends its key to a session log and opens a sentinel file (so an
execution is visible to the log and to the interpreter audit hook even if the tool object is wrapped).
Oracle: the check keeps ITS OWN copy of every engine's allowed set (the set the engine was constructed
with / last assigned) and of every tool's declaration; for every request, every tool body that ran is
judged against the policy of the engine that was driven: a tool that is forbidden under every reading of
its declaration must not have run, must not have opened its sentinel, and a request addressed to it must
be reported as a failure.

Session = 1-3 engines configured differently (allowed set form, timeout, ROS ceiling, verbose/silent,
constructor tools) used alternately, under real or virtual time, with registration / re-registration /
removal / declaration mutation / policy changes / reporting and maintenance calls interleaved with
requests over every tool entry point. A few sessions per run are long (> 20 000 operations on one engine).

Round 4: engines are duplicated mid-session (copy.copy, copy.deepcopy, pickle round trip, the reduce protocol by hand) and the duplicate is
one more engine with the policy and registrations of the original; tool objects are module-level (picklable) and find their session through
`_ACTIVE`; short-lived tools are created and dropped so that addresses are reused; a share of the sessions prints to a strict UTF-8 stream
with hostile tool names; allowed sets / declarations / options come in unusual value types; and a share of the same session workload runs in
child interpreters started with -O and -OO (the latter in a time zone far from UTC), reported as `<mechanism>:python-O`.
"""
import collections
import contextlib
import copy
import decimal
import enum
import fractions
import gc
import inspect
import io
import json
import os
import pickle
import subprocess
import sys
import tempfile
import types

from rv import core, sched, vclock
from rv.locks import wrap_all_locks

PID = "C03"
LEVEL = "exploration"
TECHNIQUE = "runtime monitoring: side-effect log + audit-hook sentinel inside generated tool bodies, history checked against a capability-subset model (own copy of policy and declarations) over every tool entry point"
RULE = ("histories of <= 10 steps (a few of > 20 000) over 1-3 engines: {register/re-register/remove tool, mutate a declaration, change allowed set, "
        "reporting and maintenance calls, request via metabolize auto/forced/nested, digest_glucose, execute_tool_call, LLM tool loop with adversarial "
        "provider, re-entrant requests from tool bodies, duplicate the engine (copy/deepcopy/pickle/reduce) and drive the duplicate, address-reuse rounds}, "
        "a share of them in child interpreters started with -O/-OO; non-trivial = history contains >= 1 forbidden request that reached an entry point; "
        "distinct = (entry point, |allowed|, |required - allowed|, declaration style, tag kind)")
ASSUMPTIONS = ["a required tag r is certainly outside the allowed set only if no allowed tag equals it under Python equality NOR under a lenient reading "
               "(case-insensitive match of str()/value/name, with or without the 'Enum.' prefix); requests that are forbidden under one reading "
               "and permitted under the other are driven but not judged",
               "a tool declares its requirements through `required_capabilities` and/or `capabilities`; the model uses their union",
               "when a declaration is mutated after registration, the request is judged only if the declaration at registration time and the current "
               "declaration agree on the verdict",
               "the policy of an engine is the set it was constructed with or the set last assigned to its public `allowed_capabilities` attribute; "
               "the check never mutates such a set itself",
               "a duplicate of an engine (copy.copy, copy.deepcopy, pickle, reduce protocol) carries the policy of the original at the moment of duplication; "
               "a duplicated tool declares what the original declared at that moment (all readings must agree for a request to be judged); whether a "
               "shallow copy shares the registry with the original is read from the public `tools` attribute, not assumed",
               "an allowed set handed over as a one-shot iterable may only make the engine MORE restrictive than the model once it is exhausted; "
               "a declaration handed over as a one-shot iterable is outside the statement (not generated)",
               "a declaration that also lists an unhashable tag is judged on its hashable part only",
               "a registration that raises (progress message on a strict stream) counts as made iff the public registry holds the tool afterwards"]

_AUDIT = {"armed": False, "hits": [], "dir": None}


def _audit(event, args):
    if _AUDIT["armed"] and event == "open" and args and isinstance(args[0], str) and _AUDIT["dir"] and args[0].startswith(_AUDIT["dir"]):
        _AUDIT["hits"].append(args[0])


def setup_shard(ctx):
    _AUDIT["dir"] = tempfile.mkdtemp(prefix="operon-verif-c03-", dir="/var/tmp")
    sys.addaudithook(_audit)
    discover_entry_points(ctx)
    if ctx.shard == 0:
        enumerate_public_api(ctx)


def teardown_shard(ctx):
    import shutil
    shutil.rmtree(_AUDIT["dir"], ignore_errors=True)


DRIVEN = {"Mitochondria": {"metabolize", "digest_glucose", "execute_tool_call"},
          "Nucleus": {"transcribe_with_tools"}}
SUSPECT_PARAMS = {"expression", "expr", "call", "calls", "tool_call", "tool_calls", "tool_name", "tool", "mitochondria"}


def discover_entry_points(ctx):
    """An entry point added later (public method taking an expression / ToolCall / tool name) that this
    driver does not drive makes the run inconclusive instead of silently passing."""
    from operon_ai.organelles.mitochondria import Mitochondria
    from operon_ai.organelles.nucleus import Nucleus
    registration = {"engulf_tool", "register_function"}
    for cls in (Mitochondria, Nucleus):
        for name, fn in inspect.getmembers(cls, predicate=inspect.isfunction):
            if name.startswith("_") or name in registration:
                continue
            try:
                sig = inspect.signature(fn)
            except (TypeError, ValueError):
                continue
            params = [p for p in sig.parameters.values() if p.name != "self"]
            suspicious = [p.name for p in params if p.name in SUSPECT_PARAMS or "ToolCall" in str(p.annotation)]
            if suspicious:
                ctx.count("entry_points_discovered")
                if name not in DRIVEN.get(cls.__name__, ()):
                    ctx.inconclusive("undriven tool entry point %s.%s%s" % (cls.__name__, name, sig))


def enumerate_public_api(ctx):
    """informational: public methods / keyword arguments of the anchored classes that this driver never uses"""
    from operon_ai.organelles.mitochondria import Mitochondria, SimpleTool
    from operon_ai.organelles.nucleus import Nucleus
    try:
        src = inspect.getsource(sys.modules[__name__])
    except Exception:
        return
    for cls in (Mitochondria, Nucleus, SimpleTool):
        for name, fn in inspect.getmembers(cls, predicate=inspect.isfunction):
            if name.startswith("_") and name != "__init__":
                continue
            ctx.count("public_methods_listed")
            driven = name == "__init__" or (cls is SimpleTool and name == "execute") or (".%s(" % name) in src or ('"%s"' % name) in src or name.startswith(("get_", "list_", "export_"))
            if not driven:
                ctx.count("public_methods_not_driven")
                ctx.notes.append("public method never driven: %s.%s" % (cls.__name__, name))
                continue
            try:
                params = [p.name for p in inspect.signature(fn).parameters.values() if p.name != "self" and p.kind not in (p.VAR_POSITIONAL, p.VAR_KEYWORD)]
            except (TypeError, ValueError):
                continue
            for pn in params:
                ctx.count("public_keywords_listed")
                if (pn + "=") not in src and ('"%s"' % pn) not in src:
                    ctx.count("public_keywords_not_used")
                    ctx.notes.append("keyword never used by the driver: %s.%s(%s=...)" % (cls.__name__, name, pn))


def plan(tier):
    return {"cases": 24000 if tier == "quick" else 360000, "shards": 8 if tier == "quick" else 14,
            "min_nontrivial": 20, "timeout": 600 if tier == "quick" else 2400,
            "require": {"forbidden_requests": 2000, "permitted_runs": 500, "entry:execute_tool_call": 300,
                        "entry:metabolize_auto": 300, "entry:metabolize_forced": 300, "entry:llm_loop": 300,
                        "entry:metabolize_nested": 300,
                        "entry_points_discovered": 1, "register_function_calls": 300, "thread_schedules": 1000, "misspelled_requests": 1000,
                        "forbidden_requests:short_sessions": 2000, "forbidden_requests:custom_tag": 300, "forbidden_requests:after_read": 300, "forbidden_requests:verbose": 300,
                        "forbidden_requests:second_engine": 300, "forbidden_requests:virtual_time": 300,
                        "forbidden_requests:after_tool_raised": 100, "forbidden_requests:after_declaration_mutation": 50,
                        "forbidden_requests:dysfunctional": 50, "forbidden_requests:reentrant": 20,
                        "reads": 1000, "maintenance_calls": 300, "unregistrations": 300, "long_session_ops": 20000,
                        "tool_bodies_raised": 300, "provider_raised": 20,
                        # round 4: duplicates of an engine, optimised interpreters, hostile names on strict streams, address reuse
                        "duplications": 300, "forbidden_requests:on_duplicate": 300, "forbidden_requests:on_duplicate:copy": 50,
                        "forbidden_requests:on_duplicate:deepcopy": 50, "forbidden_requests:on_duplicate:pickle": 50,
                        "forbidden_requests:on_duplicate:reduce": 50, "permitted_runs:on_duplicate": 100,
                        "python-O:children": 2, "python-O:forbidden_requests": 150, "python-O:permitted_runs": 50,
                        "python-O:entry:execute_tool_call": 50, "python-O:entry:metabolize_forced": 50, "python-O:entry:llm_loop": 30,
                        "forbidden_requests:strict_stream": 1000, "forbidden_requests:hostile_name": 300, "address_reuse_rounds": 100,
                        "forbidden_requests:unhashable_required": 300, "tool_duplicates_registered": 300, "registry_rebound": 100}}


# ------------------------------------------------------------------ model
class SiteTag(enum.Enum):
    """capability tags that are members of ANOTHER Enum (site-specific privileges)"""
    SHELL = "shell"
    ADMIN = "admin"
    ROOT = 7
    NET = "net"          # same value as Capability.NET: only judged under the lenient reading


_CANON = {}


def canon(tag):
    mk = (type(tag), tag)
    try:
        return _CANON[mk]
    except KeyError:
        pass
    s = {str(tag).lower()}
    for attr in ("value", "name"):
        v = getattr(tag, attr, None)
        if v is not None and not callable(v):
            s.add(str(v).lower())
    if isinstance(tag, (bytes, bytearray)):
        s.add(bytes(tag).decode("utf-8", "replace").lower())
    s |= {x.rsplit(".", 1)[-1] for x in list(s)}
    s |= {x.strip() for x in list(s)}
    if len(_CANON) > 20000:
        _CANON.clear()
    _CANON[mk] = frozenset(s)
    return _CANON[mk]


_ACANON = {}


def allowed_canon(allowed):
    """all lenient spellings of the tags of an allowed set (memo per frozenset)"""
    try:
        return _ACANON[allowed]
    except KeyError:
        pass
    if len(_ACANON) > 4000:
        _ACANON.clear()
    u = set()
    for a in allowed:
        u |= canon(a)
    _ACANON[allowed] = frozenset(u)
    return _ACANON[allowed]


def certainly_outside(r, allowed):
    if r in allowed:
        return False
    return not (canon(r) & allowed_canon(allowed))


def sure_forbidden(required, allowed):
    return allowed is not None and any(certainly_outside(r, allowed) for r in required)


def sure_permitted(required, allowed):
    return allowed is None or all(r in allowed for r in required)


class _Sink:
    def write(self, s):
        return len(s)

    def flush(self):
        pass


class ToolBodyError(Exception):
    pass


class ToolBodyAbort(BaseException):
    """a tool body may raise something that is not an Exception"""


class UnprintableError(Exception):
    def __str__(self):
        raise RuntimeError("no text for you")
    __repr__ = __str__


import socket as _socket

RAISE_KINDS = {"runtime": RuntimeError, "permission": PermissionError, "oserror": ConnectionError, "timeout": TimeoutError,
               "value": ValueError, "key": KeyError, "custom": ToolBodyError, "base": ToolBodyAbort,
               # every exception type a handler could discriminate on
               "type": TypeError, "assertion": AssertionError, "socket_timeout": _socket.timeout, "stop": StopIteration,
               "recursion": RecursionError, "memory": MemoryError, "index": IndexError, "unicode": UnicodeError, "attribute": AttributeError,
               "exit": SystemExit, "interrupt": KeyboardInterrupt, "generator_exit": GeneratorExit, "unprintable": UnprintableError,
               "not_implemented": NotImplementedError, "os": OSError, "eof": EOFError, "arithmetic": ZeroDivisionError}


# ------------------------------------------------------------------ tool objects (module level, so that an engine holding them can be pickled)
_ACTIVE = [None]        # the session that is being driven; a tool body finds its session here (a duplicate of a tool has the same key)


class Body:
    """the callable wrapped by SimpleTool / register_function"""

    def __init__(self, key, falsy=False):
        self.key = key
        self.falsy = falsy

    def __call__(self, *a, **kw):
        return _ACTIVE[0].run_body(self.key)

    def __bool__(self):
        return not self.falsy


class ObjTool:
    """a tool that is not a SimpleTool (duck-typed)"""
    description = "custom tool"
    parameters_schema = {"type": "object", "properties": {}}

    def __init__(self, key, name):
        self.key = key
        self.name = name

    def execute(self, *a, **kw):
        return _ACTIVE[0].run_body(self.key)


class FalsyObjTool(ObjTool):
    def __bool__(self):
        return False


class EmptyLenObjTool(ObjTool):
    def __len__(self):
        return 0


class DynTool(ObjTool):
    """the declaration is computed on every read"""
    @property
    def required_capabilities(self):
        return _ACTIVE[0].dyn_read(self.key)


class StrSub(str):
    """a str subclass (tags, tool names, request names)"""
    __slots__ = ()


class Sentinel:
    """a capability tag that compares by identity only"""

    def __repr__(self):
        return "<sentinel tag>"


class SetSub(set):
    pass


class FrozenSub(frozenset):
    pass


class _RawSink(io.RawIOBase):
    def writable(self):
        return True

    def write(self, b):
        return len(b)


def strict_stream():
    """a strict UTF-8 text stream: lone surrogates raise here (they do not in StringIO)"""
    return io.TextIOWrapper(_RawSink(), encoding="utf-8", errors="strict", write_through=True)


# ------------------------------------------------------------------ thread schedules
def thread_case(ctx, n):
    """A request for tool X races with re-registrations of X (permitted <-> forbidden) on the same engine, under the line-level
    scheduler. Whatever the interleaving, the body of a tool whose requirements are outside the allowed set never runs."""
    from operon_ai.core.types import Capability
    from operon_ai.organelles.mitochondria import Mitochondria, MetabolicPathway, SimpleTool
    from operon_ai.providers import ToolCall
    sched.instrument(Mitochondria, SimpleTool)
    rng = ctx.rng(n)
    allowed = {Capability.READ_FS}
    entry = rng.choice(["metabolize_forced", "metabolize_auto", "execute_tool_call"])
    bad_req = rng.choice([{Capability.NET}, {Capability.NET}, {"shell"}, {Capability.READ_FS, SiteTag.ADMIN}, {Capability.READ_FS, Capability.NET}])
    desc = {"threads": "request X || re-register X with a forbidden tool", "entry": entry, "forbidden_tool_requires": sorted(map(str, bad_req))}

    def one(policy, label):
        ran = []
        good = SimpleTool(name="x", description="ok", func=lambda *a, **k: ran.append("good") or 1, required_capabilities={Capability.READ_FS})
        bad = SimpleTool(name="x", description="bad", func=lambda *a, **k: ran.append("bad") or 2, required_capabilities=set(bad_req))
        mito = Mitochondria(silent=True, allowed_capabilities=set(allowed), max_ros=1e9)
        mito.engulf_tool(good)
        wrap_all_locks(mito, sched.SchedLock, "mito")

        def req():
            if entry == "execute_tool_call":
                return mito.execute_tool_call(ToolCall(id="c", name="x", arguments={})).success
            return mito.metabolize("x(1 + 1, k=abs(-2))", MetabolicPathway.OXIDATIVE if entry == "metabolize_forced" else None).success

        def rereg():
            mito.engulf_tool(bad)
            return None
        sc = sched.Scheduler(policy, watchdog_s=30.0)
        sc.run([req, rereg] + ([req] if rng.random() < 0.3 else []))
        ctx.count("thread_schedules")
        if sc.stuck:
            ctx.inconclusive("a schedule hit the wall-clock watchdog (not a verdict)")
            return sc
        if "bad" in ran:
            ctx.violation("forbidden-tool-ran:concurrent-reregistration",
                          "a tool requiring %s ran (allowed = {READ_FS}) when its registration raced with a request for the same name via %s" % (
                              desc["forbidden_tool_requires"], entry),
                          dict(desc, policy=label, choices=sc.choices[:200], ran=ran))
        if sc.switch_while_other_inside:
            ctx.nontrivial(("threads", entry, sc.trace_hash()))
        return sc
    base = one(sched.PreemptionPolicy({}), "pb(0)")
    N = max(base.step, 1)
    for s_ in range(1, N + 1):
        for t in range(2):
            one(sched.PreemptionPolicy({s_: t}), "pb(1)@%d->%d" % (s_, t))
    for i in range(40):
        one(sched.RandomPolicy(rng, (0.2, 0.4, 0.6)[i % 3]), "random")


# ------------------------------------------------------------------ sessions
class Rec:
    """one generated tool (one body); `req_now` is the check's own copy of what it currently declares"""
    __slots__ = ("key", "num", "name", "style", "obj", "container", "req_now", "raise_kind", "reentrant", "advance", "custom", "reg_args", "mutated",
                 "sentinel", "dyn_fired", "dyn_declared")


class Eng:
    __slots__ = ("idx", "mito", "allowed", "tools", "reg_by_key", "nucleus", "cfg", "reads", "raised", "name_list", "dup")


def safe_repr(o):
    try:
        return repr(o)
    except BaseException:
        return "<%s (unprintable)>" % type(o).__name__


def fmt(a):
    return None if a is None else sorted(map(str, a))


class Session:
    def __init__(self, ctx, n, rng, long_ops=0):
        from operon_ai.core.types import Capability
        self.ctx, self.n, self.rng, self.long_ops = ctx, n, rng, long_ops
        self.as_str = rng.random() < 0.15
        self.caps = [c.value if self.as_str else c for c in Capability]
        self.custom_tags = ["shell", "admin", "Shell", SiteTag.SHELL, SiteTag.ADMIN, SiteTag.ROOT, 7, None, ("fs", "write"),
                            "net", "NET", "Read_FS", "Capability.NET", SiteTag.NET, "", 0, -0.0, float("inf"), 2 ** 53 + 1,
                            StrSub("shell"), StrSub("deploy"), Sentinel(), True, fractions.Fraction(1, 3), decimal.Decimal("0.1"),
                            "a.b*", "{0}", "%(net)s", "x\x00y", "net\n", b"net"]
        self.log = []                      # keys of tool bodies in execution order
        self.recs = {}
        self.by_num = {}
        self.engines = []
        self.history = collections.deque(maxlen=40)
        self.ops = 0
        self.counter = 0
        self.forbidden_seen = set()
        self.current = None                # engine being driven
        self.depth = 0
        self.clock = None
        self.call_cache = {}
        self.names = ["fetch", "Fetch", "fetcher", "sum", "abs", "t1", "len", "tool_two", "pay"]
        x = rng.random()
        if x < 0.25:            # unusual names: one letter, a prefix of another name, keywords inside, long, non-ASCII, dunder
            self.names = self.names[:5] + ["x", "order", "nottrue", "Tool_Two", "t" * 60, "\u03c0tool", "__class__", "print", "pi", "tool_two_"]
        elif x < 0.4:           # hostile names: regex metacharacters, braces, %, NUL, newlines, lone surrogates, str subclasses, quotes
            self.names = self.names[:4] + ["a.b*", "f{0}", "{name}", "%s", "100%", "x\x00y", "line\nbreak", "\ud800tool", "t'q\"", "(", "$^[", "\\d+",
                                           StrSub("sub"), StrSub("fetch"), "tool\r", "\U0001f9a0"]
        self.styles = ["required", "register_function", "capabilities", "both_equal", "empty_required_plus_capabilities",
                       "list_required", "frozen_required", "tuple_required", "none", "required", "register_function", "dynamic_required",
                       "unhashable_required", "sub_required", "keys_required"]
        self.strict_out = rng.random() < 0.35
        self.provider = None

    # -------------------------------------------------------------- generators
    def subset(self, p=None):
        rng = self.rng
        p = rng.choice([0.0, 0.2, 0.5, 0.8, 1.0]) if p is None else p
        return {c for c in self.caps if rng.random() < p}

    def required_set(self):
        rng = self.rng
        req = self.subset(rng.choice([0.0, 0.15, 0.3, 0.6]))
        custom = False
        if rng.random() < 0.01 and not self.long_ops:      # a very large declaration
            req |= {"site:%d" % i for i in range(400)}
            custom = True
        if rng.random() < 0.3:             # arbitrary required-capability sets: tags that are not Capability members
            for _ in range(rng.choice([1, 1, 2])):
                req.add(rng.choice(self.custom_tags))
            custom = True
            if rng.random() < 0.5:
                req = {t for t in req if t not in self.caps}
        return req, custom

    def allowed_value(self):
        """(value handed to the engine, the check's own copy)"""
        rng = self.rng
        kind = rng.choice(["none", "empty", "subset", "subset", "subset", "all", "one", "with_custom"])
        if kind == "none":
            return None, None
        s = set() if kind == "empty" else set(self.caps) if kind == "all" else {rng.choice(self.caps)} if kind == "one" else self.subset()
        if kind == "with_custom":
            s.add(rng.choice(self.custom_tags))
        if rng.random() < 0.01 and not self.long_ops:      # a very large grant (never the tags of a large declaration above 397)
            s |= {"site:%d" % i for i in range(rng.choice([397, 2000]))}
        form = rng.random()
        given = frozenset(s) if form < 0.12 else list(s) if form < 0.17 else tuple(s) if form < 0.2 else set(s)
        if 0.2 <= form < 0.3:
            # other set-likes: subclasses, a dict's key view, a mapping (iterating / membership = its keys)
            # (a one-shot iterable is exhausted by the first membership test: from then on the engine may only be MORE restrictive than the model)
            given = rng.choice([SetSub, FrozenSub, lambda v: dict.fromkeys(v, True).keys(), lambda v: dict.fromkeys(v, False),
                                lambda v: iter(list(v)), lambda v: (t for t in list(v))])(s)
        return given, frozenset(s)

    # -------------------------------------------------------------- tools
    def new_rec(self, name=None, force_forbidden_for=None, force_permitted_for=None):
        rng = self.rng
        r = Rec()
        r.name = name or (rng.choice(self.names) if not self.long_ops or rng.random() < 0.1 else "tool_%d" % self.counter)
        r.style = rng.choice(self.styles)
        if r.style == "none":
            req, r.custom = set(), False
        else:
            req, r.custom = self.required_set()
        if force_forbidden_for is not None and force_forbidden_for.allowed is not None and not sure_forbidden(req, force_forbidden_for.allowed):
            extra = [c for c in self.caps + ["shell", SiteTag.ADMIN] if certainly_outside(c, force_forbidden_for.allowed)]
            if extra and r.style != "none":
                req.add(rng.choice(extra))
        if force_permitted_for is not None and force_permitted_for.allowed is not None:
            req = {t for t in req if t in force_permitted_for.allowed}
        self.counter += 1
        r.num = self.counter
        r.key = "%s#%d" % (r.name, self.counter)
        r.sentinel = os.path.join(_AUDIT["dir"], "%d-%d" % (self.ctx.shard, r.num))      # (never derived from the tool name: names may be hostile)
        self.by_num[str(r.num)] = r.key
        r.dyn_fired, r.dyn_declared = False, None
        r.req_now = frozenset(req)
        r.raise_kind = rng.choice(list(RAISE_KINDS)) if rng.random() < 0.12 else None
        r.reentrant = rng.random() < 0.06 and not self.long_ops
        r.advance = rng.choice([0.0, 0.0, 1e-6, 0.5, 10.0, 90000.0, 864000.0])
        r.mutated = False
        r.container = None
        r.obj = None
        r.reg_args = None
        self.recs[r.key] = r
        self.make_tool(r, req)
        return r

    def run_body(self, key):
        """the body of the tool `key` (of the original object or of any duplicate of it)"""
        S = self
        r = S.recs[key]
        S.log.append(key)
        if not S.long_ops:
            try:
                with open(r.sentinel, "a"):
                    pass
            except OSError:
                pass
        if S.clock is not None and r.advance:
            S.clock.advance(r.advance)
        if r.reentrant and S.depth < 2 and S.current is not None:
            S.reenter(r)
        if r.raise_kind:
            S.ctx.count("tool_bodies_raised")
            if S.current is not None:
                S.current.raised = True
            raise RAISE_KINDS[r.raise_kind]("tool %s failed" % r.num)
        return "RAN-%s|" % key

    def dyn_read(self, key):
        """a declaration computed on every read; reading it may (once) re-register the name with a forbidden tool"""
        S = self
        r = S.recs[key]
        S.ctx.count("declaration_reads")
        if not r.dyn_fired and S.current is not None and S.depth < 2 and S.rng.random() < 0.3:
            r.dyn_fired = True
            S.reregister_forbidden(r.name)
        return set(r.dyn_declared)

    def make_tool(self, r, required):
        from operon_ai.organelles.mitochondria import SimpleTool
        S = self
        light = bool(self.long_ops)
        rng = S.rng
        body = Body(r.key, falsy=rng.random() < 0.1)

        style = r.style
        if style == "required":
            r.container = set(required)
            if not light and rng.random() < 0.08:
                # the SAME set object as the declaration of another tool (equal content at this moment)
                twins = [x for x in S.recs.values() if x is not r and x.container is not None and x.style == "required" and x.req_now == r.req_now]
                if twins:
                    r.container = twins[0].container
            kw = {}
            if rng.random() < 0.15:
                kw["parameters_schema"] = rng.choice([{}, {"type": "object", "properties": {"required_capabilities": {"type": "array"}}}, None])
            r.obj = SimpleTool(name=r.name, description=rng.choice(["t", "", "allowed_capabilities=None", "d\ud800"]) if not light else "t",
                               func=body, required_capabilities=r.container, **kw)
            return
        if style == "register_function":
            r.container = set(required)
            r.reg_args = (r.name, body, r.container)
            return
        if style == "frozen_required":
            r.obj = SimpleTool(name=r.name, description="t", func=body, required_capabilities=frozenset(required))
            return

        if style == "dynamic_required":
            r.dyn_declared = frozenset(required)
            r.obj = DynTool(r.key, r.name)
            return
        o = rng.choice([ObjTool, ObjTool, ObjTool, FalsyObjTool, EmptyLenObjTool])(r.key, r.name)
        if rng.random() < 0.1:
            # attributes named like the library's own labels must not be taken for the engine's policy or for a verdict
            o.allowed_capabilities, o.success, o.permitted, o.tools, o.silent = None, True, True, {}, False
        if style == "capabilities":
            r.container = set(required)
            o.capabilities = r.container
        elif style == "both_equal":
            o.capabilities = set(required)
            o.required_capabilities = set(required)
        elif style == "empty_required_plus_capabilities":
            o.required_capabilities = set()
            o.capabilities = set(required)
        elif style == "list_required":
            o.required_capabilities = list(required)
        elif style == "tuple_required":
            o.required_capabilities = tuple(required)
        elif style == "unhashable_required":
            # the declaration also lists a tag that cannot be hashed (so it cannot be a member of any allowed set); the model keeps the
            # hashable part only, so the tool is judged only when a hashable tag is outside the allowed set as well
            o.required_capabilities = list(required) + [rng.choice([["net"], {"scope": "all"}, bytearray(b"x")])]
        elif style == "sub_required":
            o.required_capabilities = rng.choice([SetSub, FrozenSub])(required)
        elif style == "keys_required":
            o.required_capabilities = dict.fromkeys(required, True)       # a mapping: iterating it yields the tags
        r.obj = o

    def registry_get(self, eng, name):
        try:
            return eng.mito.tools.get(name)
        except Exception:
            return None

    def register(self, eng, r, note=True):
        rng = self.rng
        before = self.registry_get(eng, r.name)
        obj = r.obj
        try:
            if r.reg_args is not None:
                kw = {}
                if rng.random() < 0.5:       # the other optional registration arguments must not disturb the declaration
                    kw["parameters_schema"] = rng.choice([{"type": "object", "properties": {"x": {"type": "integer"}}}, {}, {"type": "object"}])
                name, body, req = r.reg_args
                self.ctx.count("register_function_calls")
                if rng.random() < 0.5:
                    kw["description"] = rng.choice(["tool %s" % name, "", "d" * 300])
                    eng.mito.register_function(name, body, required_capabilities=req, **kw)
                else:
                    eng.mito.register_function(name, body, "d", required_capabilities=req, **kw)
            else:
                if not self.long_ops and r.style != "dynamic_required" and rng.random() < 0.06:
                    # a DUPLICATE of the tool object is registered (same body, same declaration at this moment)
                    obj = copy.copy(obj) if rng.random() < 0.5 else copy.deepcopy(obj)
                    self.ctx.count("tool_duplicates_registered")
                if rng.random() < 0.2:
                    eng.mito.engulf_tool(tool=obj)
                else:
                    eng.mito.engulf_tool(obj)
        except Exception as e:
            # registration raised (e.g. the progress message could not be written): the tool counts as registered iff the public registry has it now
            self.ctx.count("registrations_raised")
            now = self.registry_get(eng, r.name)
            if now is None or (now is before and now is not obj):
                self.note({"op": "register raised, not registered", "engine": eng.idx, "tool": r.name, "error": safe_repr(e)[:200]})
                return
        self.model_register(eng, r)
        if note:
            self.note({"op": "register", "engine": eng.idx, "tool": r.name, "key": r.key, "required": fmt(r.req_now), "style": r.style})

    def model_register(self, eng, r):
        old = eng.tools.get(r.name)
        if old is not None:
            self.model_unregister(eng, r.name)
        else:
            eng.name_list.append(r.name)
        eng.tools[r.name] = (r.key, r.req_now)
        lst = eng.reg_by_key.setdefault(r.key, [])
        if r.req_now not in lst:
            lst.append(r.req_now)

    def model_unregister(self, eng, name):
        # (the declarations seen at registration time stay on record: a body that is still running, or that runs although it
        #  was replaced, is judged under every reading the engine may have taken)
        eng.tools.pop(name)

    def reregister_forbidden(self, name):
        """called from inside the engine (a declaration property): the name is re-registered with a forbidden tool"""
        eng = self.current
        self.depth += 1
        try:
            r = self.new_rec(name, force_forbidden_for=eng)
            r.reentrant = False
            self.register(eng, r, note=False)
            self.note({"op": "re-register during declaration read", "engine": eng.idx, "tool": name, "key": r.key, "required": fmt(r.req_now)})
            self.ctx.count("reentrant_reregistrations")
        finally:
            self.depth -= 1

    def reenter(self, r):
        """a tool body calls back into the engine that is running it: requests another tool, or re-registers a name"""
        from operon_ai.organelles.mitochondria import MetabolicPathway
        from operon_ai.providers import ToolCall
        eng, rng = self.current, self.rng
        self.depth += 1
        try:
            self.ctx.count("reentrant_calls")
            names = list(eng.tools)
            if not names:
                return
            forb = [t for t in names if self.verdict_name(eng, t) == "forbidden"]
            if rng.random() < 0.3:
                nm = rng.choice(names)
                r2 = self.new_rec(nm, force_forbidden_for=eng)
                r2.reentrant = False
                self.register(eng, r2, note=False)
                self.note({"op": "re-register from a tool body", "engine": eng.idx, "tool": nm, "key": r2.key, "required": fmt(r2.req_now)})
                target = nm
            else:
                target = rng.choice(forb) if forb and rng.random() < 0.8 else rng.choice(names)
            if self.verdict_name(eng, target) == "forbidden":
                self.ctx.count("forbidden_requests:reentrant")
            how = rng.choice(["execute_tool_call", "metabolize_forced", "metabolize_auto"])
            self.note({"op": "request from a tool body", "engine": eng.idx, "tool": target, "via": how, "from": r.key})
            try:
                if how == "execute_tool_call":
                    eng.mito.execute_tool_call(ToolCall(id="inner", name=target, arguments={}))
                else:
                    eng.mito.metabolize("%s(1)" % target, MetabolicPathway.OXIDATIVE if how == "metabolize_forced" else None)
            except BaseException:
                pass
        finally:
            self.depth -= 1

    # -------------------------------------------------------------- verdicts
    def verdict(self, eng, key):
        r = self.recs[key]
        readings = [r.req_now] + eng.reg_by_key.get(key, [])
        A = eng.allowed
        if all(sure_forbidden(q, A) for q in readings):
            return "forbidden"
        if all(sure_permitted(q, A) for q in readings):
            return "permitted"
        return "ambiguous"

    def verdict_name(self, eng, name):
        return self.verdict(eng, eng.tools[name][0])

    def note(self, rec):
        self.ops += 1
        self.history.append(rec)

    def witness(self, extra=None):
        w = {"operations_so_far": self.ops, "last_operations": list(self.history),
             "engines": [dict({k: v for k, v in e.cfg.items() if not k.startswith("_")}, allowed_model=fmt(e.allowed)) for e in self.engines], "virtual_time": self.clock is not None}
        if extra:
            w.update(extra)
        return w

    # -------------------------------------------------------------- engines
    def new_engine(self):
        from operon_ai.organelles.mitochondria import Mitochondria
        from operon_ai.organelles.nucleus import Nucleus
        rng = self.rng
        e = Eng()
        e.idx = len(self.engines)
        given, model = self.allowed_value()
        if self.engines and rng.random() < 0.15 and self.engines[0].cfg["_given"] is not None:
            # the SAME set object handed to two engines
            given, model = self.engines[0].cfg["_given"], self.engines[0].cfg["_model0"]
        e.allowed = model
        kw = {}
        cfg = {"allowed_form": type(given).__name__}
        if rng.random() < 0.5:
            # (tiny and zero timeouts only under the virtual clock, where expiry is decided by the workload, not by the machine)
            kw["timeout_seconds"] = rng.choice([0, 0.0, 1e-9, 0.001, 0.5, 1, 86400 * 3, 5.0, float("inf")] if self.clock is not None
                                               else [5.0, 60, 1e9, float("inf"), float("nan")])
        if self.long_ops:
            kw["max_ros"] = rng.choice([1e9, float("inf")])
        else:
            x = rng.random()
            if x < 0.65:
                kw["max_ros"] = rng.choice([1e9, 1e9, float("inf")])
            elif x < 0.9:
                kw["max_ros"] = rng.choice([1.0, 1, 0.5, 0.3, 0.1 + 0.2, 0.1, 0, 0.0, float("nan")])
            # else: the default ceiling
        silent = rng.random() < (0.9 if self.long_ops else 0.6)
        if silent or rng.random() < 0.8:
            kw["silent"] = silent
            if rng.random() < 0.15:        # truthy / falsy values that are not bool
                kw["silent"] = rng.choice([1, "yes", [0], 2.5]) if silent else rng.choice([0, None, "", 0.0, ()])
        if "timeout_seconds" in kw and self.clock is not None and rng.random() < 0.15:
            kw["timeout_seconds"] = rng.choice([fractions.Fraction(1, 2), True, fractions.Fraction(10 ** 6), decimal.Decimal("5")])
        if "max_ros" in kw and not self.long_ops and rng.random() < 0.1:
            kw["max_ros"] = rng.choice([fractions.Fraction(1, 3), decimal.Decimal("0.3"), True, fractions.Fraction(10 ** 9)])
        cfg.update({k: repr(v) for k, v in kw.items()})
        cfg["silent"] = repr(bool(kw.get("silent", False)))
        e.cfg = cfg
        e.tools, e.reg_by_key, e.reads, e.raised, e.name_list, e.dup = {}, {}, 0, False, [], None
        initial = [self.new_rec() for _ in range(rng.randint(0, 2))]
        if self.engines and rng.random() < 0.4:
            # a tool object shared with another engine
            shared = [r for r in self.recs.values() if r.obj is not None and r.style != "dynamic_required" and r not in initial]
            if shared:
                initial.append(rng.choice(shared))
        via_ctor = rng.random() < 0.5
        ctor = [r for r in initial if r.obj is not None] if via_ctor else []
        if via_ctor:
            kw["tools"] = [r.obj for r in ctor] if (ctor or rng.random() < 0.5) else None
        ctor_kw = dict(kw)
        if ctor_kw.get("tools") and rng.random() < 0.3:
            # one-shot iterables and other sequences where a list is usual
            ctor_kw["tools"] = rng.choice([iter, tuple, lambda v: (t for t in v), lambda v: map(lambda t: t, v),
                                           lambda v: collections.deque(v), lambda v: {id(t): t for t in v}.values()])(kw["tools"])
            cfg["tools_form"] = type(ctor_kw["tools"]).__name__
        try:
            e.mito = Mitochondria(allowed_capabilities=given, **ctor_kw)
        except Exception as ex:
            # (non-silent construction with a hostile tool name on a strict stream): construct empty, register afterwards
            self.ctx.count("constructions_raised")
            ctor_kw.pop("tools", None)
            kw.pop("tools", None)
            ctor = []
            try:
                e.mito = Mitochondria(allowed_capabilities=given, **ctor_kw)
            except Exception:
                # (a tree that validates its options may reject the unusual value types): plain options
                self.ctx.count("constructions_with_plain_options")
                for k in ("timeout_seconds", "max_ros", "silent"):
                    cfg.pop(k, None)
                cfg["silent"] = "True"
                e.mito = Mitochondria(allowed_capabilities=given, silent=True)
        cfg["_given"], cfg["_model0"] = given, model
        self.engines.append(e)
        if isinstance(kw.get("tools"), list) and rng.random() < 0.3:
            # the caller keeps using its list after construction: what is appended now was never registered
            orphan = self.new_rec(force_forbidden_for=e)
            if orphan.obj is not None:
                kw["tools"].append(orphan.obj)
        for r in ctor:
            self.model_register(e, r)
        self.current = e
        for r in initial:
            if r not in ctor:
                self.register(e, r, note=False)
        self.current = None
        e.nucleus = None
        if rng.random() < 0.5:
            others = [x.nucleus for x in self.engines[:-1] if x.nucleus is not None]
            e.nucleus = rng.choice(others) if others and rng.random() < 0.5 else Nucleus(
                provider=self.get_provider(), base_energy_cost=rng.choice([10, 0, 1, 10 ** 9]), max_retries=rng.choice([3, 0, 1]),
                **({"transcription_log": []} if rng.random() < 0.2 else {}))
        self.note({"op": "new engine", "engine": e.idx, "config": {k: v for k, v in cfg.items() if not k.startswith("_")},
                   "allowed": fmt(model), "tools": {nm: fmt(self.recs[k].req_now) for nm, (k, _) in e.tools.items()}})
        return e

    def get_provider(self):
        if self.provider is None:
            self.provider = ScriptedProvider(self)
        return self.provider

    # -------------------------------------------------------------- operations
    def spell(self, name):
        """how the request spells the tool: mostly exactly; sometimes a case / whitespace variant that is NOT a registered
        name (then no registered tool is addressed at all and, in particular, no forbidden tool may run)"""
        rng = self.rng
        if rng.random() < 0.75:
            return name
        return rng.choice([name.upper(), name.lower(), name.title(), name.swapcase(), name + " ", " " + name, name + "_", name[:-1]])

    ARGS = ["1, 2", "3, k=4", "", "0.1 + 0.2, -0.0, k=2**53 + 1", "inf, k=[1, 2]", "1e308 * 10", "k=-0.0", "'a', \"b\"", "(1, 2), [3]"]

    def request(self, eng, entry, name):
        from operon_ai.organelles.mitochondria import MetabolicPathway
        from operon_ai.providers import ToolCall
        ctx, rng, mito = self.ctx, self.rng, eng.mito
        target = name
        name = self.spell(name) if not self.long_ops or rng.random() < 0.02 else name
        addressed = True
        if name != target:
            ctx.count("misspelled_requests")
            if name in eng.tools:          # the variant happens to be another registered tool: that one is addressed
                target = name
            else:
                addressed = False          # no registered tool is addressed; only the global rule applies
        if target not in eng.tools:        # a name this engine never registered (another engine's tool, an orphan)
            addressed = False
            self.ctx.count("foreign_requests")
            key, r0, v0 = None, None, None
        else:
            key = eng.tools[target][0]
            r0 = self.recs[key]
            v0 = self.verdict(eng, key)
        mark = len(self.log)
        try:
            dysfunctional = bool(mito.get_ros_level() >= mito.max_ros)     # (informational: public getter + public option)
        except Exception:
            dysfunctional = False
        if not self.long_ops:
            _AUDIT["hits"].clear()
            _AUDIT["armed"] = True
        self.current = eng
        reported_success = None
        detail = None
        judged_report = False
        try:
            by_keyword = rng.random() < 0.2
            if entry == "metabolize_auto":
                expr = "%s(%s)" % (name, rng.choice(self.ARGS))
                r = mito.metabolize(expression=expr, pathway=None) if by_keyword else mito.metabolize(expr)
                reported_success, detail = r.success, r.error
                # auto-detection may route an allow-listed name (sum/abs/len) elsewhere; that is fine
            elif entry == "metabolize_forced":
                expr = "%s(%s)" % (name, rng.choice(self.ARGS))
                r = (mito.metabolize(expression=expr, pathway=MetabolicPathway.OXIDATIVE) if by_keyword
                     else mito.metabolize(expr, MetabolicPathway.OXIDATIVE))
                reported_success, detail = r.success, r.error
                judged_report = True
            elif entry == "metabolize_nested":
                others = [t for t in eng.tools if t != target]
                perm = [t for t in others if self.verdict_name(eng, t) == "permitted"]
                outer = rng.choice(perm) if perm and rng.random() < 0.7 else rng.choice(others) if others else "abs"
                shape = rng.choice(["1 + %(n)s(1)", "%(o)s(%(n)s(1))", "%(o)s(k=%(n)s())", "[%(n)s(1)]", "%(n)s(1) if 1 else 0",
                                    "0 if 0 else %(n)s()", "%(n)s(1) == 1", "abs(%(n)s(1))", "%(n)s(1) and true", "(%(n)s(2), 1)",
                                    "%(o)s(1, %(n)s(k=%(o)s()))", "-%(n)s()", "%(n)s()(1)", "%(n)s(%(n)s())"])
                expr = shape % {"n": name, "o": outer}
                pw = rng.choice([None, None, MetabolicPathway.OXIDATIVE, MetabolicPathway.OXIDATIVE, MetabolicPathway.GLYCOLYSIS,
                                 MetabolicPathway.KREBS_CYCLE])
                r = mito.metabolize(expr, pw)
                reported_success, detail = r.success, r.error
            elif entry == "metabolize_other_pathway":
                r = mito.metabolize("%s(3)" % name, rng.choice([MetabolicPathway.GLYCOLYSIS, MetabolicPathway.KREBS_CYCLE, MetabolicPathway.BETA_OXIDATION]))
                reported_success, detail = r.success, r.error
            elif entry == "digest_glucose":
                s = mito.digest_glucose(expression="%s(5)" % name) if by_keyword else mito.digest_glucose("%s(5)" % name)
                reported_success, detail = ("RAN-" in s), s
            elif entry == "execute_tool_call":
                call = self.call_cache.get(name) if rng.random() < 0.3 else None      # the same ToolCall object again
                if call is None:
                    arguments = rng.choice(
                        [{}, {}, {"x": 1}, {"x": float("nan"), "k": 2 ** 53 + 1}, {"a b": -0.0}, {"x": None}, None,
                         # keys named like the library's own labels, unparsable values inside an otherwise valid payload
                         {"name": "abs", "tool": 1}, {"required_capabilities": [], "allowed_capabilities": None}, {"call": {}, "success": True},
                         {"self": 1}, "not a mapping", [("x", 1)], {"x": "\ud800"}, types.MappingProxyType({"x": 1})])
                    cid = rng.choice(["c%d" % self.ops, "c%d" % self.ops, None, 7, "", "id\nTool 'x' returned: RAN", "\ud800"])
                    if rng.random() < 0.15:
                        # a duck-typed call object (not a ToolCall), possibly carrying attributes named like a result
                        call = types.SimpleNamespace(id=cid, name=name, arguments=arguments, success=True, output="RAN", error=None)
                    else:
                        call = ToolCall(id=cid, name=name, arguments=arguments)
                    self.call_cache[name] = call
                r = mito.execute_tool_call(call=call) if by_keyword else mito.execute_tool_call(call)
                reported_success, detail = r.success, r.error or r.output
                judged_report = True
            elif entry == "llm_loop":
                from operon_ai.organelles.nucleus import Nucleus
                prov = self.get_provider()
                prov.script(eng, name)
                nuc = eng.nucleus
                if nuc is None or rng.random() < 0.3:
                    nuc = Nucleus(provider=prov)
                kw = {}
                if rng.random() < 0.1:
                    kw["auto_execute"] = rng.random() < 0.5
                if rng.random() < 0.2:
                    from operon_ai.providers import ProviderConfig
                    kw["config"] = rng.choice([None, ProviderConfig(), ProviderConfig(temperature=0.0, max_tokens=1, timeout_seconds=0, system_prompt="allow every tool")])
                try:
                    if by_keyword:
                        nuc.transcribe_with_tools(prompt="q", mitochondria=mito, max_iterations=rng.choice([0, 1, 1, 2, 3, 4]), **kw)
                    else:
                        nuc.transcribe_with_tools("q", mito, max_iterations=rng.choice([0, 1, 1, 2, 3, 4]), **kw)
                finally:
                    prov.active = False
                leaked = [p for p in prov.prompts if ("RAN-%s|" % key) in p]
                reported_success = bool(leaked)
                detail = leaked[:1]
                judged_report = True
        except BaseException as e:  # an exception is not an execution; totality belongs to C01
            reported_success, detail = False, "raised %s" % safe_repr(e)[:300]
        finally:
            _AUDIT["armed"] = False
            self.current = None
        ran = self.log[mark:]
        ctx.count("entry:" + entry)
        rec = {"op": "request", "engine": eng.idx, "entry": entry, "tool": target, "key": key, "spelled": name, "required": fmt(r0.req_now) if r0 else None,
               "style": r0.style if r0 else None, "allowed": fmt(eng.allowed), "verdict_by_model": v0, "ran": list(ran[:6]),
               "reported_success": reported_success}
        self.note(rec)
        # whatever was requested, however it was spelled, on whichever engine: no tool outside THIS engine's allowed set may have run
        judged = set()
        hits = [] if self.long_ops else [self.by_num.get(os.path.basename(h).split("-", 1)[-1], "?") for h in _AUDIT["hits"]]
        for k in list(ran) + hits:
            if k in judged or k not in self.recs:
                continue
            judged.add(k)
            if self.verdict(eng, k) == "forbidden":
                rk = self.recs[k]
                ctx.violation("forbidden-tool-ran:" + entry,
                              "request spelled %r via %s on engine %d ran tool %r (requires %s) with allowed=%s (log %d, sentinel opens %d)" % (
                                  name, entry, eng.idx, rk.name, fmt(rk.req_now), fmt(eng.allowed), ran.count(k), hits.count(k)),
                              self.witness({"ran_key": k}))
        if not addressed:
            return
        if v0 == "ambiguous":
            ctx.count("ambiguous_requests")
        if v0 == "forbidden":
            ctx.count("forbidden_requests")
            if not self.long_ops:
                ctx.count("forbidden_requests:short_sessions")
            if r0.custom:
                ctx.count("forbidden_requests:custom_tag")
            if eng.reads:
                ctx.count("forbidden_requests:after_read")
            if eng.cfg.get("silent") != "True":
                ctx.count("forbidden_requests:verbose")
            if eng.idx > 0:
                ctx.count("forbidden_requests:second_engine")
            if self.clock is not None:
                ctx.count("forbidden_requests:virtual_time")
            if eng.raised:
                ctx.count("forbidden_requests:after_tool_raised")
            if r0.mutated:
                ctx.count("forbidden_requests:after_declaration_mutation")
            if dysfunctional:
                ctx.count("forbidden_requests:dysfunctional")
            if eng.dup:
                ctx.count("forbidden_requests:on_duplicate")
                ctx.count("forbidden_requests:on_duplicate:" + eng.dup)
            if self.strict_out:
                ctx.count("forbidden_requests:strict_stream")
            if r0.style in ("unhashable_required", "sub_required", "keys_required"):
                ctx.count("forbidden_requests:" + r0.style)
            if type(target) is not str or not target.isidentifier():
                ctx.count("forbidden_requests:hostile_name")
            self.forbidden_seen.add((entry, len(eng.allowed), sum(1 for q in r0.req_now if certainly_outside(q, eng.allowed)), r0.style, r0.custom))
            still = eng.tools.get(target)
            if (reported_success and judged_report and key not in ran and still is not None
                    and self.verdict(eng, still[0]) == "forbidden"):
                ctx.violation("forbidden-request-reported-success:" + entry,
                              "forbidden request for %r via %s reported success (%r)" % (name, entry, detail), self.witness())
        elif v0 == "permitted" and key in ran:
            ctx.count("permitted_runs")
            if eng.dup:
                ctx.count("permitted_runs:on_duplicate")

    def op_read(self, eng):
        """reporting / read-only APIs: must not change any later verdict"""
        rng, mito = self.rng, eng.mito
        what = rng.choice(["get_statistics", "get_statistics", "list_tools", "export_tool_schemas", "get_efficiency", "get_ros_level",
                           "repr", "nucleus_reports", "all_public_getters"])
        self.current = eng
        try:
            if what == "repr":
                repr(mito), str(mito)
            elif what == "nucleus_reports":
                if eng.nucleus is not None:
                    eng.nucleus.get_total_tokens_used()
                    eng.nucleus.get_total_energy_consumed()
                    repr(eng.nucleus)
                    if rng.random() < 0.3:
                        eng.nucleus.transcribe("plain question", config=None)      # (no tools involved: must not run any)
            elif what == "all_public_getters":
                # every public zero-argument get_* / list_* / export_* method, whatever it is called
                for nm in sorted(dir(type(mito))):
                    if nm.startswith(("get_", "list_", "export_")):
                        fn = getattr(mito, nm, None)
                        try:
                            if callable(fn) and all(p.default is not p.empty or p.kind in (p.VAR_POSITIONAL, p.VAR_KEYWORD)
                                                    for p in inspect.signature(fn).parameters.values()):
                                fn()
                        except Exception:
                            pass
            else:
                for _ in range(rng.choice([1, 1, 3])):
                    getattr(mito, what)()
        except Exception:
            pass       # a failing report is not a C03 matter
        finally:
            self.current = None
        eng.reads += 1
        self.ctx.count("reads")
        self.note({"op": "read", "engine": eng.idx, "what": what})

    def op_maintenance(self, eng):
        rng = self.rng
        amount = rng.choice([None, 0, 0.1, 0.5, 1e9, -1, float("nan"), float("inf"), 0.1 + 0.2])
        try:
            if amount is None:
                eng.mito.repair()
            elif rng.random() < 0.3:
                eng.mito.repair(amount=amount)
            else:
                eng.mito.repair(amount)
        except Exception:
            pass
        if eng.nucleus is not None and rng.random() < 0.3:
            try:
                eng.nucleus.clear_log()
            except Exception:
                pass
        self.ctx.count("maintenance_calls")
        self.note({"op": "repair", "engine": eng.idx, "amount": repr(amount)})

    def op_unregister(self, eng):
        if not eng.tools:
            return
        name = self.rng.choice(list(eng.tools))
        try:
            if not self.long_ops and self.rng.random() < 0.2 and not any(x is not eng and x.tools is eng.tools for x in self.engines):
                # the public registry attribute is assigned a fresh mapping without the tool
                eng.mito.tools = {k: v for k, v in eng.mito.tools.items() if k != name}
                self.ctx.count("registry_rebound")
            else:
                eng.mito.tools.pop(name, None)
        except Exception:
            return     # (the registry is not a plain mapping: nothing was removed, and the model is requirement-based anyway)
        self.model_unregister(eng, name)
        self.ctx.count("unregistrations")
        self.note({"op": "unregister", "engine": eng.idx, "tool": name})

    def op_mutate_declaration(self, eng):
        """the tool author changes what a registered tool declares (in place, or by rebinding the attribute); a container may
        be shared by several tools, then all of them change"""
        rng = self.rng
        cands = [self.recs[k] for (k, _) in eng.tools.values()]
        cands = [r for r in cands if r.container is not None or (r.obj is not None and r.style in ("required", "frozen_required"))]
        if not cands:
            return
        r = rng.choice(cands)
        tag = rng.choice(self.caps + self.custom_tags[:6])
        rebind = r.obj is not None and r.style in ("required", "frozen_required") and (r.container is None or rng.random() < 0.3)
        if not rebind:
            how = "in place"
            if tag in r.container and rng.random() < 0.7:
                r.container.discard(tag)
            else:
                r.container.add(tag)
            for other in self.recs.values() if not self.long_ops else [r]:
                if other.container is r.container:
                    other.req_now = frozenset(r.container)
                    other.mutated = True
        else:
            how = "rebound"
            new = set(r.req_now)
            new.symmetric_difference_update({tag})
            r.container = new if r.style == "required" else None
            r.obj.required_capabilities = new if r.style == "required" else frozenset(new)
            r.req_now = frozenset(new)
            r.mutated = True
        self.ctx.count("declaration_mutations")
        self.note({"op": "mutate declaration", "tool": r.name, "key": r.key, "how": how, "now": fmt(r.req_now)})

    def op_reconfigure(self, eng):
        """the public options of a live engine are assigned new values (verbosity, ROS ceiling, timeout)"""
        rng = self.rng
        what = rng.choice(["silent", "silent", "max_ros", "timeout"])
        if what == "silent":
            val = rng.random() < 0.4
            if rng.random() < 0.2:
                val = rng.choice([1, "quiet", [0]]) if val else rng.choice([0, None, "", 0.0])
        elif what == "max_ros":
            val = rng.choice([1e9, float("inf"), 1.0, 0.3, 0, float("nan")]) if not self.long_ops else 1e9
        else:
            val = rng.choice([0, 1e-9, 0.5, 86400 * 3, float("inf")] if self.clock is not None else [5.0, 1e9, float("inf")])
        try:
            setattr(eng.mito, what, val)
        except Exception:
            return
        eng.cfg[what if what != "timeout" else "timeout_seconds"] = repr(val) if what != "silent" else repr(bool(val))
        self.ctx.count("reconfigurations")
        self.note({"op": "reconfigure", "engine": eng.idx, "option": what, "value": repr(val)})

    def op_set_allowed(self, eng):
        given, model = self.allowed_value()
        try:
            eng.mito.allowed_capabilities = given
        except Exception:
            self.ctx.count("set_allowed_rejected")
            return
        eng.allowed = model
        self.note({"op": "set_allowed", "engine": eng.idx, "allowed": fmt(model), "form": type(given).__name__})

    ENTRIES = ["metabolize_auto", "metabolize_forced", "execute_tool_call", "llm_loop",
               "metabolize_auto", "metabolize_forced", "execute_tool_call", "llm_loop",
               "digest_glucose", "metabolize_other_pathway", "metabolize_nested", "metabolize_nested"]
    LONG_ENTRIES = ["execute_tool_call"] * 6 + ["metabolize_forced"] * 5 + ["metabolize_auto", "metabolize_nested", "digest_glucose"]

    def step(self):
        rng = self.rng
        eng = rng.choice(self.engines)
        r = rng.random()
        if self.long_ops:
            if rng.random() < 0.7:
                eng = self.engines[0]        # most of a long history happens on ONE engine
            # mostly requests; the other operations keep happening throughout the session
            if len(eng.tools) < 2500 and rng.random() < 0.15:
                r = 0.0
            elif rng.random() < 0.04:
                r = rng.random() * 0.49
            else:
                r = 0.9
        if r < 0.13 or not eng.tools:
            rr = rng.random()
            if eng.tools and rr < (0.25 if self.long_ops else 0.45):
                name = rng.choice(list(eng.tools))       # re-registration under the same name
                rec = self.new_rec(name, force_forbidden_for=eng if rng.random() < 0.5 else None)
            elif rr < 0.6 and len(self.engines) > 1:
                # a tool (object) that another engine already has
                pool = [x for x in self.recs.values() if x.obj is not None and x.style != "dynamic_required"]
                rec = rng.choice(pool) if pool else self.new_rec()
            else:
                rec = self.new_rec()
            self.current = eng
            try:
                self.register(eng, rec)
            finally:
                self.current = None
        elif r < 0.2:
            self.op_set_allowed(eng)
        elif r < 0.3:
            self.op_read(eng)
        elif r < 0.34:
            self.op_maintenance(eng)
        elif r < 0.38:
            self.op_unregister(eng)
        elif r < 0.42:
            self.op_mutate_declaration(eng)
        elif r < 0.43 and len(self.engines) < 3 and not self.long_ops:
            self.new_engine()
        elif r < 0.46:
            self.op_reconfigure(eng)
        elif r < 0.49 and len(self.engines) < (3 if self.long_ops else 5):
            self.op_duplicate(eng)
        elif r < 0.497 and not self.long_ops:
            self.op_address_reuse(eng)
        else:
            self.aimed_request(eng)

    def aimed_request(self, eng, entry=None):
        rng = self.rng
        if not eng.tools:
            return
        if entry is None:
            entry = rng.choice(self.LONG_ENTRIES if self.long_ops else self.ENTRIES)
            if self.long_ops and rng.random() < 0.002:
                entry = "llm_loop"
        # aim at forbidden tools more often than chance would
        names = list(eng.tools) if len(eng.tools) < 50 else self.some_names(eng)
        forb = [t for t in names if self.verdict_name(eng, t) == "forbidden"]
        name = rng.choice(forb) if forb and rng.random() < 0.7 else rng.choice(names)
        if rng.random() < 0.06:
            # a tool this engine never registered: registered on another engine only, or merely appended to a constructor list
            foreign = [x.name for x in self.recs.values() if x.name not in eng.tools]
            if foreign:
                name = rng.choice(foreign[:50])
        self.request(eng, entry, name)

    def op_duplicate(self, eng):
        """copy.copy / copy.deepcopy / pickle round trip of a live engine: the duplicate is one more engine of the session and has the
        same obligations (same policy, same registrations) as the original at the moment of duplication"""
        rng, ctx = self.rng, self.ctx
        how = rng.choice(["copy", "deepcopy", "pickle", "deepcopy", "pickle", "reduce"])
        try:
            if how == "copy":
                m2 = copy.copy(eng.mito)
            elif how == "deepcopy":
                m2 = copy.deepcopy(eng.mito)
            elif how == "reduce":
                # the reduce protocol driven by hand (what a snapshot library does)
                rv = eng.mito.__reduce_ex__(rng.choice([2, 4]))
                m2 = rv[0](*rv[1])
                state = rv[2] if len(rv) > 2 else None
                if state is not None:
                    state = copy.deepcopy(state) if rng.random() < 0.5 else state
                    if hasattr(m2, "__setstate__"):
                        m2.__setstate__(state)
                    else:
                        slotstate = None
                        if isinstance(state, tuple) and len(state) == 2:
                            state, slotstate = state
                        if state:
                            m2.__dict__.update(state)
                        for k_, v_ in (slotstate or {}).items():
                            setattr(m2, k_, v_)
            else:
                m2 = pickle.loads(pickle.dumps(eng.mito, rng.choice([0, 2, 4, pickle.HIGHEST_PROTOCOL, pickle.DEFAULT_PROTOCOL])))
        except Exception as e:
            ctx.count("duplications_failed")       # (e.g. a policy handed over as a key view cannot be deep-copied): nothing to judge
            self.note({"op": "duplicate failed", "engine": eng.idx, "how": how, "error": safe_repr(e)[:200]})
            return
        ctx.count("duplications")
        ctx.count("duplications:" + how)
        e = Eng()
        e.idx = len(self.engines)
        e.mito = m2
        e.allowed = eng.allowed
        e.reads, e.raised, e.dup = eng.reads, eng.raised, how
        shared = False
        try:
            shared = m2.tools is eng.mito.tools
        except Exception:
            pass
        if shared:
            # (a shallow copy shares the public registry mapping: what is registered on one is registered on the other)
            e.tools, e.reg_by_key, e.name_list = eng.tools, eng.reg_by_key, eng.name_list
        else:
            e.tools = dict(eng.tools)
            e.name_list = list(eng.name_list)
            e.reg_by_key = {k: list(v) for k, v in eng.reg_by_key.items()}
            for nm, (k, _) in eng.tools.items():
                # the duplicate of a tool declares what the original declared at this moment, whatever happens to the original later
                lst = e.reg_by_key.setdefault(k, [])
                q = self.recs[k].req_now
                if q not in lst:
                    lst.append(q)
        e.cfg = dict(eng.cfg, duplicate_of=eng.idx, duplicated_by=how)
        e.nucleus = eng.nucleus if rng.random() < 0.5 else None
        if e.nucleus is not None and rng.random() < 0.5:
            try:
                e.nucleus = copy.copy(e.nucleus)
            except Exception:
                pass
        self.engines.append(e)
        self.note({"op": "duplicate", "engine": eng.idx, "how": how, "new_engine": e.idx, "allowed": fmt(e.allowed),
                   "tools": {nm: fmt(self.recs[k].req_now) for nm, (k, _) in list(e.tools.items())[:8]}})
        for _ in range(rng.choice([0, 1, 1, 2])):
            self.aimed_request(e)
        if rng.random() < 0.3:
            self.aimed_request(eng)        # ... and the original is as restricted as before

    def op_address_reuse(self, eng):
        """short-lived tools / policies / calls created and dropped in a loop: a fresh object may get the address of a dead one, so a decision
        remembered by id() would be served for the wrong object"""
        rng, ctx = self.rng, self.ctx
        if eng.allowed is None or any(x is not eng and x.tools is eng.tools for x in self.engines):
            return
        name = rng.choice(["scratch", "fetch", "tmp_tool"])
        style = rng.choice(["required", "frozen_required", "capabilities", "list_required", "register_function"])
        entry = rng.choice(["execute_tool_call", "metabolize_forced", "metabolize_auto", "llm_loop"])
        keep_styles = self.styles
        ctx.count("address_reuse_rounds")
        try:
            self.styles = [style]
            for i in range(rng.choice([2, 3, 4])):
                for forbidden in (False, True):
                    r = self.new_rec(name, force_forbidden_for=eng if forbidden else None, force_permitted_for=None if forbidden else eng)
                    r.reentrant = False
                    self.current = eng
                    try:
                        self.register(eng, r, note=True)
                    finally:
                        self.current = None
                    if name in eng.tools:
                        self.request(eng, entry, name)
                    # drop every reference the session holds to the tool object, then let the allocator reuse the address
                    self.registry_pop(eng, name)
                    r.obj = None
                    r.reg_args = None
                    self.call_cache.pop(name, None)
                    del r
                    gc.collect(0 if rng.random() < 0.9 else 2)
        finally:
            self.styles = keep_styles

    def registry_pop(self, eng, name):
        try:
            eng.mito.tools.pop(name, None)
        except Exception:
            pass
        if name in eng.tools:
            self.model_unregister(eng, name)

    def some_names(self, eng):
        lst = eng.name_list
        got = [t for t in (self.rng.choice(lst) for _ in range(6)) if t in eng.tools]
        return got or [next(iter(eng.tools))]

    def run(self):
        rng = self.rng
        for _ in range(1 if self.long_ops and rng.random() < 0.5 else rng.choice([1, 1, 2, 2, 2, 3]) if not self.long_ops else 2):
            self.new_engine()
        steps = self.long_ops or rng.randint(2, 10)
        for _ in range(steps):
            self.step()
        if self.long_ops:
            self.ctx.count("long_session_ops", self.ops)
            self.ctx.count("long_sessions")
            self.ctx.maxc("tools_registered_on_one_engine", max(len(e.tools) for e in self.engines))


class ScriptedProvider:
    """adversarial LLM provider: requests the scripted tool by exact name, other registered tools, unknown tools, duplicates;
    sometimes returns the SAME ToolCall / list objects round after round; sometimes raises"""
    name = "adversary"

    def __init__(self, session):
        self.S = session
        self.prompts = []
        self.active = False
        self.same_calls = None

    def script(self, eng, name):
        self.eng, self.target = eng, name
        self.prompts = []
        self.active = True
        self.same_calls = None
        self.identical = self.S.rng.random() < 0.25
        self.raise_at = self.S.rng.choice([2, 3]) if self.S.rng.random() < 0.08 else None

    def is_available(self):
        return True

    def complete(self, prompt, config=None):
        from operon_ai.providers import LLMResponse
        self.prompts.append(prompt)
        return LLMResponse(content="final", model="m", tokens_used=1, latency_ms=0.0)

    def complete_with_tools(self, prompt, tools=None, config=None):
        from operon_ai.providers import LLMResponse, ToolCall
        rng = self.S.rng
        self.prompts.append(prompt)
        k = len(self.prompts)
        if self.raise_at == k:
            self.S.ctx.count("provider_raised")
            raise rng.choice([RuntimeError, PermissionError, TimeoutError, ValueError])("provider failed")
        if self.identical and self.same_calls is not None:
            return self.same_resp, self.same_calls
        name = self.target
        others = [t for t in self.eng.tools if t != name]
        calls = [ToolCall(id="id%d" % k, name=name, arguments={})]
        if others and rng.random() < 0.5:
            calls.insert(rng.randint(0, 1), ToolCall(id="o%d" % k, name=rng.choice(others), arguments={}))
        if rng.random() < 0.3:
            calls.append(ToolCall(id="u%d" % k, name="no_such_tool", arguments={}))
        if rng.random() < 0.3:
            calls.append(ToolCall(id="id%d" % k, name=name, arguments={}))
        if rng.random() < 0.15:
            calls.append(calls[0])               # the same ToolCall object twice in one round
        resp = LLMResponse(content="r", model="m", tokens_used=1, latency_ms=0.0)
        self.same_resp, self.same_calls = resp, calls
        return resp, calls


def session_case(ctx, n, long_ops=0):
    import operon_ai.organelles.mitochondria as mito_mod
    rng = ctx.rng(n)
    S = Session(ctx, n, rng, long_ops)
    previous = _ACTIVE[0]
    _ACTIVE[0] = S
    try:
        with contextlib.ExitStack() as stack:
            # verbose engines print; nothing may depend on it. A share of the sessions writes to a strict UTF-8 stream.
            stack.enter_context(contextlib.redirect_stdout(strict_stream() if S.strict_out else _Sink()))
            if rng.random() < 0.5:
                S.clock = vclock.VClock(base=1_700_000_000.0)     # (only the engine module reads it, through time.time())
                stack.enter_context(vclock.patched(S.clock, mito_mod))
            S.run()
    finally:
        _ACTIVE[0] = previous
    for f in S.forbidden_seen:
        ctx.nontrivial(f)
    if n % 500 == 0:
        ctx.sample({"engines": [dict((k, v) for k, v in e.cfg.items() if not k.startswith("_")) for e in S.engines],
                    "history": list(S.history)[:25]})


def run_case(ctx, n):
    if n % (700 if ctx.tier == "quick" else 10000) == 11:
        return thread_case(ctx, n)
    if ctx.tier == "quick":
        if n in (13, 6006):
            return session_case(ctx, n, long_ops=21000 if n == 13 else 6000)
    elif n % 25000 == 13:
        return session_case(ctx, n, long_ops=ctx.rng(n, "len").choice([21000, 30000, 60000]))
    return session_case(ctx, n)


# ------------------------------------------------------------------ the same sessions in an interpreter started with -O / -OO
# A guard written as an `assert` disappears when the interpreter optimises. A small share of the session workload therefore runs in a child
# interpreter started with -O (and one with -OO in a time zone far from UTC); its verdicts come back as `<mechanism>:python-O`.
CHILD_BASE = 1_000_000


def child_specs(tier):
    k = 1 if tier == "quick" else 10
    return [{"flag": "-O", "level": 1, "start": CHILD_BASE, "count": 500 * k, "tz": None},
            {"flag": "-OO", "level": 2, "start": CHILD_BASE + 500 * k, "count": 250 * k, "tz": "Pacific/Kiritimati"}]


def child_main(argv):
    import time
    tier, seed, level, start, count, out = argv[0], int(argv[1]), int(argv[2]), int(argv[3]), int(argv[4]), argv[5]
    if os.environ.get("C03_CHILD_TZ"):
        os.environ["TZ"] = os.environ["C03_CHILD_TZ"]
        time.tzset()
    ctx = core.Ctx(PID, tier, seed, 90 + level, 1, verbose=bool(os.environ.get("C03_CHILD_VERBOSE")))
    status = "ok"
    try:
        setup_shard(ctx)
        for n in range(start, start + count):
            ctx.case = "optimized:%d:%d" % (level, n)
            ctx.evaluations += 1
            session_case(ctx, n)
        teardown_shard(ctx)
    except BaseException as e:
        import traceback
        status = "harness-error: " + "".join(traceback.format_exception(type(e), e, e.__traceback__))[-2000:]
    d = ctx.dump()
    d.update({"status": status, "optimize": sys.flags.optimize, "tzname": list(time.tzname), "utc_offset_s": -time.timezone})
    with open(out, "w") as f:
        json.dump(d, f)
    return 0


def run_child(spec, tier, seed, verbose=False):
    fd, out = tempfile.mkstemp(prefix="operon-verif-c03-child-", suffix=".json", dir="/var/tmp")
    os.close(fd)
    env = dict(os.environ)
    env.pop("PYTHONOPTIMIZE", None)
    if spec.get("tz"):
        env["C03_CHILD_TZ"] = spec["tz"]
    if verbose:
        env["C03_CHILD_VERBOSE"] = "1"
    cmd = [sys.executable, spec["flag"], "-B", "-m", "checks.c03_capabilities", "--c03-child", tier, str(seed), str(spec["level"]),
           str(spec["start"]), str(spec["count"]), out]
    try:
        p = subprocess.run(cmd, cwd=core.VERIF, env=env, capture_output=not verbose, text=True, timeout=300 if tier == "quick" else 1500)
        with open(out) as f:
            return json.load(f), None
    except subprocess.TimeoutExpired:
        return None, "child interpreter (%s) exceeded its hard timeout" % spec["flag"]
    except Exception as e:
        tail = ""
        try:
            tail = (p.stderr or "")[-600:]
        except Exception:
            pass
        return None, "child interpreter (%s) produced no result: %r %s" % (spec["flag"], e, tail)
    finally:
        try:
            os.unlink(out)
        except OSError:
            pass


def merge_child(pctx, spec, res, err):
    tag = "python-O"
    if res is None:
        pctx.inconclusive(err)
        return
    if res.get("status") != "ok":
        pctx.inconclusive("child interpreter (%s): %s" % (spec["flag"], res.get("status")))
    if res.get("optimize") != spec["level"]:
        pctx.inconclusive("child interpreter (%s) did not run optimised (sys.flags.optimize=%r)" % (spec["flag"], res.get("optimize")))
        return
    pctx.count("%s:children" % tag)
    pctx.count("%s:sessions" % tag, res.get("evaluations", 0))
    if spec.get("tz") and res.get("utc_offset_s"):
        pctx.count("%s:sessions_far_from_utc" % tag, res.get("evaluations", 0))
    for k, v in res["counters"].items():
        if k.startswith("max:"):
            pctx.maxc("%s:%s" % (tag, k[4:]), v)
        else:
            pctx.count("%s:%s" % (tag, k), v)
    pctx.fingerprints.update(res.get("fingerprints", []))
    for r in res.get("inconclusive_reasons", []):
        pctx.inconclusive("child interpreter (%s): %s" % (spec["flag"], r))
    for v in res["violations"]:
        pctx.case = v["case"]
        pctx.violation("%s:%s" % (v["mechanism"], tag), "%s [interpreter started with %s]" % (v["what"], spec["flag"]), v["witness"])
    for m, c in res["violation_counts"].items():
        key = "%s:%s" % (m, tag)
        pctx.violation_counts[key] = max(pctx.violation_counts.get(key, 0), c)
    pctx.case = None


def extra_parent(pctx):
    from concurrent.futures import ThreadPoolExecutor
    specs = child_specs(pctx.tier)
    with ThreadPoolExecutor(len(specs)) as ex:
        for spec, (res, err) in zip(specs, ex.map(lambda sp: run_child(sp, pctx.tier, pctx.seed), specs)):
            merge_child(pctx, spec, res, err)


def replay_special(ctx, case):
    """case = "optimized:<level>:<n>": run that one session again in a child interpreter started with the same flag"""
    _, level, n = str(case).split(":")
    spec = {"flag": "-O" if level == "1" else "-OO", "level": int(level), "start": int(n), "count": 1,
            "tz": None if level == "1" else "Pacific/Kiritimati"}
    res, err = run_child(spec, ctx.tier, ctx.seed)
    merge_child(ctx, spec, res, err)


if __name__ == "__main__":
    if len(sys.argv) > 1 and sys.argv[1] == "--c03-child":
        sys.exit(child_main(sys.argv[2:]))
    core.main(sys.modules[__name__])
