"""C08 — circuit breaker: trips at the threshold, isolates while open, recovers half-open.

A reference timed automaton (built from the statement) is stepped in lock-step with the real loop
under a virtual clock patched into operon_ai.topology.loops; after each step the harness compares
result.action, get_circuit_breaker_stats(), stub invocation counters and the budget balance.
Outcome classes are produced by scripted stub agents (and, in a second workload, by recording
proxies around the genuine BioAgents).

Structure: `Rig` owns one real loop with its stubs / callbacks and executes concrete operations
(request, clock advance, reset, cache clear); `Session` = Rig + reference automaton + judgement.
Sessions are run alone, in pairs on one clock (two differently configured instances used
alternately), very long (> 20 000 operations on one instance), and followed by a "twin" replay
of the same concrete operations with no / many read-only calls in between (differential).
"""
import contextlib
import datetime as _dt
import enum
import itertools
import sys

from rv import core, sched
from rv.locks import wrap_all_locks
from rv.vclock import VClock, patched
from rv.faults import enable_unprintable, make_exception

enable_unprintable()      # "whatever the user code raises" includes exceptions that cannot be turned into text

PID = "C08"
LEVEL = "exploration"
TECHNIQUE = "runtime monitoring: lock-step reference timed automaton vs the real guard loop under a virtual clock, with invocation counters in stub/proxied agents and budget snapshots"
RULE = ("threshold 1..4 x recovery {1s,60s} x cache on/off x breaker on/off; all sequences of length <= 4 (quick) / <= 5 (thorough) over "
        "{S success, B intentional block, F executor failure, X agent exception, C repeat of a cached prompt, d< d= d> clock advances relative to the "
        "recovery timeout, R manual reset} are swept, longer ones (6-8) sampled with extreme / fractional thresholds and timeouts (0, sub-second, "
        "fractional, whole days), verbose mode, raising / reading callbacks, shared verdict objects, repeated prompts, clock jumps beyond 24 h, "
        "cache clears, pairs of differently configured instances used alternately, read-only calls interleaved (differential twin) and sessions of "
        "> 20 000 operations on one instance; a second workload drives the genuine BioAgents; "
        "non-trivial = the sequence reaches OPEN; distinct = reference-automaton state trace")
ASSUMPTIONS = ["default AND gate; failure := executor FAILURE verdict (assessor permitting) or agent exception, as the statement lists them",
               "several probes may be admitted while half-open; a cache hit is not a consultation",
               "failures counted 'in total' since the last clear (successful probe / manual reset); an implementation that also clears on ordinary successes is accepted",
               "a user callback (on_block / on_permit) that raises may make run() raise that very exception; the breaker obligations are judged on the state afterwards, "
               "using the result object the callback was handed",
               "a recovery timeout <= 0 means every request after a trip is admitted as a probe; thresholds outside 1..4 (0, negative, fractional, huge, inf) are judged "
               "only through the two inequalities of the statement (never open with fewer failures in total than the threshold, open once the consecutive failures reach it)",
               "read-only calls (statistics, stats, results log, repr) and clear_cache() are not requests: they must not change any later reply"]

ALPHA = ["S", "B", "F", "X", "C", "d<", "d=", "d>", "R"]
CONFIGS = [(th, rec, cache, True, "AND") for th in (1, 2, 3, 4) for rec in (1.0, 60.0) for cache in (False, True)] + \
          [(2, 60.0, False, False, "AND"), (1, 1.0, True, False, "AND")] + \
          [(th, 60.0, cache, True, lg) for lg in ("OR", "EXECUTOR_PRIORITY", "ASSESSOR_PRIORITY", "UNANIMOUS") for (th, cache) in ((1, False), (3, True))]
# random sequences only: failures during which the clock moves (slow agent), the ASSESSOR raising, advances 1 ms below / above the
# boundary, a jump of whole days, clearing the cache
RAND_ALPHA = ALPHA + ["Fs", "Xs", "Xa", "d-", "d+", "dD", "K"]
RAND_W = [3, 2, 4, 4, 1, 2, 1, 2, 1, 2, 2, 2, 2, 1, 1, 1]
DAY = 86400.0
EXT_THRESHOLDS = [0, -1, 1, 2, 2.5, 3.0, 3.000000000000001, 4, 7, 2 ** 53 + 1, float("inf")]
EXT_RECOVERIES = [0.0, -1.0, 0.001, 0.05, 0.1 + 0.2, 0.5, 1.0005, 2.5, 59.999, 60, 3600.5, DAY, DAY + 3600.0, 3 * DAY]
DEFAULT_OPTS = {"verbose": False, "callbacks": None, "ident": "fresh", "prompts": "fresh", "cache_ttl": 10 ** 6, "timeout_seconds": 30.0}


def sweep_size(depth):
    return sum(len(ALPHA) ** d for d in range(1, depth + 1))


def decode_seq(idx, depth):
    for d in range(1, depth + 1):
        k = len(ALPHA) ** d
        if idx < k:
            out = []
            for _ in range(d):
                idx, r = divmod(idx, len(ALPHA))
                out.append(ALPHA[r])
            return out
        idx -= k
    raise IndexError


def n_long(tier):
    return 2 if tier == "quick" else 8


def plan(tier):
    depth = 4 if tier == "quick" else 5
    per_cfg = sweep_size(depth)
    # quick: each config gets a deterministic 1/10 slice of its depth-4 sweep per run (rotated by seed) + samples
    nsweep = len(CONFIGS) * per_cfg // (10 if tier == "quick" else 1)
    extra = 10000 if tier == "quick" else 300000
    return {"cases": nsweep + extra, "shards": 8 if tier == "quick" else 14, "min_nontrivial": 200,
            "timeout": 600 if tier == "quick" else 2400,
            "require": {"steps": 50000, "open_refusals_checked": 3000, "probes_admitted": 1000, "probe_success_closed": 200,
                        "probe_failure_reopened": 200, "trips": 1000, "executor_failures": 3000, "agent_exceptions": 3000,
                        "real_agent_steps": 500, "slow_failures": 1000, "other_gate_blocks": 500,
                        "thread_schedules": 2000, "concurrent_failures_judged": 2000,
                        # round 3
                        "verbose_requests": 2000, "verbose_output_chars": 20000, "callback_exceptions_propagated": 500,
                        "callback_raised_on_failure": 100, "twin_requests_compared": 1500, "pair_sessions": 200,
                        "long_session_steps": 9000, "long_session_trips": 100, "truncation_gap_refusals": 100, "fractional_gap_refusals": 40, "day_jump_probes": 50,
                        "subsecond_timeout_refusals": 100, "zero_timeout_probes": 50, "shared_verdict_object_requests": 1000,
                        "repeated_prompt_failures": 300, "cache_clears": 300, "extreme_threshold_failures": 500,
                        "assessor_exceptions": 500}}


class Boom(Exception):
    pass


class CallbackBoom(Exception):
    """raised by the user-supplied on_block / on_permit callbacks"""


class Sink:
    """stdout replacement for verbose mode"""

    def __init__(self):
        self.chars = 0

    def write(self, s):
        self.chars += len(s)
        return len(s)

    def flush(self):
        pass


_CONST = {}


def const_protein(verdict):
    """module-level verdict objects: the SAME ActionProtein for every request with that verdict"""
    from operon_ai.core.types import ActionProtein
    if verdict not in _CONST:
        _CONST[verdict] = ActionProtein(verdict, "p", 0.9)
    return _CONST[verdict]


CONST_EXC = Boom("agent crashed")


class Stub:
    def __init__(self, name, budget):
        self.name = name
        self.budget = budget
        self.verdict = "PERMIT"
        self.calls = 0
        self.slow = 0.0
        self.clock = None
        self.const = False
        self.exc_index = 0

    def express(self, signal):
        from operon_ai.core.types import ActionProtein
        self.calls += 1
        self.budget.consume(cost=10)
        if self.slow and self.clock is not None:
            self.clock.advance(self.slow)      # the agent call itself takes (virtual) time
        if self.verdict == "raise":
            if self.const:
                raise CONST_EXC
            self.exc_index += 7
            raise make_exception(self.exc_index, "agent crashed")      # a different exception class (with / without message) each time
        if self.const:
            return const_protein(self.verdict)
        return ActionProtein(self.verdict, "p", 0.9)


class Proxy:
    """Recording proxy around a genuine BioAgent."""

    def __init__(self, agent):
        self.agent = agent
        self.name = agent.name
        self.calls = 0
        self.last = None

    def express(self, signal):
        self.calls += 1
        self.last = None
        out = self.agent.express(signal)
        self.last = out.action_type
        return out


class Model:
    """Reference timed automaton written from the statement."""

    def __init__(self, threshold, recovery, enabled):
        self.th, self.rec, self.enabled = threshold, recovery, enabled
        self.state = "closed"
        self.total = 0          # failures since the last clear
        self.consec = 0         # consecutive failures (no success in between)
        self.last_failure = None
        self.trace = []


def read_only_calls(loop):
    loop.get_statistics()
    loop.get_circuit_breaker_stats()
    loop.get_results_log()
    loop.get_results_log(3)
    repr(loop)
    loop.get_circuit_breaker_stats()


class Rig:
    """One real loop + its monitors. `reads`: 'monitor' (the Session reads stats around every request), 'blind' (no read-only call at all),
    'noisy' (a burst of read-only calls before and after every operation)."""

    def __init__(self, clock, cfg, opts, real=False, budget=None, reads="monitor"):
        from operon_ai.topology.loops import CoherentFeedForwardLoop, GateLogic
        from operon_ai.state.metabolism import ATP_Store
        self.clock, self.cfg, self.opts, self.real, self.reads = clock, cfg, opts, real, reads
        threshold, recovery, cache, enabled, logic = cfg
        self.sink = Sink()
        self.cb_results = []
        self.cb_exc = None
        self.cb_calls = 0
        with self.quiet():
            self.budget = budget if budget is not None else ATP_Store(10 ** 7, silent=True)
            kw = {}
            mode = opts["callbacks"]
            if mode is not None:
                kw = {"on_block": self._callback, "on_permit": self._callback}
            self.loop = CoherentFeedForwardLoop(self.budget, gate_logic=GateLogic[logic], enable_circuit_breaker=enabled, failure_threshold=threshold,
                                                recovery_timeout_seconds=recovery, enable_cache=cache, cache_ttl_seconds=opts["cache_ttl"],
                                                timeout_seconds=opts["timeout_seconds"], silent=not opts["verbose"], **kw)
        if real:
            self.ex, self.asr = Proxy(self.loop.executor), Proxy(self.loop.assessor)
        else:
            self.ex, self.asr = Stub("Gene_Z (Exec)", self.budget), Stub("Gene_Y (Risk)", self.budget)
            self.ex.clock = self.asr.clock = clock
            self.ex.const = self.asr.const = opts["ident"] == "const"
        self.loop.executor, self.loop.assessor = self.ex, self.asr

    def quiet(self):
        if self.opts["verbose"] or self.real:
            return contextlib.redirect_stdout(self.sink)
        return contextlib.nullcontext()

    def _callback(self, result):
        self.cb_calls += 1
        self.cb_results.append(result)
        mode = self.opts["callbacks"]
        if mode == "reads":
            read_only_calls(self.loop)
        elif mode == "raise" or (mode == "raise-some" and self.cb_calls % 2 == 1):
            self.cb_exc = CallbackBoom("observer failed")
            raise self.cb_exc

    def calls(self):
        return self.ex.calls + self.asr.calls

    def do(self, op):
        """execute one concrete operation; for a request returns the observation dict"""
        kind = op[0]
        if self.reads == "noisy":
            with self.quiet():
                read_only_calls(self.loop)
        out = None
        if kind == "adv":
            self.clock.advance(op[1])
        elif kind == "reset":
            with self.quiet():
                self.loop.reset_circuit_breaker()
        elif kind == "clear":
            with self.quiet():
                self.loop.clear_cache()
        else:
            _, prompt, verdicts, slow, who = op
            if not self.real and verdicts is not None:
                self.ex.verdict, self.asr.verdict = verdicts
                self.ex.slow = slow if who == "ex" else 0.0
                self.asr.slow = slow if who == "as" else 0.0
            calls0, bal0 = self.calls(), self.budget.get_balance()
            self.cb_results, self.cb_exc = [], None
            r, err, raised = None, None, False
            try:
                with self.quiet():
                    r = self.loop.run(prompt)
            except BaseException as e:     # noqa
                if e is self.cb_exc and self.cb_results:
                    raised = True
                    r = self.cb_results[-1]      # the reply the loop had produced when it alerted the observer
                else:
                    err = e
            out = {"r": r, "err": err, "cb_raised": raised, "calls": self.calls() - calls0, "spent": bal0 - self.budget.get_balance()}
        if self.reads == "noisy":
            with self.quiet():
                read_only_calls(self.loop)
        return out


def obs_tuple(o):
    if o["err"] is not None:
        return ("raised", type(o["err"]).__name__, o["calls"], o["spent"])
    r = o["r"]
    return (r.action, bool(r.cached), bool(r.blocked), bool(r.success), o["calls"], o["spent"], o["cb_raised"])


class Session:
    def __init__(self, ctx, clock, cfg, opts, witness, label="", real=False, budget=None, long=False):
        self.ctx, self.clock, self.cfg, self.opts, self.witness, self.label, self.real, self.long = ctx, clock, cfg, opts, witness, label, real, long
        threshold, recovery, cache, enabled, logic = cfg
        self.rig = Rig(clock, cfg, opts, real=real, budget=budget)
        self.m = Model(threshold, recovery, enabled)
        self.fresh = itertools.count()
        self.cached_prompts = []       # prompts whose reply the cache holds: (prompt, class)
        self.cur_cls = None            # outcome class the stubs are currently scripted for
        self.reached_open = False
        self.script = []               # concrete operations, for the twin replay
        self.observed = []             # one obs_tuple per request
        self.dead = False
        self.extreme_th = not (isinstance(threshold, int) and 1 <= threshold <= 4)

    def viol(self, mech, what):
        self.dead = True
        self.ctx.violation(mech, what, self.witness)

    def note(self, *entry):
        tr = self.witness["trace"]
        tr.append(((self.label,) + entry) if self.label else entry)
        if self.long and len(tr) > 60:
            del tr[:20]

    def do(self, op):
        self.script.append(op)
        return self.rig.do(op)

    def step(self, sym):
        """one symbol of the abstract alphabet; returns False once a violation has been recorded"""
        if self.dead:
            return False
        ctx, m, clock, loop = self.ctx, self.m, self.clock, self.rig.loop
        threshold, recovery, cache, enabled, logic = self.cfg
        real = self.real
        ctx.count("steps")
        if self.long:
            ctx.count("long_session_steps")
        if sym in ("d<", "d=", "d>", "d-", "d+", "dD"):
            rec = max(0.0, recovery)
            if m.last_failure is not None and m.state == "open":
                remaining = max(0.0, m.last_failure + rec - clock.time())
            else:
                remaining = rec
            remaining = round(remaining, 3)          # all instants stay on a millisecond grid, so the
            half = int(remaining * 500) / 1000.0     # implementation's microsecond datetimes are exact
            dt = {"d<": half, "d=": remaining, "d>": remaining + 1.0, "d-": max(0.0, round(remaining - 0.001, 3)), "d+": remaining + 0.001,
                  "dD": DAY + half}[sym]
            if sym == "dD" and clock.offset > 60 * DAY:
                dt = half                            # keep every instant within one season (no daylight-saving switch in local time)
            self.do(("adv", dt))
            self.note(sym, dt)
            return True
        if sym == "R":
            self.do(("reset",))
            m.state, m.total, m.consec = "closed", 0, 0
            st = loop.get_circuit_breaker_stats()
            if st.state.value != "closed" or st.failure_count != 0:
                self.viol("reset-does-not-close", "after reset: state=%s failure_count=%d" % (st.state.value, st.failure_count))
                return False
            self.note("R")
            return True
        if sym == "K":
            ctx.count("cache_clears")
            st0 = loop.get_circuit_breaker_stats()
            self.do(("clear",))
            st = loop.get_circuit_breaker_stats()
            self.cached_prompts = []
            if (st.state, st.failure_count, st.last_failure) != (st0.state, st0.failure_count, st0.last_failure):
                self.viol("cache-clear-changes-breaker", "clear_cache() moved the breaker %s/%d -> %s/%d" % (
                    st0.state.value, st0.failure_count, st.state.value, st.failure_count))
                return False
            self.note("K")
            return True
        # ---- a request
        slow, who = 0.0, "ex"
        if sym == "C":
            if not self.cached_prompts:
                return True
            prompt, _cls = self.cached_prompts[-1]
            if self.opts["prompts"] != "fresh":
                prompt = "".join(list(prompt))       # an equal but distinct string object
            want = "C"
            verdicts = None
        else:
            is_slow = sym in ("Fs", "Xs")
            if sym == "Xa":
                who = "as"
            sym = sym[0]
            if sym == "F" and logic in ("OR", "EXECUTOR_PRIORITY"):
                sym = "X"     # an executor FAILURE verdict is not a blocked/failed request under these gates
            want = sym
            i = next(self.fresh)
            verdicts = None
            if real:
                prompt = {"S": "summarise report %d", "B": "destroy table %d", "F": "deploy build %d", "X": "summarise report %d"}[sym] % i
            else:
                pm = self.opts["prompts"]
                if pm == "same":
                    prompt = "the one request"
                elif pm == "equal":
                    prompt = "".join(["the one ", "request"])
                else:
                    prompt = "request %d" % i
                verdicts = {"S": ("EXECUTE", "PERMIT"), "B": ("EXECUTE", "BLOCK") if logic == "AND" else ("BLOCK", "BLOCK"),
                            "F": ("FAILURE", "PERMIT"), "X": ("raise", "PERMIT") if who == "ex" else ("EXECUTE", "raise")}[sym]
                self.cur_cls = sym
                if is_slow:
                    slow = round(max(0.0, recovery) * 0.75, 3)
                    ctx.count("slow_failures")
        if real and sym == "X":
            return True   # genuine agents do not raise on demand
        st0 = loop.get_circuit_breaker_stats()
        elapsed = None if m.last_failure is None else clock.time() - m.last_failure
        if real:
            ctx.count("real_agent_steps")
        if self.opts["verbose"]:
            ctx.count("verbose_requests")
        if self.opts["ident"] == "const" and not real:
            ctx.count("shared_verdict_object_requests")
        chars0 = self.rig.sink.chars
        o = self.do(("req", prompt, verdicts, slow, who))
        if self.opts["verbose"]:
            ctx.count("verbose_output_chars", self.rig.sink.chars - chars0)
        self.observed.append(obs_tuple(o))
        if o["err"] is not None:
            self.viol("run-raises", "run() raised %r" % (o["err"],))
            return False
        r, calls, spent = o["r"], o["calls"], o["spent"]
        if o["cb_raised"]:
            ctx.count("callback_exceptions_propagated")
        st = loop.get_circuit_breaker_stats()
        # classify what actually happened from the monitors (not from the loop's own bookkeeping)
        ex, asr = self.rig.ex, self.rig.asr
        if calls == 0:
            outcome = "refused" if r.action == "CIRCUIT_OPEN" else "cachehit" if r.cached else "no-agents:" + r.action
        elif real:
            e_v, a_v = ex.last, asr.last
            if e_v is None or (asr.calls and a_v is None and asr.calls > 0 and calls == 2):
                outcome = "X"
            elif a_v == "BLOCK" or e_v == "BLOCK":
                outcome = "B"
            elif e_v == "FAILURE" and a_v == "PERMIT":
                outcome = "F"
            elif e_v in ("EXECUTE", "PERMIT") and a_v == "PERMIT":
                outcome = "S"
            else:
                outcome = "other"
        elif want != "C":
            outcome = want
        else:
            # the repeat was not served from the cache (expired / cleared / evicted): the stubs answered as currently scripted
            outcome = self.cur_cls if self.cur_cls in ("S", "B", "F", "X") else "consulted-on-repeat"
        self.note(sym, prompt, "->", r.action, "cached" if r.cached else "", "callback raised" if o["cb_raised"] else "", st.state.value, st.failure_count, outcome)

        if not enabled:
            if r.action == "CIRCUIT_OPEN":
                self.viol("disabled-breaker-refuses", "breaker disabled, reply CIRCUIT_OPEN")
                return False
            if calls == 0 and not r.cached:
                self.viol("disabled-breaker-agents-not-consulted", "breaker disabled, agents not consulted and reply not cached")
                return False
            if outcome in ("S", "B", "F") and cache:
                self.cached_prompts.append((prompt, outcome))
            return True

        # ---- reference automaton step
        must_refuse = m.state == "open" and elapsed is not None and elapsed < recovery - 1e-4
        must_admit = m.state == "open" and elapsed is not None and elapsed >= recovery - 1e-5
        if must_refuse:
            ctx.count("open_refusals_checked")
            if recovery < 1.0:
                ctx.count("subsecond_timeout_refusals")
            if int(elapsed % DAY) >= int(recovery % DAY):
                ctx.count("truncation_gap_refusals")      # refused although the whole-second components alone would say "elapsed"
                if recovery >= 1.0:
                    ctx.count("fractional_gap_refusals")  # ... with a timeout of at least a second (2.0 <= elapsed < 2.5, whole days dropped)
            if outcome != "refused" or not r.blocked:
                mech = "open-consults-agents" if calls else "open-wrong-answer"
                self.viol(mech, "OPEN for %.3fs of %.3fs: reply action=%s blocked=%s, %d agent calls" % (elapsed, recovery, r.action, r.blocked, calls))
                return False
            if spent != 0:
                self.viol("open-spends-energy", "OPEN request spent %d ATP" % spent)
                return False
            if st.state.value != "open" or st.failure_count != st0.failure_count:
                self.viol("open-refusal-changes-breaker", "refusal moved breaker to %s / count %d" % (st.state.value, st.failure_count))
                return False
            return True
        if m.state == "open" and not must_admit:
            # closer to the boundary than the clock grid resolves (never reached with grid-aligned timeouts): follow the implementation
            ctx.count("boundary_gap(recorded)")
            if outcome == "refused":
                return True
        elif outcome == "refused":
            why = "closed" if m.state == "closed" else "half-open" if m.state == "half_open" else "recovery timeout elapsed (%.3fs >= %.3fs)" % (elapsed, recovery)
            self.viol("refuses-when-not-open" if m.state != "open" else "probe-refused-after-timeout",
                      "request refused with CIRCUIT_OPEN while the breaker should admit it: %s" % why)
            return False
        if m.state == "open":
            ctx.count("probes_admitted")
            if elapsed >= DAY:
                ctx.count("day_jump_probes")
            if recovery <= 0:
                ctx.count("zero_timeout_probes")
            m.state = "half_open"
        if outcome == "cachehit":
            # no obligation beyond: nothing recorded
            if st.failure_count != st0.failure_count:
                self.viol("cache-hit-changes-count", "cache hit changed the failure count")
                return False
            return True
        if outcome in ("other", "consulted-on-repeat") or outcome.startswith("no-agents"):
            ctx.count("unclassified_outcome(recorded)")
            # resynchronise the model with the implementation for unclassifiable outcomes
            m.state = st.state.value
            return True
        if cache and outcome in ("S", "B", "F"):
            self.cached_prompts.append((prompt, outcome))
        if outcome == "S":
            m.consec = 0
            if m.state == "half_open":
                ctx.count("probe_success_closed")
                m.state, m.total = "closed", 0
                if st.state.value != "closed" or st.failure_count != 0:
                    self.viol("probe-success-does-not-close", "successful probe left state=%s failure_count=%d" % (st.state.value, st.failure_count))
                    return False
            else:
                if st.state.value != "closed":
                    self.viol("success-opens", "success while closed moved the breaker to %s" % st.state.value)
                    return False
                if st.failure_count == 0:
                    m.total = 0   # implementation variant that clears on every success
        elif outcome == "B":
            ctx.count("intentional_blocks")
            if logic != "AND":
                ctx.count("other_gate_blocks")
            if st.failure_count != st0.failure_count:
                self.viol("block-counted-as-failure", "intentional block moved the failure count %d -> %d" % (st0.failure_count, st.failure_count))
                return False
            if st.state.value != ("half_open" if m.state == "half_open" else "closed"):
                self.viol("block-changes-state", "intentional block moved the breaker %s -> %s" % (m.state, st.state.value))
                return False
        elif outcome in ("F", "X"):
            ctx.count("executor_failures" if outcome == "F" else "agent_exceptions")
            if who == "as":
                ctx.count("assessor_exceptions")
            if self.extreme_th:
                ctx.count("extreme_threshold_failures")
            if self.opts["prompts"] != "fresh":
                ctx.count("repeated_prompt_failures")
            if o["cb_raised"]:
                ctx.count("callback_raised_on_failure")
            m.total += 1
            m.consec += 1
            m.last_failure = clock.time()
            if m.state == "half_open":
                ctx.count("probe_failure_reopened")
                m.state = "open"
                if st.state.value != "open":
                    self.viol("probe-failure-does-not-reopen:" + outcome, "failed probe (%s) left the breaker %s" % (outcome, st.state.value))
                    return False
                if st.last_failure is None or abs(st.last_failure.timestamp() - clock.time()) > 1e-3:
                    self.viol("probe-failure-does-not-restart-timeout", "failed probe did not restart the recovery timeout")
                    return False
            else:
                if st.failure_count <= st0.failure_count and st.state.value == "closed":
                    mech = "executor-failure-not-counted" if outcome == "F" else "exception-not-counted"
                    if m.consec >= threshold:
                        self.viol(mech, "%d consecutive failures with threshold %s: breaker still CLOSED (failure_count %d)" % (
                            m.consec, threshold, st.failure_count))
                        return False
                    self.viol(mech, "failure (%s) did not increase the failure count (%d)" % (outcome, st.failure_count))
                    return False
                if st.state.value == "open":
                    if m.total < threshold:
                        self.viol("opens-before-threshold", "breaker opened after %d failure(s) in total, threshold %s" % (m.total, threshold))
                        return False
                    m.state = "open"
                    ctx.count("trips")
                    if self.long:
                        ctx.count("long_session_trips")
                elif m.consec >= threshold:
                    self.viol("not-open-after-threshold", "%d consecutive failures, threshold %s, breaker %s" % (m.consec, threshold, st.state.value))
                    return False
                if st.last_failure is None or abs(st.last_failure.timestamp() - clock.time()) > 1e-3:
                    self.viol("last-failure-not-recorded", "failure instant not recorded")
                    return False
        if m.state == "open":
            self.reached_open = True
        if not self.long or len(m.trace) < 40:
            m.trace.append((m.state, min(m.total, 5)))
        return True

    def finish(self):
        if self.reached_open and not self.dead:
            self.ctx.nontrivial((repr(self.cfg), tuple(self.m.trace)))


def describe(cfg, opts, real):
    threshold, recovery, cache, enabled, logic = cfg
    d = {"threshold": threshold, "recovery_s": recovery, "cache": cache, "breaker": enabled, "real_agents": real, "gate": logic}
    d.update({k: v for k, v in opts.items() if v != DEFAULT_OPTS.get(k)})
    return d


def twin(ctx, primary, reads):
    """Replay the primary session's concrete operations on a fresh loop with no ('blind') or many ('noisy') read-only calls in between:
    every reply, agent-call count and energy spent must be the same."""
    clock = VClock(base=1_700_000_000.0)
    import operon_ai.topology.loops as loops_mod
    with patched(clock, loops_mod):
        rig = Rig(clock, primary.cfg, primary.opts, real=False, reads=reads)
        k = 0
        for op in primary.script:
            o = rig.do(op)
            if o is None:
                continue
            got, want = obs_tuple(o), primary.observed[k]
            ctx.count("twin_requests_compared")
            if got != want:
                w = dict(primary.witness, twin={"reads": reads, "request_index": k, "reply_with_stats_reads_around_each_request": want, "reply_in_twin": got})
                ctx.violation("read-only-calls-change-reply:" + reads,
                              "request %d answered %r when statistics are read around every request but %r with %s" % (
                                  k, want, got, "no read-only calls at all" if reads == "blind" else "bursts of read-only calls"), w)
                return
            k += 1


def drive(ctx, n, cfg, seq, real, opts=DEFAULT_OPTS, twin_mode=None):
    import operon_ai.topology.loops as loops_mod
    clock = VClock(base=1_700_000_000.0)
    witness = {"config": describe(cfg, opts, real), "sequence": seq, "trace": []}
    with patched(clock, loops_mod):
        s = Session(ctx, clock, cfg, opts, witness, real=real)
        for sym in seq:
            if not s.step(sym):
                break
        s.finish()
    if twin_mode and not s.dead and not real:
        twin(ctx, s, twin_mode)
    if n % 5000 == 0:
        ctx.sample(witness)


def drive_pair(ctx, n, rng, specs):
    """Two differently configured loops alive at the same time on one clock, used alternately (optionally charging one shared budget)."""
    import operon_ai.topology.loops as loops_mod
    from operon_ai.state.metabolism import ATP_Store
    clock = VClock(base=1_700_000_000.0)
    witness = {"instances": {lab: describe(cfg, opts, False) for lab, (cfg, opts, _seq) in zip("AB", specs)},
               "sequences": {lab: seq for lab, (_c, _o, seq) in zip("AB", specs)}, "trace": []}
    ctx.count("pair_sessions")
    with patched(clock, loops_mod):
        shared = ATP_Store(10 ** 7, silent=True) if rng.random() < 0.5 else None
        witness["shared_budget"] = shared is not None
        ss = [Session(ctx, clock, cfg, opts, witness, label=lab, budget=shared) for lab, (cfg, opts, _seq) in zip("AB", specs)]
        todo = [list(specs[0][2]), list(specs[1][2])]
        while todo[0] or todo[1]:
            i = rng.randrange(2)
            if not todo[i]:
                i = 1 - i
            if not ss[i].step(todo[i].pop(0)):
                return
        for s in ss:
            s.finish()


def random_opts(rng, cfg):
    threshold, recovery, cache, enabled, logic = cfg
    if rng.random() < 0.4:
        threshold = rng.choice(EXT_THRESHOLDS)
    if rng.random() < 0.5:
        recovery = rng.choice(EXT_RECOVERIES)
    opts = dict(DEFAULT_OPTS)
    opts["verbose"] = rng.random() < 0.33
    opts["callbacks"] = rng.choice([None, None, None, "ok", "raise", "raise", "raise-some", "reads"])
    opts["ident"] = "const" if rng.random() < 0.25 else "fresh"
    opts["prompts"] = rng.choice(["fresh", "fresh", "fresh", "same", "equal"])
    opts["cache_ttl"] = rng.choice([10 ** 6, 10 ** 6, 10 ** 6, 300.0, 0, 0.5, 10 ** 9])
    opts["timeout_seconds"] = rng.choice([30.0, 30.0, 0, 0.001, None, 10 ** 9])
    return (threshold, recovery, cache, enabled, logic), opts


def long_session(ctx, n, rng, k):
    """> 20 000 operations on ONE instance: (even k) a threshold above 20 000 reached by that many failures with blocks, cache hits and short
    clock advances in between; (odd k) thousands of trip / refuse / probe cycles with small thresholds."""
    import operon_ai.topology.loops as loops_mod
    clock = VClock(base=1_700_000_000.0)
    opts = dict(DEFAULT_OPTS)
    opts["verbose"] = k % 4 >= 2
    if k % 2 == 0:
        th = 20000 + rng.randrange(1, 500)
        cfg = (th, rng.choice([1.0, 2.5, 60.0]), rng.random() < 0.5, True, "AND")
        pre = rng.choices(["F", "X", "Xa", "B", "C", "d<", "K"], weights=[6, 6, 2, 2, 1, 1, 0.05], k=th + th // 3)
        seq = pre + ["F"] * 5 + rng.choices(RAND_ALPHA, weights=RAND_W, k=300)
    else:
        cfg = (rng.choice([1, 2, 3, 4]), rng.choice([0.5, 1.0, 2.5, 60.0]), rng.random() < 0.5, True, "AND")
        alpha = [a for a in RAND_ALPHA if a != "dD"]
        w = [wt for a, wt in zip(RAND_ALPHA, RAND_W) if a != "dD"]
        seq = rng.choices(alpha, weights=w, k=22000)
    witness = {"config": describe(cfg, opts, False), "sequence": "long session of %d symbols (trace = last steps)" % len(seq), "trace": []}
    with patched(clock, loops_mod):
        s = Session(ctx, clock, cfg, opts, witness, long=True)
        for sym in seq:
            if not s.step(sym):
                break
        s.finish()
        if not s.dead:
            ctx.count("long_sessions_completed")


def run_case(ctx, n):
    depth = 4 if ctx.tier == "quick" else 5
    per_cfg = sweep_size(depth)
    div = 10 if ctx.tier == "quick" else 1
    nsweep = len(CONFIGS) * per_cfg // div
    if n < nsweep:
        ci, k = divmod(n, per_cfg // div)
        ci %= len(CONFIGS)
        idx = (k * div + (ctx.seed + ci) % div) % per_cfg
        seq = decode_seq(idx, depth)
        return drive(ctx, n, CONFIGS[ci], seq, real=False)
    rng = ctx.rng(n)
    j = n - nsweep
    if j < n_long(ctx.tier) * 3 and j % 3 == 0:       # spread over different shards
        return long_session(ctx, n, rng, j // 3)
    cfg = rng.choice(CONFIGS)
    L = rng.randint(5, 8)
    seq = rng.choices(RAND_ALPHA, weights=RAND_W, k=L)
    real = (n % 10 == 0) and cfg[4] == "AND"
    if n % (250 if ctx.tier == "quick" else 2500) == 3:
        return thread_case(ctx, n, rng)
    if real or n % 10 in (1, 2, 3):
        # the round-1/2 workload unchanged: grid configurations, default options
        return drive(ctx, n, cfg, seq, real=real)
    cfg2, opts = random_opts(rng, cfg)
    if n % 10 in (4, 5):
        cfg_b, opts_b = random_opts(rng, rng.choice(CONFIGS))
        seq_b = rng.choices(RAND_ALPHA, weights=RAND_W, k=rng.randint(5, 8))
        return drive_pair(ctx, n, rng, [(cfg2, opts, seq), (cfg_b, opts_b, seq_b)])
    drive(ctx, n, cfg2, seq, real=False, opts=opts, twin_mode={6: "blind", 7: "noisy"}.get(n % 10))


class PStub:
    """verdict encoded in the prompt: 'E=..;A=..;#id'"""

    def __init__(self, name, role):
        self.name, self.role = name, role
        self.calls = 0

    def express(self, signal):
        from operon_ai.core.types import ActionProtein
        self.calls += 1
        v = dict(f.split("=", 1) for f in signal.content.split(";") if "=" in f)[self.role]
        if v == "raise":
            raise Boom("agent crashed")
        return ActionProtein(v, "p", 0.9)


def scalar_state_fields(obj):
    """instance attributes holding plain bookkeeping values (counters, enum states, instants), whatever they are called"""
    return [k for k, v in vars(obj).items()
            if k.startswith("_") and not k.startswith("__") and (v is None or isinstance(v, (int, float, enum.Enum, _dt.datetime)))]


def thread_case(ctx, n, rng):
    """Concurrent failing requests on one loop under the line-level scheduler. Only statement-derived obligations are judged:
    K admitted failures with no success in between => open if K >= threshold; never open with K < threshold; failure_count <= K."""
    from operon_ai.topology.loops import CoherentFeedForwardLoop
    from operon_ai.state.metabolism import ATP_Store
    sched.instrument(CoherentFeedForwardLoop, PStub)
    # bookkeeping fields are yield points too (read and write), so a read-modify-write of a counter can be split
    probe = CoherentFeedForwardLoop(ATP_Store(10, silent=True), silent=True)
    Loop = sched.yielding_fields(CoherentFeedForwardLoop, scalar_state_fields(probe))
    threshold = rng.choice([1, 2, 2, 3, 4])
    nthreads = rng.choice([2, 2, 3])
    reqs = [["E=%s;A=PERMIT;#%d.%d" % (rng.choice(["FAILURE", "raise"]), t, k) for k in range(rng.randint(1, 2))] for t in range(nthreads)]
    desc = {"threshold": threshold, "threads": reqs}

    def one(policy, label):
        loop = Loop(ATP_Store(10 ** 6, silent=True), failure_threshold=threshold, recovery_timeout_seconds=10 ** 6,
                    enable_cache=False, silent=True)
        loop.executor, loop.assessor = PStub("Gene_Z (Exec)", "E"), PStub("Gene_Y (Risk)", "A")
        wrap_all_locks(loop, sched.SchedLock, "loop")
        sc = sched.Scheduler(policy, watchdog_s=30.0)
        sc.run([(lambda ps=ps: [loop.run(p) for p in ps]) for ps in reqs])
        ctx.count("thread_schedules")
        w = dict(desc, policy=label, choices=sc.choices[:300])
        if sc.stuck:
            ctx.inconclusive("a schedule hit the wall-clock watchdog (not a verdict)")
            return sc
        if sc.deadlock:
            ctx.violation("deadlock", "guard loop deadlocked: %s" % sc.deadlock, w)
            return sc
        if any(e is not None for e in sc.errors):
            ctx.violation("run-raises-under-threads", "run() raised %r" % ([e for e in sc.errors if e is not None][0],), w)
            return sc
        replies = [r for rs in sc.results for r in rs]
        K = sum(1 for r in replies if r.action != "CIRCUIT_OPEN")
        st = loop.get_circuit_breaker_stats()
        ctx.count("concurrent_failures_judged", K)
        w["admitted_failures"], w["final"] = K, {"state": st.state.value, "failure_count": st.failure_count}
        if K >= threshold and st.state.value != "open":
            ctx.violation("not-open-after-threshold:concurrent", "%d failing requests completed (threshold %d) and the breaker is %s with failure_count %d" % (
                K, threshold, st.state.value, st.failure_count), w)
        elif K < threshold and st.state.value == "open":
            ctx.violation("opens-before-threshold", "breaker open after %d failure(s), threshold %d" % (K, threshold), w)
        elif st.failure_count > K:
            ctx.violation("failures-overcounted", "failure_count %d for %d failed requests" % (st.failure_count, K), w)
        if sc.switch_while_other_inside:
            ctx.nontrivial(("threads", sc.trace_hash()))
        return sc

    base = one(sched.PreemptionPolicy({}), "pb(0)")
    N = max(base.step, 1)
    combos = [(s_, t) for s_ in range(1, N + 1) for t in range(nthreads)]
    if len(combos) > 250:
        combos = rng.sample(combos, 250)
    for (s_, t) in combos:
        one(sched.PreemptionPolicy({s_: t}), "pb(1)@%d->%d" % (s_, t))
    for i in range(60):
        one(sched.RandomPolicy(rng, (0.1, 0.3, 0.6)[i % 3]), "random")


if __name__ == "__main__":
    core.main(sys.modules[__name__])
