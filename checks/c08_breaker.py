"""C08 — circuit breaker: trips at the threshold, isolates while open, recovers half-open.

A reference timed automaton (built from the statement) is stepped in lock-step with the real loop
under a virtual clock patched into operon_ai.topology.loops; after each step the harness compares
result.action, get_circuit_breaker_stats(), stub invocation counters and the budget balance.
Outcome classes are produced by scripted stub agents (and, in a second workload, by recording
proxies around the genuine BioAgents).
"""
import contextlib
import io
import itertools
import sys

from rv import core, sched
from rv.locks import wrap_all_locks
from rv.vclock import VClock, patched
from rv.faults import make_exception

PID = "C08"
LEVEL = "exploration"
TECHNIQUE = "runtime monitoring: lock-step reference timed automaton vs the real guard loop under a virtual clock, with invocation counters in stub/proxied agents and budget snapshots"
RULE = ("threshold 1..4 x recovery {1s,60s} x cache on/off x breaker on/off; all sequences of length <= 4 (quick) / <= 5 (thorough) over "
        "{S success, B intentional block, F executor failure, X agent exception, C repeat of a cached prompt, d< d= d> clock advances relative to the "
        "recovery timeout, R manual reset} are swept, longer ones (6-8) sampled; a second workload drives the genuine BioAgents; "
        "non-trivial = the sequence reaches OPEN; distinct = reference-automaton state trace")
ASSUMPTIONS = ["default AND gate; failure := executor FAILURE verdict (assessor permitting) or agent exception, as the statement lists them",
               "several probes may be admitted while half-open; a cache hit is not a consultation",
               "failures counted 'in total' since the last clear (successful probe / manual reset); an implementation that also clears on ordinary successes is accepted"]

ALPHA = ["S", "B", "F", "X", "C", "d<", "d=", "d>", "R"]
CONFIGS = [(th, rec, cache, True, "AND") for th in (1, 2, 3, 4) for rec in (1.0, 60.0) for cache in (False, True)] + \
          [(2, 60.0, False, False, "AND"), (1, 1.0, True, False, "AND")] + \
          [(th, 60.0, cache, True, lg) for lg in ("OR", "EXECUTOR_PRIORITY", "ASSESSOR_PRIORITY", "UNANIMOUS") for (th, cache) in ((1, False), (3, True))]
RAND_ALPHA = ALPHA + ["Fs", "Xs"]       # failures during which the clock moves (slow agent), random sequences only


def sweep_size(depth):
    return sum(len(ALPHA) ** d for d in range(1, depth + 1))


def decode_seq(idx, depth):
    for d in range(1, depth + 1):
        k = len(ALPHA) ** d
        if idx < k:
            out = []
            for _ in range(d):
                idx, r = divmod(idx, len(ALPHA))
                out.append(ALPHA[r])
            return out
        idx -= k
    raise IndexError


def plan(tier):
    depth = 4 if tier == "quick" else 5
    per_cfg = sweep_size(depth)
    # quick: each config gets a deterministic 1/6 slice of its depth-4 sweep per run (rotated by seed) + samples
    nsweep = len(CONFIGS) * per_cfg // (10 if tier == "quick" else 1)
    extra = 8000 if tier == "quick" else 300000
    return {"cases": nsweep + extra, "shards": 8 if tier == "quick" else 14, "min_nontrivial": 200,
            "timeout": 600 if tier == "quick" else 2400,
            "require": {"steps": 50000, "open_refusals_checked": 3000, "probes_admitted": 1000, "probe_success_closed": 200,
                        "probe_failure_reopened": 200, "trips": 1000, "executor_failures": 3000, "agent_exceptions": 3000,
                        "real_agent_steps": 500, "slow_failures": 1000, "other_gate_blocks": 500,
                        "thread_schedules": 2000, "concurrent_failures_judged": 2000}}


class Boom(Exception):
    pass


class Stub:
    def __init__(self, name, budget):
        self.name = name
        self.budget = budget
        self.verdict = "PERMIT"
        self.calls = 0
        self.log = []
        self.slow = 0.0
        self.clock = None

    def express(self, signal):
        from operon_ai.core.types import ActionProtein
        self.calls += 1
        self.budget.consume(cost=10)
        if self.slow and self.clock is not None:
            self.clock.advance(self.slow)      # the agent call itself takes (virtual) time
        if self.verdict == "raise":
            self.exc_index = getattr(self, "exc_index", 0) + 7
            raise make_exception(self.exc_index, "agent crashed")      # a different exception class (with / without message) each time
        return ActionProtein(self.verdict, "p", 0.9)


class Proxy:
    """Recording proxy around a genuine BioAgent."""

    def __init__(self, agent):
        self.agent = agent
        self.name = agent.name
        self.calls = 0
        self.last = None

    def express(self, signal):
        self.calls += 1
        self.last = None
        out = self.agent.express(signal)
        self.last = out.action_type
        return out


class Model:
    """Reference timed automaton written from the statement."""

    def __init__(self, threshold, recovery, enabled):
        self.th, self.rec, self.enabled = threshold, recovery, enabled
        self.state = "closed"
        self.total = 0          # failures since the last clear
        self.consec = 0         # consecutive failures (no success in between)
        self.last_failure = None
        self.trace = []


def run_case(ctx, n):
    depth = 4 if ctx.tier == "quick" else 5
    per_cfg = sweep_size(depth)
    div = 10 if ctx.tier == "quick" else 1
    nsweep = len(CONFIGS) * per_cfg // div
    if n < nsweep:
        ci, k = divmod(n, per_cfg // div)
        ci %= len(CONFIGS)
        idx = (k * div + (ctx.seed + ci) % div) % per_cfg
        seq = decode_seq(idx, depth)
        return drive(ctx, n, CONFIGS[ci], seq, real=False)
    rng = ctx.rng(n)
    cfg = rng.choice(CONFIGS)
    L = rng.randint(5, 8)
    w = [3, 2, 4, 4, 1, 2, 1, 2, 1, 2, 2]
    seq = rng.choices(RAND_ALPHA, weights=w, k=L)
    real = (n % 10 == 0) and cfg[4] == "AND"
    if n % (250 if ctx.tier == "quick" else 2500) == 3:
        return thread_case(ctx, n, rng)
    drive(ctx, n, cfg, seq, real=real)


def drive(ctx, n, cfg, seq, real):
    import operon_ai.topology.loops as loops_mod
    from operon_ai.topology.loops import CoherentFeedForwardLoop, GateLogic
    from operon_ai.state.metabolism import ATP_Store
    threshold, recovery, cache, enabled, logic = cfg
    clock = VClock(base=1_700_000_000.0)
    witness = {"config": {"threshold": threshold, "recovery_s": recovery, "cache": cache, "breaker": enabled, "real_agents": real, "gate": logic},
               "sequence": seq, "trace": []}

    def viol(mech, what):
        ctx.violation(mech, what, witness)

    with patched(clock, loops_mod):
        budget = ATP_Store(10 ** 7, silent=True)
        loop = CoherentFeedForwardLoop(budget, gate_logic=GateLogic[logic], enable_circuit_breaker=enabled, failure_threshold=threshold,
                                       recovery_timeout_seconds=recovery, enable_cache=cache, cache_ttl_seconds=10 ** 6, silent=True)
        if real:
            ex, asr = Proxy(loop.executor), Proxy(loop.assessor)
        else:
            ex, asr = Stub("Gene_Z (Exec)", budget), Stub("Gene_Y (Risk)", budget)
            ex.clock = clock
        loop.executor, loop.assessor = ex, asr
        m = Model(threshold, recovery, enabled)
        fresh = itertools.count()
        cached_prompts = []       # prompts whose reply the cache holds: (prompt, class)
        reached_open = False

        for sym in seq:
            ctx.count("steps")
            if sym in ("d<", "d=", "d>"):
                if m.last_failure is not None and m.state == "open":
                    remaining = max(0.0, m.last_failure + recovery - clock.time())
                else:
                    remaining = recovery
                remaining = round(remaining, 3)          # all instants stay on a millisecond grid, so the
                half = int(remaining * 500) / 1000.0     # implementation's microsecond datetimes are exact
                dt = {"d<": half, "d=": remaining, "d>": remaining + 1.0}[sym]
                clock.advance(dt)
                witness["trace"].append((sym, dt))
                continue
            if sym == "R":
                loop.reset_circuit_breaker()
                m.state, m.total, m.consec = "closed", 0, 0
                st = loop.get_circuit_breaker_stats()
                if st.state.value != "closed" or st.failure_count != 0:
                    viol("reset-does-not-close", "after reset: state=%s failure_count=%d" % (st.state.value, st.failure_count))
                    return
                witness["trace"].append(("R",))
                continue
            # ---- a request
            if sym == "C":
                if not cached_prompts:
                    continue
                prompt, _cls = cached_prompts[-1]
                want = "C"
            else:
                slow = sym in ("Fs", "Xs")
                sym = sym[0]
                if sym == "F" and logic in ("OR", "EXECUTOR_PRIORITY"):
                    sym = "X"     # an executor FAILURE verdict is not a blocked/failed request under these gates
                want = sym
                i = next(fresh)
                if real:
                    prompt = {"S": "summarise report %d", "B": "destroy table %d", "F": "deploy build %d", "X": "summarise report %d"}[sym] % i
                else:
                    prompt = "request %d" % i
                    ex.verdict, asr.verdict = {"S": ("EXECUTE", "PERMIT"), "B": ("EXECUTE", "BLOCK") if logic == "AND" else ("BLOCK", "BLOCK"),
                                               "F": ("FAILURE", "PERMIT"), "X": ("raise", "PERMIT")}[sym]
                    ex.slow = (recovery * 0.75 if slow else 0.0)
                    if slow:
                        ctx.count("slow_failures")
            if real and sym == "X":
                continue   # genuine agents do not raise on demand
            calls0 = ex.calls + asr.calls
            bal0 = budget.get_balance()
            st0 = loop.get_circuit_breaker_stats()
            elapsed = None if m.last_failure is None else clock.time() - m.last_failure
            try:
                if real:
                    ctx.count("real_agent_steps")
                    with contextlib.redirect_stdout(io.StringIO()):
                        r = loop.run(prompt)
                else:
                    r = loop.run(prompt)
            except BaseException as e:
                viol("run-raises", "run() raised %r" % (e,))
                return
            calls = ex.calls + asr.calls - calls0
            spent = bal0 - budget.get_balance()
            st = loop.get_circuit_breaker_stats()
            # classify what actually happened from the monitors (not from the loop's own bookkeeping)
            if calls == 0:
                outcome = "refused" if r.action == "CIRCUIT_OPEN" else "cachehit" if r.cached else "no-agents:" + r.action
            elif real:
                e_v, a_v = ex.last, asr.last
                if e_v is None or (asr.calls and a_v is None and asr.calls > 0 and calls == 2):
                    outcome = "X"
                elif a_v == "BLOCK" or e_v == "BLOCK":
                    outcome = "B"
                elif e_v == "FAILURE" and a_v == "PERMIT":
                    outcome = "F"
                elif e_v in ("EXECUTE", "PERMIT") and a_v == "PERMIT":
                    outcome = "S"
                else:
                    outcome = "other"
            else:
                outcome = want if want != "C" else "consulted-on-repeat"
            witness["trace"].append((sym, prompt, "->", r.action, "cached" if r.cached else "", st.state.value, st.failure_count, outcome))

            if not enabled:
                if r.action == "CIRCUIT_OPEN":
                    viol("disabled-breaker-refuses", "breaker disabled, reply CIRCUIT_OPEN")
                    return
                if calls == 0 and not r.cached:
                    viol("disabled-breaker-agents-not-consulted", "breaker disabled, agents not consulted and reply not cached")
                    return
                if outcome in ("S", "B", "F") and cache:
                    cached_prompts.append((prompt, outcome))
                continue

            # ---- reference automaton step
            must_refuse = m.state == "open" and elapsed is not None and elapsed < recovery - 1e-4
            must_admit = m.state == "open" and elapsed is not None and elapsed >= recovery - 1e-5
            if must_refuse:
                ctx.count("open_refusals_checked")
                if outcome != "refused" or not r.blocked:
                    mech = "open-consults-agents" if calls else "open-wrong-answer"
                    viol(mech, "OPEN for %.1fs of %.1fs: reply action=%s blocked=%s, %d agent calls" % (elapsed, recovery, r.action, r.blocked, calls))
                    return
                if spent != 0:
                    viol("open-spends-energy", "OPEN request spent %d ATP" % spent)
                    return
                if st.state.value != "open" or st.failure_count != st0.failure_count:
                    viol("open-refusal-changes-breaker", "refusal moved breaker to %s / count %d" % (st.state.value, st.failure_count))
                    return
                continue
            if outcome == "refused":
                why = "closed" if m.state == "closed" else "half-open" if m.state == "half_open" else "recovery timeout elapsed (%.1fs >= %.1fs)" % (elapsed, recovery)
                viol("refuses-when-not-open" if m.state != "open" else "probe-refused-after-timeout",
                     "request refused with CIRCUIT_OPEN while the breaker should admit it: %s" % why)
                return
            if must_admit:
                ctx.count("probes_admitted")
                m.state = "half_open"
            if outcome == "cachehit":
                # no obligation beyond: nothing recorded
                if st.failure_count != st0.failure_count:
                    viol("cache-hit-changes-count", "cache hit changed the failure count")
                    return
                continue
            if outcome in ("other", "consulted-on-repeat") or outcome.startswith("no-agents"):
                ctx.count("unclassified_outcome(recorded)")
                # resynchronise the model with the implementation for unclassifiable outcomes
                m.state = st.state.value
                continue
            if cache and outcome in ("S", "B", "F"):
                cached_prompts.append((prompt, outcome))
            if outcome == "S":
                m.consec = 0
                if m.state == "half_open":
                    ctx.count("probe_success_closed")
                    m.state, m.total = "closed", 0
                    if st.state.value != "closed" or st.failure_count != 0:
                        viol("probe-success-does-not-close", "successful probe left state=%s failure_count=%d" % (st.state.value, st.failure_count))
                        return
                else:
                    if st.state.value != "closed":
                        viol("success-opens", "success while closed moved the breaker to %s" % st.state.value)
                        return
                    if st.failure_count == 0:
                        m.total = 0   # implementation variant that clears on every success
            elif outcome == "B":
                ctx.count("intentional_blocks")
                if logic != "AND":
                    ctx.count("other_gate_blocks")
                if st.failure_count != st0.failure_count:
                    viol("block-counted-as-failure", "intentional block moved the failure count %d -> %d" % (st0.failure_count, st.failure_count))
                    return
                if st.state.value != ("half_open" if m.state == "half_open" else "closed"):
                    viol("block-changes-state", "intentional block moved the breaker %s -> %s" % (m.state, st.state.value))
                    return
            elif outcome in ("F", "X"):
                ctx.count("executor_failures" if outcome == "F" else "agent_exceptions")
                m.total += 1
                m.consec += 1
                m.last_failure = clock.time()
                if m.state == "half_open":
                    ctx.count("probe_failure_reopened")
                    m.state = "open"
                    if st.state.value != "open":
                        viol("probe-failure-does-not-reopen:" + outcome, "failed probe (%s) left the breaker %s" % (outcome, st.state.value))
                        return
                    if st.last_failure is None or abs(st.last_failure.timestamp() - clock.time()) > 1e-3:
                        viol("probe-failure-does-not-restart-timeout", "failed probe did not restart the recovery timeout")
                        return
                else:
                    if st.failure_count <= st0.failure_count and st.state.value == "closed":
                        mech = "executor-failure-not-counted" if outcome == "F" else "exception-not-counted"
                        if m.consec >= threshold:
                            viol(mech, "%d consecutive failures with threshold %d: breaker still CLOSED (failure_count %d)" % (
                                m.consec, threshold, st.failure_count))
                            return
                        viol(mech, "failure (%s) did not increase the failure count (%d)" % (outcome, st.failure_count))
                        return
                    if st.state.value == "open":
                        if m.total < threshold:
                            viol("opens-before-threshold", "breaker opened after %d failure(s) in total, threshold %d" % (m.total, threshold))
                            return
                        m.state = "open"
                        ctx.count("trips")
                    elif m.consec >= threshold:
                        viol("not-open-after-threshold", "%d consecutive failures, threshold %d, breaker %s" % (m.consec, threshold, st.state.value))
                        return
                    if st.last_failure is None or abs(st.last_failure.timestamp() - clock.time()) > 1e-3:
                        viol("last-failure-not-recorded", "failure instant not recorded")
                        return
            if m.state == "open":
                reached_open = True
            m.trace.append((m.state, min(m.total, 5)))
        if reached_open:
            ctx.nontrivial((cfg, tuple(m.trace)))
    if n % 5000 == 0:
        ctx.sample(witness)


class PStub:
    """verdict encoded in the prompt: 'E=..;A=..;#id'"""

    def __init__(self, name, role):
        self.name, self.role = name, role
        self.calls = 0

    def express(self, signal):
        from operon_ai.core.types import ActionProtein
        self.calls += 1
        v = dict(f.split("=", 1) for f in signal.content.split(";") if "=" in f)[self.role]
        if v == "raise":
            raise Boom("agent crashed")
        return ActionProtein(v, "p", 0.9)


def thread_case(ctx, n, rng):
    """Concurrent failing requests on one loop under the line-level scheduler. Only statement-derived obligations are judged:
    K admitted failures with no success in between => open if K >= threshold; never open with K < threshold; failure_count <= K."""
    from operon_ai.topology.loops import CoherentFeedForwardLoop
    from operon_ai.state.metabolism import ATP_Store
    sched.instrument(CoherentFeedForwardLoop, PStub)
    # breaker bookkeeping fields are yield points too (read and write), so a read-modify-write of a counter can be split
    Loop = sched.yielding_fields(CoherentFeedForwardLoop, ["_failure_count", "_circuit_state", "_last_failure", "_trips_count"])
    threshold = rng.choice([1, 2, 2, 3, 4])
    nthreads = rng.choice([2, 2, 3])
    reqs = [["E=%s;A=PERMIT;#%d.%d" % (rng.choice(["FAILURE", "raise"]), t, k) for k in range(rng.randint(1, 2))] for t in range(nthreads)]
    desc = {"threshold": threshold, "threads": reqs}

    def one(policy, label):
        loop = Loop(ATP_Store(10 ** 6, silent=True), failure_threshold=threshold, recovery_timeout_seconds=10 ** 6,
                    enable_cache=False, silent=True)
        loop.executor, loop.assessor = PStub("Gene_Z (Exec)", "E"), PStub("Gene_Y (Risk)", "A")
        wrap_all_locks(loop, sched.SchedLock, "loop")
        sc = sched.Scheduler(policy, watchdog_s=30.0)
        sc.run([(lambda ps=ps: [loop.run(p) for p in ps]) for ps in reqs])
        ctx.count("thread_schedules")
        w = dict(desc, policy=label, choices=sc.choices[:300])
        if sc.stuck:
            ctx.inconclusive("a schedule hit the wall-clock watchdog (not a verdict)")
            return sc
        if sc.deadlock:
            ctx.violation("deadlock", "guard loop deadlocked: %s" % sc.deadlock, w)
            return sc
        if any(e is not None for e in sc.errors):
            ctx.violation("run-raises-under-threads", "run() raised %r" % ([e for e in sc.errors if e is not None][0],), w)
            return sc
        replies = [r for rs in sc.results for r in rs]
        K = sum(1 for r in replies if r.action != "CIRCUIT_OPEN")
        st = loop.get_circuit_breaker_stats()
        ctx.count("concurrent_failures_judged", K)
        w["admitted_failures"], w["final"] = K, {"state": st.state.value, "failure_count": st.failure_count}
        if K >= threshold and st.state.value != "open":
            ctx.violation("not-open-after-threshold:concurrent", "%d failing requests completed (threshold %d) and the breaker is %s with failure_count %d" % (
                K, threshold, st.state.value, st.failure_count), w)
        elif K < threshold and st.state.value == "open":
            ctx.violation("opens-before-threshold", "breaker open after %d failure(s), threshold %d" % (K, threshold), w)
        elif st.failure_count > K:
            ctx.violation("failures-overcounted", "failure_count %d for %d failed requests" % (st.failure_count, K), w)
        if sc.switch_while_other_inside:
            ctx.nontrivial(("threads", sc.trace_hash()))
        return sc

    base = one(sched.PreemptionPolicy({}), "pb(0)")
    N = max(base.step, 1)
    combos = [(s_, t) for s_ in range(1, N + 1) for t in range(nthreads)]
    if len(combos) > 200:
        combos = rng.sample(combos, 200)
    for (s_, t) in combos:
        one(sched.PreemptionPolicy({s_: t}), "pb(1)@%d->%d" % (s_, t))
    for i in range(60):
        one(sched.RandomPolicy(rng, (0.1, 0.3, 0.6)[i % 3]), "random")


if __name__ == "__main__":
    core.main(sys.modules[__name__])
