"""C08 — circuit breaker: trips at the threshold, isolates while open, recovers half-open.

A reference timed automaton (built from the statement) is stepped in lock-step with the real loop
under a virtual clock patched into operon_ai.topology.loops; after each step the harness compares
result.action, get_circuit_breaker_stats(), stub invocation counters and the budget balance.
Outcome classes are produced by scripted stub agents (and, in a second workload, by recording
proxies around the genuine BioAgents).

Structure: `Rig` owns one real loop with its stubs / callbacks and executes concrete operations
(request, clock advance, reset, cache clear, assignment of a public setting, continuing on a
duplicate); `Session` = Rig + reference automaton + judgement. Sessions are run alone, in pairs on
one clock (two differently configured instances used alternately), very long (> 20 000 operations
on one instance), and followed by a "twin" replay of the same concrete operations with no / many
read-only calls in between (differential). A share of the sessions runs with the process time
zone far from UTC (fixed offsets, and zones whose local clock steps), with strict output streams
and hostile text, with every lock of the instance guarded, and one small probe runs under
`python -O`.
"""
import contextlib
import copy
import datetime as _dt
import decimal
import enum
import fractions
import gc
import inspect
import itertools
import json
import pickle
import random
import subprocess
import sys

from rv import core, sched
from rv import c08_aux as aux
from rv.locks import DetectingLock, WouldHang
from rv.vclock import VClock, patched
from rv.faults import enable_unprintable, make_exception

enable_unprintable()      # "whatever the user code raises" includes exceptions that cannot be turned into text

PID = "C08"
LEVEL = "exploration"
TECHNIQUE = "runtime monitoring: lock-step reference timed automaton vs the real guard loop under a virtual clock, with invocation counters in stub/proxied agents and budget snapshots"
RULE = ("threshold 1..4 x recovery {1s,60s} x cache on/off x breaker on/off; all sequences of length <= 4 (quick) / <= 5 (thorough) over "
        "{S success, B intentional block, F executor failure, X agent exception, C repeat of a cached prompt, d< d= d> clock advances relative to the "
        "recovery timeout, R manual reset} are swept, longer ones (6-8) sampled with extreme / fractional thresholds and timeouts (0, sub-second, "
        "fractional, whole days), verbose mode, raising / reading callbacks, shared verdict objects, repeated prompts, clock jumps beyond 24 h, "
        "cache clears, pairs of differently configured instances used alternately, read-only calls interleaved (differential twin) and sessions of "
        "> 20 000 operations on one instance; a second workload drives the genuine BioAgents (also on a budget that runs dry); round 4: both agents "
        "failing at once, public settings assigned mid-session, bool / Fraction / Decimal / falsy setting values, falsy callables, duplicates "
        "(copy / deepcopy / pickle), process time zones far from UTC incl. local-clock steps, strict output streams with hostile text, "
        "garbage-collected prompts, guarded locks, python -O; "
        "non-trivial = the sequence reaches OPEN; distinct = reference-automaton state trace")
ASSUMPTIONS = ["default AND gate; failure := executor FAILURE verdict (the assessor not blocking) or agent exception, as the statement lists them",
               "several probes may be admitted while half-open; a cache hit is not a consultation",
               "failures counted 'in total' since the last clear (successful probe / manual reset); an implementation that also clears on ordinary successes is accepted",
               "a user callback (on_block / on_permit) that raises may make run() raise that very exception; the breaker obligations are judged on the state afterwards, "
               "using the result object the callback was handed; the same for a strict stdout that cannot encode the printed text (UnicodeEncodeError), using the results log",
               "a recovery timeout <= 0 means every request after a trip is admitted as a probe; thresholds outside 1..4 (0, negative, fractional, huge, inf) are judged "
               "only through the two inequalities of the statement (never open with fewer failures in total than the threshold, open once the consecutive failures reach it)",
               "read-only calls (statistics, stats, results log, repr) and clear_cache() are not requests: they must not change any later reply",
               "public settings assigned after construction: every obligation follows the CURRENT value; while the breaker is disabled only 'never CIRCUIT_OPEN, agents consulted' "
               "is judged, and when it is enabled again the automaton continues from the state the loop reports (open only if the threshold was reached in total)",
               "the recovery timeout is elapsed REAL time since the last failure: a step of the local wall clock (daylight saving) neither stretches nor cuts it",
               "the last_failure statistic may be a naive local, naive UTC or aware datetime; only the instant it denotes is compared",
               "an executor FAILURE verdict together with an assessor verdict that is neither PERMIT nor BLOCK (FAILURE, unknown) is an executor failure; "
               "an assessor FAILURE verdict alone is not one of the listed outcomes (recorded, the automaton follows the loop)"]

ALPHA = ["S", "B", "F", "X", "C", "d<", "d=", "d>", "R"]
CONFIGS = [(th, rec, cache, True, "AND") for th in (1, 2, 3, 4) for rec in (1.0, 60.0) for cache in (False, True)] + \
          [(2, 60.0, False, False, "AND"), (1, 1.0, True, False, "AND")] + \
          [(th, 60.0, cache, True, lg) for lg in ("OR", "EXECUTOR_PRIORITY", "ASSESSOR_PRIORITY", "UNANIMOUS") for (th, cache) in ((1, False), (3, True))]
# random sequences only: failures during which the clock moves (slow agent), the ASSESSOR raising, advances 1 ms below / above the
# boundary, a jump of whole days, clearing the cache
RAND_ALPHA = ALPHA + ["Fs", "Xs", "Xa", "d-", "d+", "dD", "K"]
RAND_W = [3, 2, 4, 4, 1, 2, 1, 2, 1, 2, 2, 2, 2, 1, 1, 1]
# round 4: both agents failing in one request (FF executor FAILURE + assessor FAILURE, Fw executor FAILURE + an assessor verdict outside the
# vocabulary, XX both raise, FX executor FAILURE + assessor raises), AF = the assessor alone answers FAILURE (not a listed outcome)
RAND4_ALPHA = RAND_ALPHA + ["FF", "Fw", "XX", "FX", "AF"]
RAND4_W = [5] + RAND_W[1:] + [4, 2, 2, 2, 1]
FAIL_VARIANTS = {"FF": "F", "Fw": "F", "XX": "X", "FX": "X", "AF": "A"}
WEIRD_VERDICTS = ["EXECUTE", "UNKNOWN", "", "permit", "ERROR"]
DAY = 86400.0
EXT_THRESHOLDS = [0, -1, 1, 2, 2.5, 3.0, 3.000000000000001, 4, 7, 2 ** 53 + 1, float("inf"),
                  True, fractions.Fraction(5, 2), decimal.Decimal("2.5"), fractions.Fraction(3), decimal.Decimal(2)]
EXT_RECOVERIES = [0.0, -1.0, 0.001, 0.05, 0.1 + 0.2, 0.5, 1.0005, 2.5, 59.999, 60, 3600.5, DAY, DAY + 3600.0, 3 * DAY]
TYPED_RECOVERIES = [True, fractions.Fraction(1, 2), decimal.Decimal("0.5"), fractions.Fraction(60)]     # Fraction / Decimal are refused by timedelta: recorded
TRUTHY = [True, 1, "yes", 2.5, [0]]
FALSY = [False, 0, None, "", 0.0, ()]
DEFAULT_OPTS = {"verbose": False, "callbacks": None, "ident": "fresh", "prompts": "fresh", "cache_ttl": 10 ** 6, "timeout_seconds": 30.0,
                # round 4
                "tz": None, "tz_kind": None, "dst_pick": 0, "dst_lead": 30.0, "stream": "sink", "hostile": False, "gc": False, "locks": None,
                "enabled_raw": None, "real_budget": None}
BASE = 1_700_000_000.0


def sweep_size(depth):
    return sum(len(ALPHA) ** d for d in range(1, depth + 1))


def decode_seq(idx, depth):
    for d in range(1, depth + 1):
        k = len(ALPHA) ** d
        if idx < k:
            out = []
            for _ in range(d):
                idx, r = divmod(idx, len(ALPHA))
                out.append(ALPHA[r])
            return out
        idx -= k
    raise IndexError


def n_long(tier):
    return 2 if tier == "quick" else 8


def plan(tier):
    depth = 4 if tier == "quick" else 5
    per_cfg = sweep_size(depth)
    # quick: each config gets a deterministic 1/10 slice of its depth-4 sweep per run (rotated by seed) + samples
    nsweep = len(CONFIGS) * per_cfg // (10 if tier == "quick" else 1)
    extra = 10000 if tier == "quick" else 300000
    return {"cases": nsweep + extra, "shards": 8 if tier == "quick" else 14, "min_nontrivial": 200,
            "timeout": 600 if tier == "quick" else 2400,
            "require": {"steps": 40000, "open_refusals_checked": 3000, "probes_admitted": 800, "probe_success_closed": 150,
                        "probe_failure_reopened": 200, "trips": 1000, "executor_failures": 3000, "agent_exceptions": 3000,
                        "real_agent_steps": 500, "slow_failures": 1000, "other_gate_blocks": 500,
                        "thread_schedules": 2000, "concurrent_failures_judged": 2000,
                        # round 3
                        "verbose_requests": 2000, "verbose_output_chars": 20000, "callback_exceptions_propagated": 500,
                        "callback_raised_on_failure": 100, "twin_requests_compared": 1500, "pair_sessions": 200,
                        "long_session_steps": 9000, "long_session_trips": 100, "truncation_gap_refusals": 100, "fractional_gap_refusals": 40, "day_jump_probes": 50,
                        "subsecond_timeout_refusals": 100, "zero_timeout_probes": 50, "shared_verdict_object_requests": 1000,
                        "repeated_prompt_failures": 300, "cache_clears": 300, "extreme_threshold_failures": 500,
                        "assessor_exceptions": 500,
                        # round 4
                        "both_agents_failing": 1000, "real_both_agents_failing": 100, "settings_assigned_midsession": 500, "reenabled_midsession": 20,
                        "disabled_requests_judged": 800, "typed_setting_sessions": 300, "falsy_callable_requests": 100, "duplicates_continued": 60,
                        "tz_requests": 1500, "tz_open_refusals": 300, "tz_probes_admitted": 80, "local_clock_step_judged": 15,
                        "strict_stream_requests": 600, "strict_stream_refused_output": 5, "hostile_text_requests": 700, "gc_requests": 200,
                        "guarded_lock_ops": 20000, "optimized_child_steps": 500}}


class Boom(Exception):
    pass


class CallbackBoom(Exception):
    """raised by the user-supplied on_block / on_permit callbacks"""


class Sink:
    """stdout replacement for verbose mode"""

    def __init__(self):
        self.chars = 0

    def write(self, s):
        self.chars += len(s)
        return len(s)

    def flush(self):
        pass


_CONST = {}


def const_protein(verdict):
    """module-level verdict objects: the SAME ActionProtein for every request with that verdict"""
    from operon_ai.core.types import ActionProtein
    if verdict not in _CONST:
        _CONST[verdict] = ActionProtein(verdict, "p", 0.9)
    return _CONST[verdict]


CONST_EXC = Boom("agent crashed")


class Stub:
    def __init__(self, name, budget):
        self.name = name
        self.budget = budget
        self.verdict = "PERMIT"
        self.calls = 0
        self.slow = 0.0
        self.clock = None
        self.const = False
        self.exc_index = 0
        self.hostile = False

    def text(self, default):
        if not self.hostile:
            return default
        return aux.HOSTILE_TEXT[self.calls % len(aux.HOSTILE_TEXT)]

    def express(self, signal):
        from operon_ai.core.types import ActionProtein
        self.calls += 1
        self.budget.consume(cost=10)
        if self.slow and self.clock is not None:
            self.clock.advance(self.slow)      # the agent call itself takes (virtual) time
        if self.verdict == "raise":
            if self.const:
                raise CONST_EXC
            self.exc_index += 7
            raise make_exception(self.exc_index, self.text("agent crashed"))      # a different exception class (with / without message) each time
        if self.const:
            return const_protein(self.verdict)
        return ActionProtein(self.verdict, self.text("p"), 0.9)


class Proxy:
    """Recording proxy around a genuine BioAgent."""

    def __init__(self, agent):
        self.agent = agent
        self.name = agent.name
        self.calls = 0
        self.last = None

    def express(self, signal):
        self.calls += 1
        self.last = None
        out = self.agent.express(signal)
        self.last = out.action_type
        return out


class Model:
    """Reference timed automaton written from the statement."""

    def __init__(self):
        self.state = "closed"
        self.total = 0          # failures since the last clear
        self.consec = 0         # consecutive failures (no success in between)
        self.last_failure = None
        self.trace = []


def read_only_calls(loop):
    loop.get_statistics()
    loop.get_circuit_breaker_stats()
    loop.get_results_log()
    loop.get_results_log(3)
    repr(loop)
    loop.get_circuit_breaker_stats()


CALLED_METHODS = {"run", "clear_cache", "reset_circuit_breaker", "get_circuit_breaker_stats", "get_statistics", "get_results_log"}
USED_KWARGS = {"budget", "gate_logic", "enable_circuit_breaker", "failure_threshold", "recovery_timeout_seconds", "enable_cache", "cache_ttl_seconds",
               "timeout_seconds", "on_block", "on_permit", "silent"}
_API_REPORTED = []


def report_api_coverage(ctx, loop_cls, loop):
    """informational: public methods / constructor keywords of the anchored class that no session of this harness uses"""
    if _API_REPORTED:
        return
    _API_REPORTED.append(1)
    for name in dir(loop):
        if not name.startswith("_") and inspect.ismethod(getattr(loop, name, None)) and name not in CALLED_METHODS:
            ctx.count("public_method_never_called:%s(recorded)" % name)
    try:
        for name in inspect.signature(loop_cls.__init__).parameters:
            if name not in USED_KWARGS and name != "self":
                ctx.count("constructor_keyword_never_used:%s(recorded)" % name)
    except (TypeError, ValueError):
        pass
    ctx.count("api_coverage_reports")


class Rig:
    """One real loop + its monitors. `reads`: 'monitor' (the Session reads stats around every request), 'blind' (no read-only call at all),
    'noisy' (a burst of read-only calls before and after every operation)."""

    def __init__(self, clock, cfg, opts, real=False, budget=None, reads="monitor", ctx=None):
        from operon_ai.topology.loops import CoherentFeedForwardLoop, GateLogic
        from operon_ai.state.metabolism import ATP_Store
        self.clock, self.cfg, self.opts, self.real, self.reads = clock, cfg, opts, real, reads
        threshold, recovery, cache, enabled, logic = cfg
        self.sink = aux.StrictStream() if opts["stream"] == "strict" else Sink()
        self.printing = bool(opts["verbose"] or real)
        self.cb_results = []
        self.cb_exc = None
        self.cb_calls = 0
        self.cb_mode = opts["callbacks"]
        self.falsy_calls = 0
        self.rejected = None
        self.lockstate = None
        self.held = []
        self.gc_done = False
        with self.quiet():
            if budget is not None:
                self.budget = budget
            else:
                self.budget = ATP_Store(opts["real_budget"] if (real and opts["real_budget"]) else 10 ** 7, silent=True)
            kw = {}
            if self.cb_mode is not None:
                kw = {"on_block": self.make_callback(self.cb_mode), "on_permit": self.make_callback(self.cb_mode)}
            raw_enabled = enabled if opts["enabled_raw"] is None else opts["enabled_raw"][0]
            try:
                self.loop = CoherentFeedForwardLoop(self.budget, gate_logic=GateLogic[logic], enable_circuit_breaker=raw_enabled, failure_threshold=threshold,
                                                    recovery_timeout_seconds=recovery, enable_cache=cache, cache_ttl_seconds=opts["cache_ttl"],
                                                    timeout_seconds=opts["timeout_seconds"], silent=not opts["verbose"], **kw)
            except (TypeError, ValueError) as e:
                self.rejected = e          # a setting type the constructor refuses: no loop, nothing to judge
                return
        if ctx is not None:
            report_api_coverage(ctx, CoherentFeedForwardLoop, self.loop)
        if real:
            self.ex, self.asr = Proxy(self.loop.executor), Proxy(self.loop.assessor)
        else:
            hostile = opts["hostile"]
            names = ("Gene_Z (Exec)", "Gene_Y (Risk)") if not hostile else (aux.HOSTILE_TEXT[0], aux.HOSTILE_TEXT[3])
            self.ex, self.asr = Stub(names[0], self.budget), Stub(names[1], self.budget)
            self.ex.clock = self.asr.clock = clock
            self.ex.const = self.asr.const = opts["ident"] == "const"
            self.ex.hostile = self.asr.hostile = hostile
        self.loop.executor, self.loop.assessor = self.ex, self.asr
        # every lock of the instance is guarded, whatever it is called: a call that would never return is reported instead of hanging the shard
        self.lock_factory = DetectingLock if opts["locks"] == "stacks" else aux.LightDetectingLock
        self.lockstate = aux.guard_locks(self.loop, self.lock_factory, "loop")

    def make_callback(self, mode):
        return aux.FalsyCallable(self._callback) if mode == "falsy" else self._callback

    def quiet(self):
        if self.printing:
            return contextlib.redirect_stdout(self.sink)
        return contextlib.nullcontext()

    def _callback(self, result):
        self.cb_calls += 1
        self.cb_results.append(result)
        mode = self.cb_mode
        if mode == "falsy":
            self.falsy_calls += 1
        if mode == "reads":
            read_only_calls(self.loop)
        elif mode == "raise" or (mode == "raise-some" and self.cb_calls % 2 == 1):
            self.cb_exc = CallbackBoom("observer failed")
            raise self.cb_exc

    def calls(self):
        return self.ex.calls + self.asr.calls

    def last_logged(self):
        log = self.loop.get_results_log(1)
        return log[-1] if log else None

    def duplicate(self, kind):
        """continue the session on a duplicate of the loop (the agents, the budget and the user callbacks stay the harness' own objects)"""
        loop = self.loop
        try:
            if kind == "copy":
                dup = copy.copy(loop)
            elif kind == "deepcopy":
                dup = copy.deepcopy(loop)
            else:
                dup = pickle.loads(pickle.dumps(loop))
        except Exception:      # noqa  an object holding a lock / bound callbacks cannot be deep-copied or pickled: not an obligation of the statement
            return False
        dup.executor, dup.assessor, dup.budget = self.ex, self.asr, self.budget
        if kind != "copy":
            if self.cb_mode is not None:
                dup.on_block = dup.on_permit = self.make_callback(self.cb_mode)
            self.lockstate = aux.guard_locks(dup, self.lock_factory, "dup")
        self.loop = dup
        return True

    def do(self, op):
        """execute one concrete operation; for a request returns the observation dict"""
        kind = op[0]
        if self.reads == "noisy":
            with self.quiet():
                read_only_calls(self.loop)
        out = None
        if kind == "adv":
            self.clock.advance(op[1])
        elif kind == "reset":
            with self.quiet():
                self.loop.reset_circuit_breaker()
        elif kind == "clear":
            with self.quiet():
                self.loop.clear_cache()
        elif kind == "set":
            if op[1] == "silent" and not op[2]:
                self.printing = True
            setattr(self.loop, op[1], op[2])
        elif kind == "set_cb":
            self.cb_mode = op[1]
            self.loop.on_block = self.loop.on_permit = None if op[1] is None else self.make_callback(op[1])
        elif kind == "dup":
            with self.quiet():
                out = {"dup": self.duplicate(op[1])}
        else:
            _, prompt, verdicts, slow, who = op
            if not self.real and verdicts is not None:
                self.ex.verdict, self.asr.verdict = verdicts
                self.ex.slow = slow if who == "ex" else 0.0
                self.asr.slow = slow if who == "as" else 0.0
            if self.opts["gc"]:
                # dead inputs really are gone before the next request (young generation every time, everything once per session)
                gc.collect(0 if (self.gc_done or self.opts["gc"] != "full") else 2)
                self.gc_done = True
            calls0, bal0 = self.calls(), self.budget.get_balance()
            may_refuse_text = self.printing and self.opts["stream"] == "strict" and self.opts["hostile"]
            logged0 = self.last_logged() if may_refuse_text else None
            self.cb_results, self.cb_exc = [], None
            r, err, raised, print_raised = None, None, False, False
            try:
                with self.quiet():
                    r = self.loop.run(prompt)
            except BaseException as e:     # noqa
                if e is self.cb_exc and self.cb_results:
                    raised = True
                    r = self.cb_results[-1]      # the reply the loop had produced when it alerted the observer
                elif isinstance(e, UnicodeEncodeError) and may_refuse_text:
                    # the user's stdout could not encode what the loop printed: the reply is the one the loop logged for this request
                    print_raised = True
                    last = self.last_logged()
                    r = last if last is not logged0 else None
                else:
                    err = e
            out = {"r": r, "err": err, "cb_raised": raised, "print_raised": print_raised, "calls": self.calls() - calls0,
                   "spent": bal0 - self.budget.get_balance()}
        if self.reads == "noisy":
            with self.quiet():
                read_only_calls(self.loop)
        self.held = aux.held_locks(self.lockstate)
        return out


def obs_tuple(o):
    if o["err"] is not None:
        return ("raised", type(o["err"]).__name__, o["calls"], o["spent"])
    r = o["r"]
    if r is None:
        return ("print-raised", o["calls"], o["spent"])
    return (r.action, bool(r.cached), bool(r.blocked), bool(r.success), o["calls"], o["spent"], o["cb_raised"], o["print_raised"])


def stamp_denotes(dt, t):
    """does the datetime `dt` (naive local, naive UTC or aware) denote the instant t (seconds since the epoch)?"""
    if dt is None:
        return False
    if dt.tzinfo is not None:
        return abs(dt.timestamp() - t) <= 1e-3
    tol = _dt.timedelta(milliseconds=1)
    local = _dt.datetime.fromtimestamp(t)
    utc = _dt.datetime.fromtimestamp(t, _dt.timezone.utc).replace(tzinfo=None)
    return abs(dt - local) <= tol or abs(dt - utc) <= tol


def is_small_int(th):
    return isinstance(th, int) and not isinstance(th, bool) and 1 <= th <= 4


def plain_number(v):
    return isinstance(v, (int, float)) and not isinstance(v, bool)


class Session:
    def __init__(self, ctx, clock, cfg, opts, witness, label="", real=False, budget=None, long=False):
        self.ctx, self.clock, self.cfg, self.opts, self.witness, self.label, self.real, self.long = ctx, clock, cfg, opts, witness, label, real, long
        # the CURRENT settings (public attributes may be assigned mid-session)
        self.threshold, recovery, self.cache, self.enabled, self.logic = cfg
        self.recovery = float(recovery)
        self.rig = Rig(clock, cfg, opts, real=real, budget=budget, ctx=ctx)
        self.m = Model()
        self.fresh = itertools.count()
        self.cached_prompts = []       # prompts whose reply the cache holds: (prompt, class)
        self.cur_cls = None            # outcome class the stubs are currently scripted for
        self.reached_open = False
        self.script = []               # concrete operations, for the twin replay
        self.observed = []             # one obs_tuple per request
        self.dead = False
        self.rejected = self.rig.rejected is not None
        if self.rejected:
            self.dead = True
            ctx.count("constructor_rejected_setting_type(recorded)")
        elif opts["enabled_raw"] is not None or not plain_number(self.threshold) or not plain_number(recovery):
            ctx.count("typed_setting_sessions")
        self.extreme_th = not is_small_int(self.threshold)
        self.tz = opts["tz"] is not None
        self.early_open = None

    def viol(self, mech, what):
        self.dead = True
        self.ctx.violation(mech, what, self.witness)

    def note(self, *entry):
        tr = self.witness["trace"]
        tr.append(((self.label,) + entry) if self.label else entry)
        if self.long and len(tr) > 60:
            del tr[:20]

    def do(self, op):
        self.script.append(op)
        out = self.rig.do(op)
        self.ctx.count("guarded_lock_ops")
        if self.rig.held and not self.dead:
            self.viol("lock-held-after-return", "operation %s returned with the instance lock(s) %s still held" % (op[0], self.rig.held))
        return out

    def step(self, sym):
        """one symbol of the abstract alphabet; returns False once a violation has been recorded"""
        if self.dead:
            return False
        try:
            return self._step(sym)
        except WouldHang as e:
            self.viol("would-hang", "a call would never return: %s (first taken at %s, taken again at %s)" % (e, e.first_stack, e.second_stack))
            return False

    def stepped_since_failure(self):
        """did the local wall clock step (daylight saving) between the last failure and now?"""
        m = self.m
        if self.opts["tz_kind"] != "dst" or m.last_failure is None:
            return False
        return aux.utc_offset(m.last_failure) != aux.utc_offset(self.clock.time())

    def setting(self, sym):
        """a public attribute assigned mid-session (class A) / the session continues on a duplicate (class D)"""
        ctx, m, kind = self.ctx, self.m, sym[0]
        if kind == "Y":
            o = self.do(("dup", sym[1]))
            if o["dup"]:
                ctx.count("duplicates_continued")
                ctx.count("duplicates_continued:" + sym[1])
            else:
                ctx.count("duplicate_unsupported:%s(recorded)" % sym[1])
            self.note("Y", sym[1], o["dup"])
            return not self.dead
        ctx.count("settings_assigned_midsession")
        if kind == "tE":
            raw = sym[1]
            self.do(("set", "enable_circuit_breaker", raw))
            new = bool(raw)
            if new and not self.enabled:
                ctx.count("reenabled_midsession")
                st = self.rig.loop.get_circuit_breaker_stats()
                if st.state.value == "open" and self.early_open is not None:
                    self.viol("opens-before-threshold", "breaker enabled again and found open: it had opened (while disabled) after %d failure(s) in total, threshold %s" % self.early_open)
                    return False
                m.state = st.state.value
                if m.state == "closed":
                    m.consec = 0          # consecutive failures are counted from here on
            self.enabled = new
        elif kind == "tT":
            self.do(("set", "failure_threshold", sym[1]))
            self.threshold = sym[1]
            self.extreme_th = not is_small_int(self.threshold)
        elif kind == "tR":
            self.do(("set", "recovery_timeout", _dt.timedelta(seconds=sym[1])))
            self.recovery = float(sym[1])
        elif kind == "tC":
            self.do(("set", "enable_cache", sym[1]))
            self.cache = bool(sym[1])
        elif kind == "tG":
            from operon_ai.topology.loops import GateLogic
            self.do(("set", "gate_logic", GateLogic[sym[1]]))
            self.logic = sym[1]
            self.cur_cls = None      # what the scripted verdicts amount to depends on the gate
        elif kind == "tK":
            self.do(("set_cb", sym[1]))
        elif kind == "tS":
            self.do(("set", "silent", not sym[1]))
        self.note(*sym)
        return not self.dead

    def _step(self, sym):
        ctx, m, clock = self.ctx, self.m, self.clock
        real = self.real
        ctx.count("steps")
        if self.long:
            ctx.count("long_session_steps")
        if isinstance(sym, tuple):
            return self.setting(sym)
        loop = self.rig.loop
        threshold, recovery, cache, enabled, logic = self.threshold, self.recovery, self.cache, self.enabled, self.logic
        if sym in ("d<", "d=", "d>", "d-", "d+", "dD"):
            rec = max(0.0, recovery)
            if m.last_failure is not None and m.state == "open":
                remaining = max(0.0, m.last_failure + rec - clock.time())
            else:
                remaining = rec
            remaining = round(remaining, 3)          # all instants stay on a millisecond grid, so the
            half = int(remaining * 500) / 1000.0     # implementation's microsecond datetimes are exact
            dt = {"d<": half, "d=": remaining, "d>": remaining + 1.0, "d-": max(0.0, round(remaining - 0.001, 3)), "d+": remaining + 0.001,
                  "dD": DAY + half}[sym]
            if sym == "dD" and clock.offset > 60 * DAY:
                dt = half                            # bounded virtual horizon
            self.do(("adv", dt))
            self.note(sym, dt)
            return not self.dead
        if sym == "R":
            self.do(("reset",))
            m.state, m.total, m.consec = "closed", 0, 0
            st = loop.get_circuit_breaker_stats()
            if st.state.value != "closed" or st.failure_count != 0:
                self.viol("reset-does-not-close", "after reset: state=%s failure_count=%d" % (st.state.value, st.failure_count))
                return False
            self.note("R")
            return not self.dead
        if sym == "K":
            ctx.count("cache_clears")
            st0 = loop.get_circuit_breaker_stats()
            self.do(("clear",))
            st = loop.get_circuit_breaker_stats()
            self.cached_prompts = []
            if (st.state, st.failure_count, st.last_failure) != (st0.state, st0.failure_count, st0.last_failure):
                self.viol("cache-clear-changes-breaker", "clear_cache() moved the breaker %s/%d -> %s/%d" % (
                    st0.state.value, st0.failure_count, st.state.value, st.failure_count))
                return False
            self.note("K")
            return not self.dead
        # ---- a request
        slow, who = 0.0, "ex"
        variant = None
        if sym == "C":
            if not self.cached_prompts:
                return True
            prompt, _cls = self.cached_prompts[-1]
            if self.opts["prompts"] != "fresh":
                prompt = "".join(list(prompt))       # an equal but distinct string object
            want = "C"
            verdicts = None
        else:
            is_slow = sym in ("Fs", "Xs")
            if sym in FAIL_VARIANTS:
                variant, sym = sym, FAIL_VARIANTS[sym]
                if variant == "FX":
                    who = "as"
            else:
                if sym == "Xa":
                    who = "as"
                sym = sym[0]
            if sym == "F" and logic in ("OR", "EXECUTOR_PRIORITY"):
                sym = "X"     # an executor FAILURE verdict is not a blocked/failed request under these gates
                if variant is not None:
                    variant = "XX"
            want = sym
            i = next(self.fresh)
            verdicts = None
            if real:
                if sym == "A":
                    return True
                prompt = {"S": "summarise report %d", "B": "destroy table %d", "F": "deploy build %d", "X": "summarise report %d"}[sym] % i
            else:
                pm = self.opts["prompts"]
                if pm == "same":
                    prompt = "the one request"
                elif pm == "equal":
                    prompt = "".join(["the one ", "request"])
                elif self.opts["hostile"]:
                    prompt = aux.HOSTILE_PROMPT[i % len(aux.HOSTILE_PROMPT)] % i
                    if i % 3 == 0:
                        prompt = aux.HostileStr(prompt)
                elif self.opts["gc"]:
                    prompt = "request %06d" % (i % 10 ** 6)     # fresh strings of equal length, dropped after the request
                else:
                    prompt = "request %d" % i
                if variant is None:
                    verdicts = {"S": ("EXECUTE", "PERMIT"), "B": ("EXECUTE", "BLOCK") if logic == "AND" else ("BLOCK", "BLOCK"),
                                "F": ("FAILURE", "PERMIT"), "X": ("raise", "PERMIT") if who == "ex" else ("EXECUTE", "raise")}[sym]
                else:
                    verdicts = {"FF": ("FAILURE", "FAILURE"), "Fw": ("FAILURE", WEIRD_VERDICTS[i % len(WEIRD_VERDICTS)]), "XX": ("raise", "raise"),
                                "FX": ("FAILURE", "raise"), "AF": ("EXECUTE", "FAILURE")}[variant]
                self.cur_cls = sym
                if is_slow:
                    slow = round(max(0.0, recovery) * 0.75, 3)
                    ctx.count("slow_failures")
        if real and sym == "X":
            return True   # genuine agents do not raise on demand
        st0 = loop.get_circuit_breaker_stats()
        elapsed = None if m.last_failure is None else clock.time() - m.last_failure
        if real:
            ctx.count("real_agent_steps")
        if self.rig.printing and not real:
            ctx.count("verbose_requests")
            if self.opts["stream"] == "strict":
                ctx.count("strict_stream_requests")
        if self.opts["hostile"] and not real:
            ctx.count("hostile_text_requests")
        if self.opts["gc"]:
            ctx.count("gc_requests")
        if self.tz:
            ctx.count("tz_requests")
        if self.opts["ident"] == "const" and not real:
            ctx.count("shared_verdict_object_requests")
        chars0 = self.rig.sink.chars
        falsy0 = self.rig.falsy_calls
        o = self.do(("req", prompt, verdicts, slow, who))
        if self.dead:
            return False
        if self.rig.printing and not real:
            ctx.count("verbose_output_chars", self.rig.sink.chars - chars0)
        if self.rig.falsy_calls != falsy0:
            ctx.count("falsy_callable_calls(recorded)", self.rig.falsy_calls - falsy0)
        if self.rig.cb_mode == "falsy":
            ctx.count("falsy_callable_requests")
        self.observed.append(obs_tuple(o))
        if o["err"] is not None:
            if isinstance(o["err"], WouldHang):
                raise o["err"]
            self.viol("run-raises", "run() raised %r" % (o["err"],))
            return False
        r, calls, spent = o["r"], o["calls"], o["spent"]
        if o["cb_raised"]:
            ctx.count("callback_exceptions_propagated")
        if o["print_raised"]:
            ctx.count("strict_stream_refused_output")
        st = loop.get_circuit_breaker_stats()
        if r is None:
            # the output stream failed before the loop had logged a reply: nothing to classify, follow the loop
            ctx.count("unclassified_outcome(recorded)")
            self.resync(st, st0)
            return True
        # classify what actually happened from the monitors (not from the loop's own bookkeeping)
        ex, asr = self.rig.ex, self.rig.asr
        if calls == 0:
            outcome = "refused" if r.action == "CIRCUIT_OPEN" else "cachehit" if r.cached else "no-agents:" + r.action
        elif real:
            e_v, a_v = ex.last, asr.last
            if e_v is None or (asr.calls and a_v is None and asr.calls > 0 and calls == 2):
                outcome = "X"
            elif a_v == "BLOCK" or e_v == "BLOCK":
                outcome = "B"
            elif e_v == "FAILURE":
                outcome = "F"          # the assessor did not block
                if a_v == "FAILURE":
                    ctx.count("real_both_agents_failing")
            elif e_v in ("EXECUTE", "PERMIT") and a_v == "PERMIT":
                outcome = "S"
            else:
                outcome = "other"
        elif want == "A":
            outcome = "other"
        elif want != "C":
            outcome = want
        else:
            # the repeat was not served from the cache (expired / cleared / evicted / cache off): the stubs answered as currently scripted
            outcome = self.cur_cls if self.cur_cls in ("S", "B", "F", "X") else "other" if self.cur_cls == "A" else "consulted-on-repeat"
        if variant is not None and outcome in ("F", "X"):
            ctx.count("both_agents_failing")
        self.note(variant or sym, prompt, "->", r.action, "cached" if r.cached else "", "callback raised" if o["cb_raised"] else "", st.state.value, st.failure_count, outcome)

        if not enabled:
            ctx.count("disabled_requests_judged")
            if r.action == "CIRCUIT_OPEN":
                self.viol("disabled-breaker-refuses", "breaker disabled, reply CIRCUIT_OPEN")
                return False
            if calls == 0 and not r.cached:
                self.viol("disabled-breaker-agents-not-consulted", "breaker disabled, agents not consulted and reply not cached")
                return False
            if outcome in ("S", "B", "F") and cache:
                self.cached_prompts.append((prompt, outcome))
            # what happens meanwhile still counts for "in total" / "since the last failure" once the breaker is enabled again
            if outcome in ("F", "X"):
                m.total += 1
                m.consec += 1
                m.last_failure = clock.time()
            elif outcome == "S":
                m.consec = 0
            elif outcome not in ("B", "cachehit") and (st.failure_count != st0.failure_count or st.last_failure != st0.last_failure):
                m.total += 1
                m.last_failure = clock.time()
            # a loop that keeps its automaton running while disabled: remember an opening below the threshold of that moment
            if st.state.value != "open":
                self.early_open = None
            elif st0.state.value != "open" and m.total < threshold:
                self.early_open = (m.total, threshold)
            return True

        # ---- reference automaton step
        must_refuse = m.state == "open" and elapsed is not None and elapsed < recovery - 1e-4
        must_admit = m.state == "open" and elapsed is not None and elapsed >= recovery - 1e-5
        stepped = (must_refuse or must_admit) and self.stepped_since_failure()
        sfx = ":local-clock-step" if stepped else ""
        if stepped:
            ctx.count("local_clock_step_judged")
        if must_refuse:
            ctx.count("open_refusals_checked")
            if self.tz:
                ctx.count("tz_open_refusals")
            if recovery < 1.0:
                ctx.count("subsecond_timeout_refusals")
            if int(elapsed % DAY) >= int(recovery % DAY):
                ctx.count("truncation_gap_refusals")      # refused although the whole-second components alone would say "elapsed"
                if recovery >= 1.0:
                    ctx.count("fractional_gap_refusals")  # ... with a timeout of at least a second (2.0 <= elapsed < 2.5, whole days dropped)
            if outcome != "refused" or not r.blocked:
                mech = "open-consults-agents" if calls else "open-wrong-answer"
                self.viol(mech + sfx, "OPEN for %.3fs of %.3fs: reply action=%s blocked=%s, %d agent calls" % (elapsed, recovery, r.action, r.blocked, calls))
                return False
            if spent != 0:
                self.viol("open-spends-energy", "OPEN request spent %d ATP" % spent)
                return False
            if st.state.value != "open" or st.failure_count != st0.failure_count:
                self.viol("open-refusal-changes-breaker", "refusal moved breaker to %s / count %d" % (st.state.value, st.failure_count))
                return False
            return True
        if m.state == "open" and not must_admit:
            # closer to the boundary than the clock grid resolves (never reached with grid-aligned timeouts): follow the implementation
            ctx.count("boundary_gap(recorded)")
            if outcome == "refused":
                return True
        elif outcome == "refused":
            why = "closed" if m.state == "closed" else "half-open" if m.state == "half_open" else "recovery timeout elapsed (%.3fs >= %.3fs)" % (elapsed, recovery)
            self.viol("refuses-when-not-open" if m.state != "open" else "probe-refused-after-timeout" + sfx,
                      "request refused with CIRCUIT_OPEN while the breaker should admit it: %s" % why)
            return False
        if m.state == "open":
            ctx.count("probes_admitted")
            if self.tz:
                ctx.count("tz_probes_admitted")
            if elapsed >= DAY:
                ctx.count("day_jump_probes")
            if recovery <= 0:
                ctx.count("zero_timeout_probes")
            m.state = "half_open"
        if outcome == "cachehit":
            # no obligation beyond: nothing recorded
            if st.failure_count != st0.failure_count:
                self.viol("cache-hit-changes-count", "cache hit changed the failure count")
                return False
            return True
        if outcome in ("other", "consulted-on-repeat") or outcome.startswith("no-agents"):
            ctx.count("unclassified_outcome(recorded)")
            self.resync(st, st0)
            return True
        if cache and outcome in ("S", "B", "F"):
            self.cached_prompts.append((prompt, outcome))
        if outcome == "S":
            m.consec = 0
            if m.state == "half_open":
                ctx.count("probe_success_closed")
                m.state, m.total = "closed", 0
                if st.state.value != "closed" or st.failure_count != 0:
                    self.viol("probe-success-does-not-close", "successful probe left state=%s failure_count=%d" % (st.state.value, st.failure_count))
                    return False
            else:
                if st.state.value != "closed":
                    self.viol("success-opens", "success while closed moved the breaker to %s" % st.state.value)
                    return False
                if st.failure_count == 0:
                    m.total = 0   # implementation variant that clears on every success
        elif outcome == "B":
            ctx.count("intentional_blocks")
            if logic != "AND":
                ctx.count("other_gate_blocks")
            if st.failure_count != st0.failure_count:
                self.viol("block-counted-as-failure", "intentional block moved the failure count %d -> %d" % (st0.failure_count, st.failure_count))
                return False
            if st.state.value != ("half_open" if m.state == "half_open" else "closed"):
                self.viol("block-changes-state", "intentional block moved the breaker %s -> %s" % (m.state, st.state.value))
                return False
        elif outcome in ("F", "X"):
            ctx.count("executor_failures" if outcome == "F" else "agent_exceptions")
            if who == "as":
                ctx.count("assessor_exceptions")
            if self.extreme_th:
                ctx.count("extreme_threshold_failures")
            if self.opts["prompts"] != "fresh":
                ctx.count("repeated_prompt_failures")
            if o["cb_raised"]:
                ctx.count("callback_raised_on_failure")
            m.total += 1
            m.consec += 1
            m.last_failure = clock.time()
            both = ":both-agents" if variant is not None else ""
            if m.state == "half_open":
                ctx.count("probe_failure_reopened")
                m.state = "open"
                if st.state.value != "open":
                    self.viol("probe-failure-does-not-reopen:" + outcome + both, "failed probe (%s) left the breaker %s" % (variant or outcome, st.state.value))
                    return False
                if not stamp_denotes(st.last_failure, clock.time()):
                    self.viol("probe-failure-does-not-restart-timeout", "failed probe did not restart the recovery timeout")
                    return False
            else:
                if st.failure_count <= st0.failure_count and st.state.value == "closed":
                    mech = ("executor-failure-not-counted" if outcome == "F" else "exception-not-counted") + both
                    if m.consec >= threshold:
                        self.viol(mech, "%d consecutive failures with threshold %s: breaker still CLOSED (failure_count %d)" % (
                            m.consec, threshold, st.failure_count))
                        return False
                    self.viol(mech, "failure (%s) did not increase the failure count (%d)" % (variant or outcome, st.failure_count))
                    return False
                if st.state.value == "open":
                    if m.total < threshold:
                        self.viol("opens-before-threshold", "breaker opened after %d failure(s) in total, threshold %s" % (m.total, threshold))
                        return False
                    m.state = "open"
                    ctx.count("trips")
                    if self.long:
                        ctx.count("long_session_trips")
                elif m.consec >= threshold:
                    self.viol("not-open-after-threshold", "%d consecutive failures, threshold %s, breaker %s" % (m.consec, threshold, st.state.value))
                    return False
                if not stamp_denotes(st.last_failure, clock.time()):
                    self.viol("last-failure-not-recorded", "failure instant not recorded")
                    return False
        if m.state == "open":
            self.reached_open = True
        if not self.long or len(m.trace) < 40:
            m.trace.append((m.state, min(m.total, 5)))
        return True

    def resync(self, st, st0):
        """an outcome outside the statement's vocabulary: the automaton follows the loop (anything it counted is counted as a failure in total)"""
        m = self.m
        if st.failure_count != st0.failure_count or st.last_failure != st0.last_failure:
            m.total += 1
            m.last_failure = self.clock.time()
        m.state = st.state.value
        m.consec = 0

    def finish(self):
        if self.reached_open and not self.dead:
            self.ctx.nontrivial((repr(self.cfg), tuple(self.m.trace)))


def describe(cfg, opts, real):
    threshold, recovery, cache, enabled, logic = cfg
    d = {"threshold": threshold, "recovery_s": recovery, "cache": cache, "breaker": enabled, "real_agents": real, "gate": logic}
    d.update({k: v for k, v in opts.items() if v != DEFAULT_OPTS.get(k)})
    return d


_STEPS_CACHE = {}


@contextlib.contextmanager
def world(opts):
    """process time zone + virtual clock of one session (always restored). For a zone with daylight saving the clock starts shortly before
    an instant at which the local clock steps."""
    import operon_ai.topology.loops as loops_mod
    with aux.tz_env(opts["tz"]):
        base = BASE
        if opts["tz_kind"] == "dst":
            steps = _STEPS_CACHE.get(opts["tz"])
            if steps is None:
                steps = _STEPS_CACHE[opts["tz"]] = aux.local_clock_steps(BASE - 10_000_000.0, 500)
            if steps:
                base = steps[opts["dst_pick"] % len(steps)][0] - opts["dst_lead"]
        clock = VClock(base=base)
        with patched(clock, loops_mod):
            yield clock


def twin(ctx, primary, reads):
    """Replay the primary session's concrete operations on a fresh loop with no ('blind') or many ('noisy') read-only calls in between:
    every reply, agent-call count and energy spent must be the same."""
    with world(primary.opts) as clock:
        rig = Rig(clock, primary.cfg, primary.opts, real=False, reads=reads)
        k = 0
        for op in primary.script:
            o = rig.do(op)
            if o is None or "dup" in o:
                continue
            got, want = obs_tuple(o), primary.observed[k]
            ctx.count("twin_requests_compared")
            if got != want:
                w = dict(primary.witness, twin={"reads": reads, "request_index": k, "reply_with_stats_reads_around_each_request": want, "reply_in_twin": got})
                ctx.violation("read-only-calls-change-reply:" + reads,
                              "request %d answered %r when statistics are read around every request but %r with %s" % (
                                  k, want, got, "no read-only calls at all" if reads == "blind" else "bursts of read-only calls"), w)
                return
            k += 1


def drive(ctx, n, cfg, seq, real, opts=DEFAULT_OPTS, twin_mode=None):
    witness = {"config": describe(cfg, opts, real), "sequence": seq, "trace": []}
    with world(opts) as clock:
        s = Session(ctx, clock, cfg, opts, witness, real=real)
        for sym in seq:
            if not s.step(sym):
                break
        s.finish()
    if twin_mode and not s.dead and not real:
        try:
            twin(ctx, s, twin_mode)
        except WouldHang as e:
            ctx.violation("would-hang", "a call would never return: %s" % (e,), witness)
    if n % 5000 == 0:
        ctx.sample(witness)


def drive_pair(ctx, n, rng, specs):
    """Two differently configured loops alive at the same time on one clock, used alternately (optionally charging one shared budget)."""
    from operon_ai.state.metabolism import ATP_Store
    witness = {"instances": {lab: describe(cfg, opts, False) for lab, (cfg, opts, _seq) in zip("AB", specs)},
               "sequences": {lab: seq for lab, (_c, _o, seq) in zip("AB", specs)}, "trace": []}
    ctx.count("pair_sessions")
    with world(specs[0][1]) as clock:
        shared = ATP_Store(10 ** 7, silent=True) if rng.random() < 0.5 else None
        witness["shared_budget"] = shared is not None
        ss = [Session(ctx, clock, cfg, opts, witness, label=lab, budget=shared) for lab, (cfg, opts, _seq) in zip("AB", specs)]
        todo = [list(specs[0][2]), list(specs[1][2])]
        for i in (0, 1):
            if ss[i].rejected:
                todo[i] = []
        while todo[0] or todo[1]:
            i = rng.randrange(2)
            if not todo[i]:
                i = 1 - i
            if not ss[i].step(todo[i].pop(0)):
                return
        for s in ss:
            s.finish()


def random_opts(rng, cfg):
    threshold, recovery, cache, enabled, logic = cfg
    if rng.random() < 0.4:
        threshold = rng.choice(EXT_THRESHOLDS)
    if rng.random() < 0.5:
        recovery = rng.choice(EXT_RECOVERIES)
    opts = dict(DEFAULT_OPTS)
    opts["verbose"] = rng.random() < 0.33
    opts["callbacks"] = rng.choice([None, None, None, "ok", "raise", "raise", "raise-some", "reads", "falsy"])
    opts["ident"] = "const" if rng.random() < 0.25 else "fresh"
    opts["prompts"] = rng.choice(["fresh", "fresh", "fresh", "same", "equal"])
    opts["cache_ttl"] = rng.choice([10 ** 6, 10 ** 6, 10 ** 6, 300.0, 0, 0.5, 10 ** 9])
    opts["timeout_seconds"] = rng.choice([30.0, 30.0, 0, 0.001, None, 10 ** 9])
    # ---- round 4 (a generator of its own)
    r4 = random.Random(rng.getrandbits(64))
    if r4.random() < 0.04:
        recovery = r4.choice(TYPED_RECOVERIES)
    if r4.random() < 0.2:
        opts["enabled_raw"] = (r4.choice(TRUTHY if enabled else FALSY),)
    x = r4.random()
    if x < 0.22:
        opts["tz"], opts["tz_kind"] = r4.choice(aux.FIXED_ZONES), "fixed"
    elif x < 0.34:
        opts["tz"], opts["tz_kind"] = r4.choice(aux.DST_ZONES), "dst"
        opts["dst_pick"] = r4.randrange(8)
        rec = max(0.0, float(recovery))
        opts["dst_lead"] = r4.choice([0.5, 1.0, 10.0, 30.0, 59.0, 100.0, 1000.0, round(rec * 0.5, 3) + 0.25, round(rec, 3) + 1.0])
    if opts["verbose"] and r4.random() < 0.5:
        opts["stream"] = "strict"
    opts["hostile"] = r4.random() < (0.5 if opts["stream"] == "strict" else 0.2)
    if opts["hostile"] and r4.random() < 0.5:
        opts["prompts"] = "fresh"
    x = r4.random()
    opts["gc"] = "full" if x < 0.01 else "young" if x < 0.04 else False
    if r4.random() < 0.2:
        opts["locks"] = "stacks"          # the guard that also records where the lock was taken
    return (threshold, recovery, cache, enabled, logic), opts


def late_symbol(rng):
    """one assignment to a public attribute (class A) or a duplication (class D), with its value"""
    k = rng.choice(["tE", "tE", "tE", "tT", "tT", "tR", "tR", "tC", "tG", "tK", "tK", "tS", "Y", "Y"])
    if k == "tE":
        return ("tE", rng.choice(TRUTHY + FALSY))
    if k == "tT":
        return ("tT", rng.choice([1, 1, 2, 2, 3, 4] + EXT_THRESHOLDS))
    if k == "tR":
        return ("tR", rng.choice([1.0, 60.0, 60.0] + [r for r in EXT_RECOVERIES if r <= DAY]))
    if k == "tC":
        return ("tC", rng.choice([True, False, 1, 0]))
    if k == "tG":
        return ("tG", rng.choice(["AND", "AND", "OR", "EXECUTOR_PRIORITY", "ASSESSOR_PRIORITY", "UNANIMOUS"]))
    if k == "tK":
        return ("tK", rng.choice([None, "ok", "raise", "raise-some", "reads", "falsy"]))
    if k == "tS":
        return ("tS", rng.random() < 0.6)
    return ("Y", rng.choice(["copy", "copy", "deepcopy", "pickle"]))


def round4_sequence(rng, L):
    seq = rng.choices(RAND4_ALPHA, weights=RAND4_W, k=L)
    if rng.random() < 0.6:
        for _ in range(rng.randint(1, 3)):
            seq.insert(rng.randrange(len(seq) + 1), late_symbol(rng))
    if rng.random() < 0.15:
        # disabled for a stretch of the session, then enabled again
        a, b = sorted((rng.randrange(len(seq) + 1), rng.randrange(len(seq) + 1)))
        seq.insert(b, ("tE", rng.choice(TRUTHY)))
        seq.insert(a, ("tE", rng.choice(FALSY)))
    return seq


def long_session(ctx, n, rng, k):
    """> 20 000 operations on ONE instance: (even k) a threshold above 20 000 reached by that many failures with blocks, cache hits and short
    clock advances in between; (odd k) thousands of trip / refuse / probe cycles with small thresholds."""
    opts = dict(DEFAULT_OPTS)
    opts["verbose"] = k % 4 >= 2
    if k % 4 == 3:
        opts["tz"], opts["tz_kind"] = aux.FIXED_ZONES[(k // 4) % len(aux.FIXED_ZONES)], "fixed"
    if k % 2 == 0:
        th = 20000 + rng.randrange(1, 500)
        cfg = (th, rng.choice([1.0, 2.5, 60.0]), rng.random() < 0.5, True, "AND")
        pre = rng.choices(["F", "X", "Xa", "B", "C", "d<", "K", "FF", "XX"], weights=[6, 6, 2, 2, 1, 1, 0.05, 2, 1], k=th + th // 3)
        seq = pre + ["F"] * 5 + rng.choices(RAND_ALPHA, weights=RAND_W, k=300)
    else:
        cfg = (rng.choice([1, 2, 3, 4]), rng.choice([0.5, 1.0, 2.5, 60.0]), rng.random() < 0.5, True, "AND")
        alpha = [a for a in RAND4_ALPHA if a != "dD"]
        w = [wt for a, wt in zip(RAND4_ALPHA, RAND4_W) if a != "dD"]
        seq = rng.choices(alpha, weights=w, k=22000)
    witness = {"config": describe(cfg, opts, False), "sequence": "long session of %d symbols (trace = last steps)" % len(seq), "trace": []}
    with world(opts) as clock:
        s = Session(ctx, clock, cfg, opts, witness, long=True)
        for sym in seq:
            if not s.step(sym):
                break
        s.finish()
        if not s.dead:
            ctx.count("long_sessions_completed")


def run_case(ctx, n):
    depth = 4 if ctx.tier == "quick" else 5
    per_cfg = sweep_size(depth)
    div = 10 if ctx.tier == "quick" else 1
    nsweep = len(CONFIGS) * per_cfg // div
    if n < nsweep:
        ci, k = divmod(n, per_cfg // div)
        ci %= len(CONFIGS)
        idx = (k * div + (ctx.seed + ci) % div) % per_cfg
        seq = decode_seq(idx, depth)
        return drive(ctx, n, CONFIGS[ci], seq, real=False)
    rng = ctx.rng(n)
    j = n - nsweep
    if j < n_long(ctx.tier) * 3 and j % 3 == 0:       # spread over different shards
        return long_session(ctx, n, rng, j // 3)
    cfg = rng.choice(CONFIGS)
    L = rng.randint(5, 8)
    seq = rng.choices(RAND_ALPHA, weights=RAND_W, k=L)
    real = (n % 10 == 0) and cfg[4] == "AND"
    if n % (250 if ctx.tier == "quick" else 2500) == 3:
        return thread_case(ctx, n, rng)
    if real:
        opts = DEFAULT_OPTS
        if n % 20 == 0:
            # the genuine agents on a budget that runs dry: both then answer FAILURE
            opts = dict(DEFAULT_OPTS, real_budget=rng.choice([20, 40, 60, 100, 150]))
            seq = seq + rng.choices(["S", "F", "B", "d<", "d>"], weights=[4, 3, 1, 1, 1], k=8)
        return drive(ctx, n, cfg, seq, real=True, opts=opts)
    if n % 10 in (1, 2):
        # the round-1/2 workload unchanged: grid configurations, default options
        return drive(ctx, n, cfg, seq, real=False)
    if n % 10 in (0, 3):
        # grid configurations, default options, round-4 alphabet (both agents failing, settings assigned mid-session, duplicates)
        return drive(ctx, n, cfg, round4_sequence(rng, L), real=False)
    cfg2, opts = random_opts(rng, cfg)
    if n % 10 in (4, 5):
        cfg_b, opts_b = random_opts(rng, rng.choice(CONFIGS))
        seq_b = rng.choices(RAND_ALPHA, weights=RAND_W, k=rng.randint(5, 8))
        if n % 10 == 5:
            seq, seq_b = round4_sequence(rng, L), round4_sequence(rng, len(seq_b))
        for k in ("tz", "tz_kind", "dst_pick", "dst_lead"):
            opts_b[k] = opts[k]        # one process, one zone, one clock
        return drive_pair(ctx, n, rng, [(cfg2, opts, seq), (cfg_b, opts_b, seq_b)])
    if n % 10 in (7, 9):
        seq = round4_sequence(rng, L)
    drive(ctx, n, cfg2, seq, real=False, opts=opts, twin_mode={6: "blind", 7: "noisy"}.get(n % 10))


class PStub:
    """verdict encoded in the prompt: 'E=..;A=..;#id'"""

    def __init__(self, name, role):
        self.name, self.role = name, role
        self.calls = 0

    def express(self, signal):
        from operon_ai.core.types import ActionProtein
        self.calls += 1
        v = dict(f.split("=", 1) for f in signal.content.split(";") if "=" in f)[self.role]
        if v == "raise":
            raise Boom("agent crashed")
        return ActionProtein(v, "p", 0.9)


def scalar_state_fields(obj):
    """instance attributes holding plain bookkeeping values (counters, enum states, instants), whatever they are called"""
    return [k for k, v in vars(obj).items()
            if k.startswith("_") and not k.startswith("__") and (v is None or isinstance(v, (int, float, enum.Enum, _dt.datetime)))]


def thread_case(ctx, n, rng):
    """Concurrent failing requests on one loop under the line-level scheduler. Only statement-derived obligations are judged:
    K admitted failures with no success in between => open if K >= threshold; never open with K < threshold; failure_count <= K."""
    from operon_ai.topology.loops import CoherentFeedForwardLoop
    from operon_ai.state.metabolism import ATP_Store
    sched.instrument(CoherentFeedForwardLoop, PStub)
    # bookkeeping fields are yield points too (read and write), so a read-modify-write of a counter can be split
    probe = CoherentFeedForwardLoop(ATP_Store(10, silent=True), silent=True)
    Loop = sched.yielding_fields(CoherentFeedForwardLoop, scalar_state_fields(probe))
    threshold = rng.choice([1, 2, 2, 3, 4])
    nthreads = rng.choice([2, 2, 3])
    reqs = [["E=%s;A=PERMIT;#%d.%d" % (rng.choice(["FAILURE", "raise"]), t, k) for k in range(rng.randint(1, 2))] for t in range(nthreads)]
    if rng.random() < 0.5:
        # both agents failing in one request is part of the mix
        reqs = [[p.replace("A=PERMIT", "A=" + rng.choice(["PERMIT", "FAILURE", "raise"])) for p in ps] for ps in reqs]
    desc = {"threshold": threshold, "threads": reqs}

    def one(policy, label):
        loop = Loop(ATP_Store(10 ** 6, silent=True), failure_threshold=threshold, recovery_timeout_seconds=10 ** 6,
                    enable_cache=False, silent=True)
        loop.executor, loop.assessor = PStub("Gene_Z (Exec)", "E"), PStub("Gene_Y (Risk)", "A")
        lockstate = aux.guard_locks(loop, sched.SchedLock, "loop")      # a lock the loop replaces later is wrapped again
        sc = sched.Scheduler(policy, watchdog_s=30.0)
        sc.run([(lambda ps=ps: [loop.run(p) for p in ps]) for ps in reqs])
        ctx.count("thread_schedules")
        w = dict(desc, policy=label, choices=sc.choices[:300])
        if sc.stuck:
            ctx.inconclusive("a schedule hit the wall-clock watchdog (not a verdict)")
            return sc
        if sc.deadlock:
            ctx.violation("deadlock", "guard loop deadlocked: %s" % sc.deadlock, w)
            return sc
        if any(e is not None for e in sc.errors):
            ctx.violation("run-raises-under-threads", "run() raised %r" % ([e for e in sc.errors if e is not None][0],), w)
            return sc
        if lockstate["replaced"]:
            ctx.count("lock_replaced_by_the_loop(recorded)", lockstate["replaced"])
        held = aux.held_locks(lockstate)
        if held:
            ctx.violation("lock-held-after-return", "all requests returned and the instance lock(s) %s are still held" % held, w)
            return sc
        replies = [r for rs in sc.results for r in rs]
        K = sum(1 for r in replies if r.action != "CIRCUIT_OPEN")
        st = loop.get_circuit_breaker_stats()
        ctx.count("concurrent_failures_judged", K)
        w["admitted_failures"], w["final"] = K, {"state": st.state.value, "failure_count": st.failure_count}
        if K >= threshold and st.state.value != "open":
            ctx.violation("not-open-after-threshold:concurrent", "%d failing requests completed (threshold %d) and the breaker is %s with failure_count %d" % (
                K, threshold, st.state.value, st.failure_count), w)
        elif K < threshold and st.state.value == "open":
            ctx.violation("opens-before-threshold", "breaker open after %d failure(s), threshold %d" % (K, threshold), w)
        elif st.failure_count > K:
            ctx.violation("failures-overcounted", "failure_count %d for %d failed requests" % (st.failure_count, K), w)
        if sc.switch_while_other_inside:
            ctx.nontrivial(("threads", sc.trace_hash()))
        return sc

    base = one(sched.PreemptionPolicy({}), "pb(0)")
    N = max(base.step, 1)
    combos = [(s_, t) for s_ in range(1, N + 1) for t in range(nthreads)]
    if len(combos) > 250:
        combos = rng.sample(combos, 250)
    for (s_, t) in combos:
        one(sched.PreemptionPolicy({s_: t}), "pb(1)@%d->%d" % (s_, t))
    for i in range(60):
        one(sched.RandomPolicy(rng, (0.1, 0.3, 0.6)[i % 3]), "random")


# ---- class I: a small probe of the same obligations in an interpreter started with -O -------------------------------------------------
def child_cases():
    nsweep = len(CONFIGS) * sweep_size(4) // 10
    sweep = list(range(0, nsweep, max(1, nsweep // 250)))
    rnd = [nsweep + k for k in range(20, 420) if (nsweep + k) % 250 != 3]
    return sweep + rnd


def child_main(seed):
    """runs inside `python -O`: a few hundred ordinary cases of this check, result as one JSON line"""
    ctx = core.Ctx(PID, "quick", seed)
    for n in child_cases():
        ctx.case = n
        run_case(ctx, n)
    print("C08-CHILD " + json.dumps({"optimized": not __debug__, "steps": ctx.counters.get("steps", 0), "violations": ctx.violations,
                                     "violation_counts": ctx.violation_counts, "inconclusive": ctx.inconclusive_reasons}))


def run_child(seed):
    cmd = [sys.executable, "-O", "-B", "-m", "checks.c08_breaker", "--c08-child", str(seed)]
    try:
        p = subprocess.run(cmd, capture_output=True, text=True, timeout=900, cwd=core.VERIF)
    except (subprocess.TimeoutExpired, OSError) as e:
        return None, "child interpreter (-O) did not finish: %r" % (e,)
    for line in p.stdout.splitlines():
        if line.startswith("C08-CHILD "):
            return json.loads(line[len("C08-CHILD "):]), None
    return None, "child interpreter (-O) gave no result (rc=%s): %s" % (p.returncode, (p.stdout + p.stderr)[-600:])


def extra_parent(pctx):
    out, why = run_child(pctx.seed)
    if out is None:
        pctx.inconclusive(why)
        return
    if not out["optimized"]:
        pctx.inconclusive("the child interpreter did not run with -O")
        return
    pctx.count("optimized_child_steps", out["steps"])
    for r in out["inconclusive"]:
        pctx.inconclusive(r)
    seen = {}
    for v in out["violations"]:
        mech = v["mechanism"]
        seen[mech] = seen.get(mech, 0) + 1
        pctx.case = "python-O:case %s" % (v["case"],)
        pctx.violation(mech, v["what"] + " [interpreter started with -O]", v["witness"])
    for mech, cnt in out["violation_counts"].items():
        extra = cnt - seen.get(mech, 0)
        if extra > 0:
            pctx.violation_counts[mech] = pctx.violation_counts.get(mech, 0) + extra
    pctx.case = None


def replay_special(ctx, case):
    out, why = run_child(ctx.seed)
    print(why or json.dumps(out["violation_counts"]))
    for v in (out or {}).get("violations", []):
        ctx.violation(v["mechanism"], v["what"], v["witness"])


if __name__ == "__main__":
    if len(sys.argv) >= 3 and sys.argv[1] == "--c08-child":
        child_main(int(sys.argv[2]))
    else:
        core.main(sys.modules[__name__])
