"""C12 — template rendering follows the documented grammar; bound values stay data.

Part A (grammar conformance): templates are generated as ASTs over the documented constructs, unparsed
to text, rendered by the REAL Ribosome (translate by name / translate(mRNA) / synthesize) and compared
with an independent single-pass expansion of the same AST (rv.c12_model.Ref) — text, warnings for live
missing plain variables, strict-mode error, unknown-include marker.

Part B (value opacity): for every slot kind (where a bound value / loop item enters the output) x every
sentinel kind (a template construct over fresh names, each fresh name bound to a unique marker) the real
output must equal the expansion that emits the value verbatim. When it does not, the construct kind that
was interpreted identifies the re-interpreting pass; mechanism key = "opacity:<slot kind>-><pass>".
"""
import sys

from rv import core
from rv import c12_model as M

PID = "C12"
LEVEL = "exploration"
TECHNIQUE = ("runtime monitoring: the real Ribosome renders generated templates; outputs, warnings and errors are "
             "compared with an independent single-pass reference expansion of the generator's own template AST; "
             "value opacity is monitored by taint sentinels (constructs over fresh names bound to unique markers)")
RULE = ("Part A case = 1 generated template set (main + up to 3 levels of acyclic includes) x 5 contexts x strict on/off; "
        "Part B case = 1 host template x every (slot location, slot form, sentinel kind) combination; "
        "non-trivial = the template set uses >= 2 construct kinds; distinct = (template shape, binding pattern, strict) "
        "for Part A and (host shape, slot location, slot form, sentinel kind) for Part B")
ASSUMPTIONS = [
    "Part A: literal text, values, loop items and defaults contain no '{{' or '}}' (literal text and string values no brace at all)",
    "blocks are not nested; includes are acyclic and at most 3 levels deep; an include inside an each-body sees the outer context",
    "filters are data: the reference applies the ribosome's own filter callables; a case whose filter raises is not judged",
    "a missing plain variable may be printed as its source text, as nothing or as a short marker naming it; "
    "an unknown include must be printed as a short non-empty marker naming the template",
    "extra warnings are tolerated; in strict mode an error naming a plain variable that is textually present but never "
    "evaluated (dead branch, loop over no items) is tolerated",
    "filtered variables are always bound (the statement does not say how an unbound filtered variable renders); "
    "optional/default/filtered forms of a loop's own names (item/index/first/last/dict keys) are not generated",
    "context names avoid 'template', 'sequence' and 'self' (they collide with the API's own parameters)",
]

# Documentation only (never consulted by the verdict): the mechanism keys this check emits on the unchanged tree.
# The eleven opacity keys share one root cause (values are inserted unshielded and later passes re-scan them);
# "strict-rejects-loop-bound-name" is a separate Part A defect of translate()'s textual required-variable pre-scan.
KNOWN_KEYS_EXPECTED = [
    "opacity:loop-item->loop-specials", "opacity:loop-item->include", "opacity:loop-item->variables",
    "opacity:included-output->parent-variables",
    "opacity:filtered->default", "opacity:filtered->optional", "opacity:filtered->simple",
    "opacity:default->default", "opacity:default->optional", "opacity:default->simple",
    "opacity:optional->simple",
    "strict-rejects-loop-bound-name",
]

_MON = {}


def _classes():
    if not _MON:
        from operon_ai.organelles.ribosome import Ribosome, mRNA

        class MonRibosome(Ribosome):
            """The real renderer; the four anchored passes only gain reach counters."""
            reach = {}

            def _process_conditionals(self, *a, **kw):
                self.reach["reach:_process_conditionals"] = self.reach.get("reach:_process_conditionals", 0) + 1
                return super()._process_conditionals(*a, **kw)

            def _process_loops(self, *a, **kw):
                self.reach["reach:_process_loops"] = self.reach.get("reach:_process_loops", 0) + 1
                return super()._process_loops(*a, **kw)

            def _process_includes(self, *a, **kw):
                self.reach["reach:_process_includes"] = self.reach.get("reach:_process_includes", 0) + 1
                return super()._process_includes(*a, **kw)

            def _process_variables(self, *a, **kw):
                self.reach["reach:_process_variables"] = self.reach.get("reach:_process_variables", 0) + 1
                return super()._process_variables(*a, **kw)

        _MON["Ribosome"] = MonRibosome
        _MON["mRNA"] = mRNA
    return _MON["Ribosome"], _MON["mRNA"]


def teardown_shard(ctx):
    R, _ = _classes()
    for k, v in R.reach.items():
        ctx.count(k, v)


NB = {"quick": 300, "thorough": 5000}      # Part B hosts (x 429 slot/sentinel combinations each)
NA = {"quick": 30000, "thorough": 500000}  # Part A template sets (x 5 contexts each)
CTX_PER_CASE = 5


def plan(tier):
    return {"cases": NB[tier] + NA[tier], "shards": 8 if tier == "quick" else 14,
            "min_nontrivial": 30000, "timeout": 600 if tier == "quick" else 2400,
            "require": {
                # Part A workload actually judged
                "parta_pairs": 50000, "parta_text_compared": 40000, "parta_strict_runs": 15000,
                "missing_var_warning_checked": 3000, "strict_error_expected_and_raised": 1500,
                "unknown_include_checked": 3000, "ref_include_depth1": 25000, "ref_include_depth2": 15000,
                "ref_include_depth3": 5000, "ref_each_iterations": 60000, "ref_each_dict_items": 30000,
                "ref_loop_bound_var": 10000, "ref_dot": 10000,
                "ref_if_true": 15000, "ref_if_false": 8000, "ref_else_taken": 8000, "ref_def_used": 3000,
                "ref_def_bound": 30000, "ref_opt_missing": 3000, "ref_opt_bound": 25000,
                "ref_var_bound": 40000, "ref_var_missing": 8000,
                "ref_filter_upper": 3000, "ref_filter_lower": 3000, "ref_filter_trim": 3000, "ref_filter_title": 3000,
                "ref_filter_length": 3000, "ref_filter_json": 3000, "ref_filter_repr": 3000, "ref_filter_rev": 3000,
                "via_translate_name": 15000, "via_translate_mrna": 15000, "via_synthesize": 15000,
                # Part B sweep
                "partb_combos": 40000, "partb_baseline_ok": 40000, "partb_opaque_ok": 10000,
                # anchored passes of the real renderer entered
                "reach:_process_conditionals": 200000, "reach:_process_loops": 200000,
                "reach:_process_includes": 200000, "reach:_process_variables": 200000,
            }}


def run_case(ctx, n):
    if n < NB[ctx.tier]:
        return case_B(ctx, n)
    return case_A(ctx, n)


# ----------------------------------------------------------------------------- running the real code
VIAS = ["translate_name", "translate_mrna", "synthesize"]


def render_on(rib, seq, page, bind, via):
    """One rendering on an existing renderer ("page0" registered, `page` = the page's mRNA object)."""
    try:
        if via == "translate_name":
            p = rib.translate("page0", **dict(bind))
        elif via == "translate_mrna":
            p = rib.translate(page, **dict(bind))
        else:
            p = rib.synthesize(seq, **dict(bind))
        return ("ok", p.sequence, list(p.warnings))
    except Exception as e:  # judged by the caller
        return ("raise", e, None)


def render_real(templates, bind, strict, via):
    R, mRNA = _classes()
    rib = R(filters=M.custom_filters(), strict=strict, silent=True)
    for name, nodes in templates.items():
        if name != "__main__":
            rib.register_template(mRNA(sequence=M.unparse(nodes), name=name))
    seq = M.unparse(templates["__main__"])
    page = mRNA(sequence=seq, name="page0")
    if via == "translate_name":
        rib.register_template(page)
    return rib, render_on(rib, seq, page, bind, via)


def witness(templates, bind, strict, via, **extra):
    w = {"templates": {k: M.unparse(v) for k, v in templates.items()}, "context": bind, "strict": strict, "via": via}
    w.update(extra)
    return w


# ----------------------------------------------------------------------------- Part A oracle
def judge(ctx, templates, bind, strict, via, prefix="", quiet=False):
    """Compare one real rendering (fresh renderer) with the reference. Returns None if conforming, else a mechanism key.
    quiet=True only computes the verdict (used to localise a mismatch to one construct)."""
    rib, res = render_real(templates, bind, strict, via)
    return assess(ctx, templates, rib.filters, res, bind, strict, via, prefix=prefix, quiet=quiet,
                  tag=None if prefix else "parta")


def assess(ctx, templates, filters, res, bind, strict, via, prefix="", quiet=False, tag=None, extra_witness=None,
           stats_out=None):
    """Judge one rendering result `res` of (templates, bind, strict) against the single-pass expansion.
    `filters` = the (pure) filter callables the reference applies. `tag` selects the coverage counters
    ("parta" keeps the historical names; other tags prefix them); `extra_witness()` is evaluated only on a violation."""
    ref = M.Ref(templates, filters, bind)
    try:
        parts = ref.render("__main__")
    except M.FilterRaised as e:
        if not quiet:
            ctx.count("filter_raised_not_judged")
            if res[0] == "ok":
                ctx.count("filter_raised_but_real_returned")
        return None
    part_a = tag is not None

    def cn(k):
        return k if tag == "parta" else "%s:%s" % (tag, k)

    if not quiet and part_a:     # coverage counters describe the generated workload only (not the Part B hosts)
        for k, v in ref.stats.items():
            ctx.count(cn(k), v)
    if stats_out is not None:
        stats_out.update(ref.stats)

    def fail(mech, what, **extra):
        if not quiet:
            if extra_witness is not None:
                extra.update(extra_witness())
            ctx.violation(prefix + mech, what, witness(templates, bind, strict, via, **extra))
        return prefix + mech

    if res[0] == "raise":
        exc = res[1]
        if not strict:
            return fail("render-raises", "rendering raised %s in non-strict mode" % type(exc).__name__, error=repr(exc))
        if ref.missing:
            if not quiet and part_a:
                ctx.count(cn("strict_error_expected_and_raised"))
            return None
        occ = M.plain_occurrences(templates)
        named = [v for v in occ if v not in bind and M.names_var([str(exc)], v)]
        if isinstance(exc, ValueError) and named:
            # tolerated only if some occurrence of the named variable was never evaluated (dead text);
            # if every occurrence was evaluated and none was missing, each-loops bound all of them
            bound_by_loop = [v for v in named if occ[v] <= ref.evaluated]
            if bound_by_loop:
                return fail("strict-rejects-loop-bound-name",
                            "strict mode refused a template whose only 'missing' name %r is bound by its each-loop"
                            % bound_by_loop[0], error=repr(exc), expected=M.concrete(parts))
            if not quiet and part_a:
                ctx.count(cn("strict_error_for_dead_variable_tolerated"))
            return None
        return fail("strict-spurious-error", "strict mode raised %s although no variable is missing"
                    % type(exc).__name__, error=repr(exc), expected=M.concrete(parts))
    _, text, warnings = res
    if strict:
        if not quiet and part_a:
            ctx.count(tag + "_strict_returned")
        if ref.missing:
            return fail("strict-missing-not-raised", "strict mode rendered although %r is missing" % ref.missing[0],
                        actual=text, warnings=warnings)
    if not quiet and part_a:
        ctx.count(tag + "_text_compared")
    if not M.matches(parts, text):
        mech = "render-mismatch"
        if not quiet and tag in (None, "parta"):
            # localising costs extra renderings (on fresh renderers): do it for the first mismatches of a shard only
            seen = sum(v for k, v in ctx.violation_counts.items() if "render-mismatch" in k)
            mech += ":" + (localise(ctx, templates, bind, strict, via) if seen < 60 else "not-localised")
        return fail(mech, "rendered text differs from the single-pass expansion",
                    expected=M.concrete(parts), actual=text, warnings=warnings)
    if not strict:
        for v in sorted(set(ref.missing)):
            if not quiet and part_a:
                ctx.count(cn("missing_var_warning_checked"))
            if not M.names_var(warnings, v):
                return fail("missing-var-no-warning", "missing variable %r rendered without a warning naming it" % v,
                            actual=text, warnings=warnings)
    if not quiet and part_a:
        ctx.count(cn("unknown_include_checked"), len(ref.unknown))
    return None


def localise(ctx, templates, bind, strict, via):
    """Which single construct already misrenders on its own? (stable classifier for mismatches)"""
    def walk(nodes, label):
        for nd in nodes:
            if nd[0] == "text":
                continue
            t = dict(templates)
            t["__main__"] = [("text", "<"), nd, ("text", ">")]
            if judge(ctx, t, bind, strict, via, quiet=True):
                inner = None
                if nd[0] == "inc" and nd[1] in templates:
                    inner = walk(templates[nd[1]], label + "inc>")
                elif nd[0] == "if":
                    inner = walk(nd[2] + (nd[3] or []), label + "if>")
                return inner or label + nd[0]
        return None
    return walk(templates["__main__"], "") or "interaction"


def binding_pattern(templates, bind):
    plain, filt, cond, each = M.used_names(templates)
    pat = []
    for nme in sorted(plain | filt | cond | each):
        if nme not in bind:
            pat.append("-")
        else:
            v = bind[nme]
            t = type(v).__name__
            if isinstance(v, list):
                t += "%d%s" % (len(v), "d" if any(isinstance(i, dict) for i in v) else "")
            elif not v:
                t += "0"
            pat.append(t)
    return tuple(pat)


def case_A(ctx, n):
    rng = ctx.rng("A", n)
    templates, names = M.gen_templates(rng)
    kinds = M.construct_kinds(templates)
    shp = tuple(sorted((k, M.shape(v)) for k, v in templates.items()))
    for j in range(CTX_PER_CASE):
        p_bound = rng.choice([1.0, 1.0, 0.85, 0.6])
        bind = M.gen_context(rng, templates, p_bound)
        strict = rng.random() < 0.35
        via = VIAS[(n + j) % 3]
        ctx.count("parta_pairs")
        ctx.count("via_" + via)
        if strict:
            ctx.count("parta_strict_runs")
        mech = judge(ctx, templates, bind, strict, via)
        if len(kinds) >= 2:
            ctx.nontrivial(("A", shp, binding_pattern(templates, bind), strict))
        if j == 0 and n % 997 == 0:
            ctx.sample(witness(templates, bind, strict, via, part="A", verdict=mech or "conforms"))


# ----------------------------------------------------------------------------- Part B: taint sentinels
MK = "zmk7"
DFLT = "zmk d"


def wrap(x):
    return "[s:" + x + ":s]"


VAR_FORMS = ["simple", "optional", "default", "filtered:trim", "filtered:lower", "filtered:json", "filtered:repr"]
VAR_LOCS = ["top", "if", "else", "eachbody", "inc1", "inc2", "inc3"]
LOOP_FORMS = ["item", "dot", "field"]
LOOP_LOCS = ["top", "inc1", "inc2"]
COMMON_SENT = ["simple", "optional", "filtered", "default", "include", "if", "each"]
LOOP_SENT = {"item": ["ls-index", "ls-first", "ls-last"], "dot": ["ls-item", "ls-index", "ls-last"], "field": ["ls-field"]}
SENT_PASS = {"simple": "simple", "optional": "optional", "filtered": "filtered", "default": "default",
             "default-echo": "default", "include": "include", "if": "conditionals", "each": "loops",
             "ls-index": "loop-specials", "ls-first": "loop-specials", "ls-last": "loop-specials",
             "ls-item": "loop-specials", "ls-field": "loop-specials"}

COMBOS = ([(loc, form, s) for form in VAR_FORMS for loc in VAR_LOCS for s in COMMON_SENT]
          + [(loc, "default", "default-echo") for loc in ("top", "if")]
          + [(loc, form, s) for form in LOOP_FORMS for loc in LOOP_LOCS for s in COMMON_SENT + LOOP_SENT[form]])


def mechanism_key(loc, form, pass_):
    if form in LOOP_FORMS:
        return "opacity:loop-item->%s" % ("variables" if pass_ in M.VAR_ORDER else pass_)
    base = form.split(":")[0]
    if loc.startswith("inc") and pass_ in M.VAR_ORDER and not M.VAR_ORDER[base] < M.VAR_ORDER[pass_]:
        return "opacity:included-output->parent-variables"
    return "opacity:%s->%s" % (base, pass_)


def build_B(rng, host, host_bind, loc, form, sk):
    """Insert one value slot into the host. Returns (templates, make_bind(value), construct, signature)."""
    T = {k: list(v) for k, v in host.items()}
    extra = {}
    n_items = rng.choice([2, 3])
    k = rng.randrange(n_items)
    if form in LOOP_FORMS:
        slot = {"item": ("var", "item"), "dot": ("dot",), "field": ("var", "zf")}[form]
        node = ("each", "zl", [("text", "<"), slot, ("text", ">")], " ")

        def place(b, v):
            items = []
            for i in range(n_items):
                x = v if i == k else "zo%d" % i
                items.append({"zf": x, "zg": MK} if form == "field" else x)
            b["zl"] = items
    else:
        base, _, flt = form.partition(":")
        slot = {"simple": ("var", "zs"), "optional": ("opt", "zs"), "default": ("def", "zs", "zd fallback"),
                "filtered": ("filt", "zs", flt)}[base]
        node = slot
        if loc == "if":
            node = ("if", "zc", [("text", "("), slot, ("text", ")")], None, " ")
            extra["zc"] = True
        elif loc == "else":
            node = ("if", "zc", [("text", "no")], [("text", "("), slot], " ")
            extra["zc"] = 0
        elif loc == "eachbody":
            node = ("each", "zl", [("dot",), slot, ("text", ",")], " ")
            extra["zl"] = ["u", "w"]

        def place(b, v):
            b["zs"] = v
    # sentinel
    construct = {"simple": "{{zq}}", "optional": "{{?zq}}", "filtered": "{{zq|lower}}", "default": "{{zq|%s}}" % DFLT,
                 "default-echo": "{{zq|%s}}" % DFLT, "include": "{{>zqt}}", "if": "{{#if zq}}%s{{/if}}" % MK,
                 "each": "{{#each zq}}%s{{/each}}" % MK, "ls-index": "{{index}}", "ls-first": "{{first}}",
                 "ls-last": "{{last}}", "ls-item": "{{item}}", "ls-field": "{{zg}}"}[sk]
    sig = MK
    if sk in ("simple", "optional", "filtered"):
        extra["zq"] = MK
    elif sk in ("default", "default-echo"):
        sig = DFLT
    elif sk == "include":
        T["zqt"] = [("text", MK)]
    elif sk == "if":
        extra["zq"] = 1
    elif sk == "each":
        extra["zq"] = [0]
    elif sk == "ls-index":
        sig = str(k)
    elif sk == "ls-first":
        sig = str(k == 0)
    elif sk == "ls-last":
        sig = str(k == n_items - 1)
    elif sk == "ls-item":
        sig = wrap(construct)
    # placement
    nodes = [("text", "|"), node, ("text", "|")]
    if sk == "default-echo":
        nodes.append(("def", "zq", DFLT))   # the same construct also occurs literally later in the template
    if loc.startswith("inc"):
        depth = int(loc[3])
        for d in range(1, depth + 1):
            inner = nodes if d == depth else [("inc", "zi%d" % (d + 1))]
            T["zi%d" % d] = [("text", "%d(" % d)] + inner + [("text", ")")]
        nodes = [("inc", "zi1")]
    main = T["__main__"]
    pos = rng.randint(0, len(main))
    T["__main__"] = main[:pos] + nodes + main[pos:]

    def make_bind(v):
        b = dict(host_bind)
        b.update(extra)
        place(b, v)
        return b
    return T, make_bind, construct, sig


def case_B(ctx, n):
    rng = ctx.rng("B", n)
    host, names = M.gen_templates(rng, max_main=4, specials_as_outer=False)
    host_bind = M.gen_context(rng, host, 1.0)
    for s in M.SPECIALS:     # keep one interpretation per sentinel: no outer binding of the loop's own names
        host_bind.pop(s, None)
    hshape = tuple(sorted(M.construct_kinds(host)))   # coarse on purpose: 429 combinations per host
    for ci, (loc, form, sk) in enumerate(COMBOS):
        crng = ctx.rng("B", n, ci)
        T, make_bind, construct, sig = build_B(crng, host, host_bind, loc, form, sk)
        via = VIAS[(n + ci) % 3]
        ctx.count("partb_combos")
        # 1. same shape with an inert value: must conform (so that a grammar bug is never booked as an opacity finding)
        if judge(ctx, T, make_bind(wrap("zinert")), False, via, prefix="partb-baseline:") is not None:
            continue
        ctx.count("partb_baseline_ok")
        # 2. the value carries a construct: the output must be the verbatim expansion
        bind = make_bind(wrap(construct))
        rib, res = render_real(T, bind, False, via)
        ref = M.Ref(T, rib.filters, bind)
        try:
            parts = ref.render("__main__")
        except M.FilterRaised:
            ctx.count("filter_raised_not_judged")
            continue
        ctx.nontrivial(("B", hshape, loc, form, sk))
        slotname = "loop-item" if form in LOOP_FORMS else form.split(":")[0]
        if res[0] == "raise":
            ctx.violation("opacity-render-raises:%s" % slotname,
                          "rendering raised %s when a value contained %s" % (type(res[1]).__name__, construct),
                          witness(T, bind, False, via, error=repr(res[1]), slot=[loc, form], sentinel=sk))
            continue
        text = res[1]
        if M.matches(parts, text):
            ctx.count("partb_opaque_ok")
            ctx.count("opaque_ok:%s" % slotname)
            continue
        # 3. which pass interpreted it? compare with the expansion in which exactly this construct was expanded
        ibind = make_bind(wrap(sig))
        iparts = M.Ref(T, rib.filters, ibind).render("__main__")
        w = witness(T, bind, False, via, expected=M.concrete(parts), actual=text, slot=[loc, form], sentinel=sk)
        if M.matches(iparts, text):
            key = mechanism_key(loc, form, SENT_PASS[sk])
            ctx.count("reinterpreted:" + key[len("opacity:"):])
            ctx.violation(key, "a %s value containing %s was re-interpreted by the %s pass (slot at %s)"
                          % (slotname, construct, SENT_PASS[sk], loc), w)
        else:
            ctx.violation("opacity-unclassified:%s:%s" % (slotname, sk),
                          "output with a %s value containing %s is neither the verbatim nor the single-interpretation expansion"
                          % (slotname, construct), w)
        if ci % 97 == 0:
            ctx.sample(dict(w, part="B"))


if __name__ == "__main__":
    core.main(sys.modules[__name__])
