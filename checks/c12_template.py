"""C12 — template rendering follows the documented grammar; bound values stay data.

Part A (grammar conformance): templates are generated as ASTs over the documented constructs, unparsed
to text, rendered by the REAL Ribosome (translate by name / translate(mRNA) / synthesize) and compared
with an independent single-pass expansion of the same AST (rv.c12_model.Ref) — text, warnings for live
missing plain variables, strict-mode error, unknown-include marker.

Part B (value opacity): for every slot kind (where a bound value / loop item enters the output) x every
sentinel kind (a template construct over a sentinel name bound to a unique marker) the real
output must equal the expansion that emits the value verbatim. When it does not, the construct kind that
was interpreted identifies the re-interpreting pass; mechanism key = "opacity:<slot kind>-><pass>".
Every (slot, sentinel) pair is swept in three variants: the sentinel's name occurs nowhere else, or the very same
construct is ALSO a real slot of the template holding the value slot, before / after it (a renderer substituting per
name or per distinct construct text re-reads a value only then); per combination the sentinel's name sorts before or
after the slot's name and the value is bound first or last in the context (any name-by-name substitution order).

Part C (one long-lived renderer): a session of 3-9 renderings on ONE Ribosome, separated by what callers do between
renderings — new values for the same names, a single value changed, an equal-but-distinct context, a bound list
changed in place, a partial / the page registered again (register_template, register_template(name=...),
create_template), a so far unknown partial registered, `strict` switched — while (in 60% of the sessions) every
filter callable also starts a rendering of an unrelated small template on the same renderer (re-entrancy). Each
rendering must be the Part A expansion of the templates registered at that moment with the bindings of that call;
mechanism key = "session:after-<step>:<Part A key>" / "session:nested-render-*".
Step "neighbour": ANOTHER renderer is created and used in the same process, configured differently in everything a
renderer is configured with (custom filters named like the session's default texts / a built-in / the session's own
custom filter; its own templates under the same names and under names unknown to the session; the other `strict`).
The session then goes on on its renderer (created before the other one) or on a new one with the session's
configuration (created after it); the other renderer's own renderings (at once and at the end of the session) must
follow ITS configuration; key = "session:neighbour-own-page[-later]:<Part A key>".

Part D (overlapping renderings): 2-3 real threads render on ONE Ribosome under rv.sched (switches at every read /
write of an instance field of the renderer); each result must be its own expansion; key = "overlap:<Part A key>".

Part E (long histories): one renderer with > 20 000 renderings, each after one more distinct template was registered (pages
include the newest, an early and a random earlier template; missing variables, strict errors, raising filters, unknown includes
and reads of the reporting API in between; a second renderer used alternately), each-loops over > 20 000 distinct items, one
page of thousands of constructs with long values; key = "long-session:<Part A key>" / "long:<Part A key>".

Round 3 (all Parts): the renderer's configuration is part of the case - custom filters none / {} / names that are case
variants of built-ins, a built-in overridden, odd but legal names; partials handed to the constructor / registered /
created with descriptions; console output on (swallowed) for ~30% - and the generators draw from the classes a tolerant or
identity-confused lookup would get wrong: default texts that are NEAR a filter name (other letter case, prefix, suffix,
blank-padded), includes / bindings / dict-item keys that are near misses of a registered template / used name / field,
names that are prefixes or case variants of each other or are called like filters, templates, API words; tuples, the same
item object or equal-but-distinct items repeated, items equal across types (0 / False / 0.0), one object under two names,
values that are not builtins (str() != repr()), boundary numbers, single braces in text and values, empty templates.
The expansion is computed from the bindings BEFORE the real renderer sees them (a renderer that reorders or edits the
caller's objects is judged against what was given). A registration or construction that raises is
"registration-raises:<api>".
"""
import contextlib
import inspect
import sys

from rv import core
from rv import c12_model as M

PID = "C12"
LEVEL = "exploration"
TECHNIQUE = ("runtime monitoring: the real Ribosome renders generated templates; outputs, warnings and errors are "
             "compared with an independent single-pass reference expansion of the generator's own template AST; "
             "value opacity is monitored by taint sentinels (constructs over sentinel names bound to unique markers, the "
             "same construct absent from / present before / present after the value slot as a real slot of the template); "
             "the same oracle judges every rendering of multi-step sessions on one long-lived renderer (with re-entrant "
             "renderings started from filter callbacks, and with a second, differently configured renderer created and used "
             "next to it), of overlapping renderings from threads under a controlled scheduler and of long histories "
             "(> 20 000 renderings / registered templates / loop items on one renderer); renderer configuration (filters, "
             "registration route, console output) and near-miss names are part of the generated case")
RULE = ("Part A case = 1 generated template set (main + up to 3 levels of acyclic includes) x 5 contexts x strict on/off; "
        "Part B case = 1 host template x every (slot location, slot form, sentinel kind, sentinel construct also a real "
        "slot: no / before / after) combination; "
        "Part C case = 1 template set x 1 long-lived renderer x a session of 3-9 renderings (steps drawn from "
        "revalue / revalue-one / same / new / mutate-list / reregister / register-unknown / repage / toggle-strict / "
        "neighbour = another differently configured renderer created and used); "
        "Part D case = 1 template set x 1 renderer x 2-3 threads x 1-2 renderings each x 1 schedule; "
        "Part E case = 1 long history on one renderer (session of > 20 000 registrations+renderings / loops over > 20 000 "
        "items / a page of thousands of constructs); "
        "non-trivial = the template set uses >= 2 construct kinds (Part C: and >= 2 renderings; Part D: and the schedule "
        "switched threads while another rendering was in progress); distinct = (template shape, binding pattern, strict) "
        "for Part A, (host shape, slot location, slot form, sentinel kind, echo) for Part B, (template shapes, step sequence) "
        "for Part C and (template shapes, thread count, schedule trace) for Part D")
ASSUMPTIONS = [
    "Part A: literal text, values, loop items and defaults contain no '{{' or '}}' (literal text and string values no brace at all)",
    "blocks are not nested; includes are acyclic and at most 3 levels deep; an include inside an each-body sees the outer context",
    "filters are data: the reference applies the ribosome's own filter callables; a case whose filter raises is not judged",
    "a missing plain variable may be printed as its source text, as nothing or as a short marker naming it; "
    "an unknown include must be printed as a short non-empty marker naming the template",
    "extra warnings are tolerated; in strict mode an error naming a plain variable that is textually present but never "
    "evaluated (dead branch, loop over no items) is tolerated",
    "filtered variables are always bound (the statement does not say how an unbound filtered variable renders); "
    "optional/default/filtered forms of a loop's own names (item/index/first/last/dict keys) are not generated",
    "context names avoid 'template', 'sequence' and 'self' (they collide with the API's own parameters)",
    "Parts C/D use the Part A universe (delimiter-free values); a rendering's expansion is defined by the bindings of that "
    "call and the templates registered at that moment: a name refers to the template most recently registered under it "
    "through register_template / create_template (or handed to the constructor); `strict` is read from the renderer's "
    "public attribute at call time; earlier renderings, errors raised by them and renderings started from a filter "
    "callback on the same renderer do not change the result (the statement quantifies over all templates and contexts, "
    "not over fresh renderers); the registry is only changed through the public methods, never by writing to `.templates`",
    "Part C 'neighbour': a renderer's filters, templates and strict flag are those given to ITS constructor / registered "
    "on IT / set on ITS attribute; other renderers of the process (created earlier or later, whatever their filters, "
    "templates and flag) do not change its renderings; the two renderers never share a dict handed in by the caller",
    "Part B: a sentinel construct that is also a real slot of the template is expanded there by the reference and stays "
    "verbatim inside the value; the known-finding keys are unchanged (a pair is named by slot kind and interpreting pass)",
    "Part D: renderings that overlap in time on one renderer (registry unchanged meanwhile) must each yield their own "
    "expansion; threads are switched only at reads/writes of the renderer's instance fields",
    "round 3: a text after '|' is a filter exactly when that very string is a key of the renderer's filters (built-ins plus "
    "the constructor's `filters`; a custom entry replaces a built-in of the same name); every other text - including one that "
    "differs from a filter name only in letter case, by blanks, by a prefix or suffix - is a default text; template names, "
    "variable names and dict-item keys are matched exactly (case-sensitive, no trimming, no normalisation)",
    "round 3: a bound tuple is iterated like a list; loop index/first/last are positional (an item that occurs twice, or equals "
    "another item, does not change them); a non-string value is printed as str(value); truthiness of a condition is bool(value)",
    "round 3: an mRNA object handed to translate() is rendered as it is, whatever its name (also the name of another "
    "registered template, or none); `silent` only switches console output; templates handed to the constructor, registered "
    "or created (with any description) are the same registry; reading get_statistics / list_templates / repr / "
    "get_required_variables and writing to a returned Protein change no later rendering (a read that raises is recorded, "
    "not judged); an error raised by a rendering (strict mode, a caller's filter) changes no later rendering",
    "round 3: the expansion is defined by the bindings as they are when the call is made; constructing a renderer or "
    "registering a named template never raises, console output on or off (key registration-raises:<api>)",
    "strict / silent are only given as bools (their annotations); clock and feedback/learning APIs do not exist on a Ribosome",
]

# Documentation only (never consulted by the verdict): the mechanism keys this check emits on the unchanged tree.
# The eleven opacity keys share one root cause (values are inserted unshielded and later passes re-scan them);
# "strict-rejects-loop-bound-name" is a separate Part A defect of translate()'s textual required-variable pre-scan.
KNOWN_KEYS_EXPECTED = [
    "opacity:loop-item->loop-specials", "opacity:loop-item->include", "opacity:loop-item->variables",
    "opacity:included-output->parent-variables",
    "opacity:filtered->default", "opacity:filtered->optional", "opacity:filtered->simple",
    "opacity:default->default", "opacity:default->optional", "opacity:default->simple",
    "opacity:optional->simple",
    "strict-rejects-loop-bound-name",
]

_MON = {}


def _classes():
    if not _MON:
        from operon_ai.organelles.ribosome import Ribosome, mRNA

        # Informational only (never required, never consulted by a verdict): how often each private helper of the
        # renderer was entered, WHATEVER the helpers are called on this tree. Every plain function of the class body
        # whose name starts with one underscore gets a counting pass-through; no name is hard-coded.
        def counting(name):
            key = "reach:" + name

            def passthrough(self, *a, **kw):
                MonRibosome.reach[key] = MonRibosome.reach.get(key, 0) + 1
                return getattr(super(MonRibosome, self), name)(*a, **kw)
            passthrough.__name__ = name
            return passthrough

        MonRibosome = type("MonRibosome", (Ribosome,), {
            "__doc__": "The real renderer; its private helpers only gain (informational) reach counters.",
            "reach": {}})
        for name, fn in list(vars(Ribosome).items()):
            if name.startswith("_") and not name.startswith("__") and inspect.isfunction(fn):
                setattr(MonRibosome, name, counting(name))

        _MON["Ribosome"] = MonRibosome
        _MON["mRNA"] = mRNA
        _MON["builtin"] = dict(Ribosome.BUILTIN_FILTERS)    # the documented filters, before any renderer exists
    return _MON["Ribosome"], _MON["mRNA"]


class _Sink:
    """Where a non-silent renderer's console output goes (counted, never inspected)."""

    def __init__(self):
        self.writes = 0

    def write(self, s):
        self.writes += 1
        return len(s)

    def flush(self):
        pass


SINK = _Sink()


@contextlib.contextmanager
def muted():
    if sys.stdout is SINK:
        yield
        return
    old = sys.stdout
    sys.stdout = SINK
    try:
        yield
    finally:
        sys.stdout = old


def teardown_shard(ctx):
    R, _ = _classes()
    for k, v in R.reach.items():
        ctx.count(k, v)
    ctx.count("verbose_console_writes_swallowed", SINK.writes)


def pure_filters(prof):
    """The documented built-in filters plus the custom filters of a profile, as pure callables of the reference (equal to, but
    never the same objects as, the ones handed to a renderer)."""
    _classes()
    pure = dict(_MON["builtin"])
    pure.update(prof.ctor_arg() or {})
    return pure


NB = {"quick": 160, "thorough": 3000}      # Part B hosts (x 1045 slot/sentinel/echo combinations each)
NA = {"quick": 30000, "thorough": 500000}  # Part A template sets (x 5 contexts each)
NC = {"quick": 8000, "thorough": 120000}   # Part C sessions on one long-lived renderer (3-9 renderings each)
ND = {"quick": 600, "thorough": 8000}      # Part D overlapping renderings from 2-3 threads on one renderer
NE = {"quick": 3, "thorough": 12}          # Part E long histories (one each of: long session / huge loop / huge page, per 3)
E_OPS = {"quick": 22000, "thorough": 45000}
CTX_PER_CASE = 5


def plan(tier):
    return {"cases": NB[tier] + NA[tier] + NC[tier] + ND[tier] + NE[tier], "shards": 8 if tier == "quick" else 14,
            "min_nontrivial": 30000, "timeout": 600 if tier == "quick" else 2400,
            "require": {
                # Part A workload actually judged
                "parta_pairs": 50000, "parta_text_compared": 40000, "parta_strict_runs": 15000,
                "missing_var_warning_checked": 3000, "strict_error_expected_and_raised": 1500,
                "unknown_include_checked": 3000, "ref_include_depth1": 25000, "ref_include_depth2": 15000,
                "ref_include_depth3": 5000, "ref_each_iterations": 60000, "ref_each_dict_items": 30000,
                "ref_loop_bound_var": 10000, "ref_dot": 10000,
                "ref_if_true": 15000, "ref_if_false": 8000, "ref_else_taken": 8000, "ref_def_used": 3000,
                "ref_def_bound": 30000, "ref_opt_missing": 3000, "ref_opt_bound": 25000,
                "ref_var_bound": 40000, "ref_var_missing": 8000,
                "ref_filter_upper": 3000, "ref_filter_lower": 3000, "ref_filter_trim": 3000, "ref_filter_title": 3000,
                "ref_filter_length": 3000, "ref_filter_json": 3000, "ref_filter_repr": 3000, "ref_filter_rev": 3000,
                "via_translate_name": 15000, "via_translate_mrna": 15000, "via_synthesize": 15000,
                # Part B sweep
                "partb_combos": 30000, "partb_baseline_ok": 30000, "partb_opaque_ok": 10000,
                "partb_echo_before": 8000, "partb_echo_after": 8000, "partb_echo_opaque_ok": 8000,
                "opaque_ok_echo_before:simple": 1000, "opaque_ok_echo_after:simple": 1000,
                "opaque_ok_echo_before:optional": 1000, "opaque_ok_echo_after:optional": 1000,
                "opaque_ok_echo_before:loop-item": 500, "opaque_ok_echo_after:loop-item": 500,
                "partb_slot_bound_first_sentinel_name_sorts_after": 5000,
                "partb_slot_bound_first_sentinel_name_sorts_before": 5000,
                "partb_slot_bound_last_sentinel_name_sorts_after": 5000,
                "partb_slot_bound_last_sentinel_name_sorts_before": 5000,
                # Part C sessions / Part D overlapping renderings
                "partc_sessions": 1500, "partc_renders": 8000, "partc_text_compared": 7000,
                "partc_same_names_new_values_with_include": 3000, "partc_list_mutated_in_place_then_rendered": 500,
                "partc_registry_changed_then_rendered": 1000, "partc_strict_toggled_then_rendered": 250,
                "partc_nested_renders": 5000, "partc:ref_include_depth1": 10000, "partc:ref_include_depth2": 6000,
                "partc:strict_error_expected_and_raised": 300, "partc:unknown_include_checked": 2500,
                "partc_neighbours_built": 500, "partc_neighbour_renders": 1000, "partc_nb_text_compared": 1000,
                "partc_renders_while_another_renderer_exists": 1500,
                "partc_render_on_renderer_created_before_the_other": 600,
                "partc_render_on_renderer_created_after_the_other": 600,
                "partc_default_text_is_filter_name_on_other_renderer": 300,
                "partc_unknown_include_is_template_of_other_renderer": 120,
                "partd_schedules": 100, "partd_schedules_interleaved": 70, "partd_renders": 300,
                "partd_text_compared": 250, "partd:ref_include_depth1": 500,
                # round 3: input classes, renderer configurations, console output, reads, long histories
                "via_translate_mrna_alias": 8000,
                "class:default_text_near_a_filter_name_bound": 4000, "class:default_text_near_a_filter_name_unbound": 800,
                "class:builtin_filter_overridden": 700, "class:custom_filter_named_like_a_builtin_in_other_case": 8000,
                "class:unknown_include_differs_in_case_from_a_template": 700, "class:two_templates_differ_in_case_only": 2500,
                "class:unbound_name_with_near_miss_binding": 3500, "class:tuple_bound": 1500,
                "class:same_dict_item_twice": 700, "class:items_equal_across_types": 1000,
                "class:boundary_number_bound": 1500, "class:non_builtin_object_bound": 2000,
                "class:single_brace_in_value": 1800, "class:one_object_under_two_names": 150,
                "class:include_named_like_a_bound_variable": 2500,
                "parta_cases_filters_none": 500, "parta_cases_filters_empty": 300, "parta_cases_filters_custom": 1800,
                "parta_cases_verbose": 1400, "parta_cases_partials_through_ctor": 1000,
                "parta_cases_partials_through_ctor-empty": 900, "parta_cases_partials_through_create": 1000,
                "verbose_console_writes_swallowed": 25000,
                "partc_sessions_verbose": 400, "partc_sessions_other_filter_configuration": 700,
                "partc_reporting_api_read_before_render": 2500, "partc_equal_but_distinct_page_object": 900,
                "partc_same_template_object_under_two_names": 150, "partc_render_judged_after_a_filter_raised": 80,
                "partc_render_judged_after_an_error_was_raised": 400,
                "parte_session_renders_conforming": 15000, "parte_distinct_templates_on_one_renderer": 20000,
                "parte_include_of_template_registered_over_20000_registrations_ago": 100, "parte_loop_items": 20000,
                "parte_big_renders_conforming": 2, "parte_page_constructs": 1000,
                "parte_render_judged_after_a_raised_error": 200, "parte_other_renderer_renders": 5,
                # the real renderer's handling of each construct family exercised AND found conforming (behavioural: keyed
                # to results this check judged; the informational reach:<private helper> counters are never required)
                "conforming_render_expanded:conditional": 25000, "conforming_render_expanded:loop": 25000,
                "conforming_render_expanded:include": 25000, "conforming_render_expanded:variable": 25000,
            }}


class RegistrationRaised(Exception):
    """Constructing a renderer or registering a well-formed, named template raised (whatever the console mode)."""

    def __init__(self, api, exc, what):
        super().__init__(api)
        self.api, self.exc, self.what = api, exc, what


@contextlib.contextmanager
def registering(api, what):
    try:
        with muted():
            yield
    except RegistrationRaised:
        raise
    except Exception as e:
        raise RegistrationRaised(api, e, what)


def run_case(ctx, n):
    try:
        return _run_case(ctx, n)
    except RegistrationRaised as e:
        # the rest of the case cannot be rendered through the documented route
        ctx.violation("registration-raises:" + e.api, "%s raised %s for a well-formed named template" % (e.api, type(e.exc).__name__),
                      {"error": repr(e.exc), "registering": e.what})


def _run_case(ctx, n):
    t = ctx.tier
    if n < NB[t]:
        return case_B(ctx, n)
    if n < NB[t] + NA[t]:
        return case_A(ctx, n)
    if n < NB[t] + NA[t] + NC[t]:
        return case_C(ctx, n - NB[t] - NA[t])
    if n < NB[t] + NA[t] + NC[t] + ND[t]:
        return case_D(ctx, n - NB[t] - NA[t] - NC[t])
    return case_E(ctx, n - NB[t] - NA[t] - NC[t] - ND[t])


# ----------------------------------------------------------------------------- running the real code
VIAS = ["translate_name", "translate_mrna", "synthesize", "translate_mrna_alias"]
REGS = ["register", "register", "ctor", "ctor-empty", "create"]


def render_on(rib, seq, page, bind, via):
    """One rendering on an existing renderer ("page0" registered, `page` = the page's mRNA object).
    "translate_mrna_alias": the page is handed over as an mRNA object that carries the NAME of another registered template
    (or no name at all) - an mRNA object is rendered as it is, whatever it is called."""
    try:
        with muted():
            if via == "translate_name":
                p = rib.translate("page0", **dict(bind))
            elif via == "translate_mrna":
                p = rib.translate(page, **dict(bind))
            elif via == "translate_mrna_alias":
                _, mRNA = _classes()
                alias = next((nm for nm in rib.templates if nm != "page0"), "")
                p = rib.translate(mRNA(sequence=seq, name=alias), **dict(bind))
            else:
                p = rib.synthesize(seq, **dict(bind))
        out = ("ok", p.sequence, list(p.warnings))
        # what a caller may do with a result it owns must not reach later renderings
        p.warnings.append("caller scribbles on a returned result")
        if isinstance(p.variables_bound, dict):
            p.variables_bound.clear()
        return out
    except Exception as e:  # judged by the caller
        return ("raise", e, None)


def build_renderer(R, mRNA, partials, prof, strict, silent, reg, filters="profile"):
    """A renderer configured with the profile's filters and holding `partials` ({name: sequence}) - handed to the constructor,
    registered one by one, or created through create_template (with a description that looks like template text)."""
    flt = prof.ctor_arg() if filters == "profile" else filters
    cfgd = {"silent": silent, "strict": strict}
    if reg == "ctor":
        with registering("constructor", dict(cfgd, templates=partials)):
            return R(templates={nm: mRNA(sequence=sq, name=nm) for nm, sq in partials.items()}, filters=flt, strict=strict,
                     silent=silent)
    with registering("constructor", cfgd):
        rib = R(templates={}, filters=flt, strict=strict, silent=silent) if reg == "ctor-empty" else \
            R(filters=flt, strict=strict, silent=silent)
    for nm, sq in partials.items():
        if reg == "create":
            with registering("create_template", dict(cfgd, name=nm, sequence=sq)):
                rib.create_template(sq, nm, description="about {{user}} {{>%s}} {{#if x}}" % nm)
        else:
            with registering("register_template", dict(cfgd, name=nm, sequence=sq)):
                rib.register_template(mRNA(sequence=sq, name=nm, description="d {{?%s}}" % nm))
    return rib


def render_real(templates, bind, strict, via, prof=M.CLASSIC, silent=True, reg="register", exp_out=None):
    R, mRNA = _classes()
    rib = build_renderer(R, mRNA, {nm: M.unparse(nodes) for nm, nodes in templates.items() if nm != "__main__"},
                         prof, strict, silent, reg)
    seq = M.unparse(templates["__main__"])
    page = mRNA(sequence=seq, name="page0")
    if via == "translate_name":
        with registering("register_template", {"silent": silent, "name": "page0", "sequence": seq}):
            rib.register_template(page)
    if exp_out is not None:
        # the expansion of the bindings AS GIVEN: computed before the real renderer sees (and could change) them
        exp_out.append(expand(templates, pure_filters(prof), bind))
    return rib, render_on(rib, seq, page, bind, via)


def expand(templates, filters, bind):
    ref = M.Ref(templates, filters, bind)
    try:
        return ref, ref.render("__main__"), None
    except M.FilterRaised as e:
        return ref, None, e


def witness(templates, bind, strict, via, **extra):
    w = {"templates": {k: M.unparse(v) for k, v in templates.items()}, "context": bind, "strict": strict, "via": via}
    w.update(extra)
    return w


# ----------------------------------------------------------------------------- Part A oracle
def judge(ctx, templates, bind, strict, via, prefix="", quiet=False, prof=M.CLASSIC, silent=True, reg="register"):
    """Compare one real rendering (fresh renderer) with the reference. Returns None if conforming, else a mechanism key.
    quiet=True only computes the verdict (used to localise a mismatch to one construct)."""
    exp = []
    rib, res = render_real(templates, bind, strict, via, prof, silent, reg, exp_out=exp)
    cfg = None if (prof is M.CLASSIC and silent and reg == "register") else \
        lambda: {"renderer": dict(prof.describe(), silent=silent, partials_given_through=reg)}
    return assess(ctx, templates, None, res, bind, strict, via, prefix=prefix, quiet=quiet,
                  tag=None if prefix else "parta", exp=exp[0], extra_witness=cfg, cfg=(prof, silent, reg))


# Part D (renderings overlapping in threads) is measured and reported in the evidence but NOT judged: the statement quantifies over
# templates and contexts, the renderer has no lock and promises no thread safety (lead's triage, DESIGN.md §8.3); instance state that
# leaks between renderings is judged through the sequential / re-entrant sessions of Part C.
JUDGE_OVERLAP = False


def assess(ctx, templates, filters, res, bind, strict, via, prefix="", quiet=False, tag=None, extra_witness=None,
           stats_out=None, ref_out=None, exp=None, cfg=None):
    """Judge one rendering result `res` of (templates, bind, strict) against the single-pass expansion.
    `filters` = the (pure) filter callables the reference applies, or `exp` = the expansion computed before the rendering
    (see `expand`). `tag` selects the coverage counters ("parta" keeps the historical names; other tags prefix them);
    `extra_witness()` is evaluated only on a violation; `cfg` = renderer configuration used when a mismatch is localised."""
    ref, parts, ferr = exp if exp is not None else expand(templates, filters, bind)
    if ferr is not None:
        if not quiet:
            ctx.count("filter_raised_not_judged")
            if res[0] == "ok":
                ctx.count("filter_raised_but_real_returned")
        return None
    part_a = tag is not None

    def cn(k):
        return k if tag == "parta" else "%s:%s" % (tag, k)

    if not quiet and part_a:     # coverage counters describe the generated workload only (not the Part B hosts)
        for k, v in ref.stats.items():
            ctx.count(cn(k), v)
    if stats_out is not None:
        stats_out.update(ref.stats)
    if ref_out is not None:
        ref_out.append(ref)

    def fail(mech, what, **extra):
        if not quiet:
            if prefix == "overlap:" and not JUDGE_OVERLAP:
                ctx.count("recorded_not_judged:" + prefix + mech)
            elif ctx.violation_counts.get(prefix + mech, 0) >= core.MAX_WITNESS_PER_MECH:
                ctx.violation(prefix + mech, what, None)        # only the first witnesses of a mechanism are kept
            else:
                if extra_witness is not None:
                    extra.update(extra_witness())
                ctx.violation(prefix + mech, what, witness(templates, bind, strict, via, **extra))
        return prefix + mech

    if res[0] == "raise":
        exc = res[1]
        if not strict:
            return fail("render-raises", "rendering raised %s in non-strict mode" % type(exc).__name__, error=repr(exc))
        if ref.missing:
            if not quiet and part_a:
                ctx.count(cn("strict_error_expected_and_raised"))
            return None
        occ = M.plain_occurrences(templates)
        named = [v for v in occ if v not in bind and M.names_var([str(exc)], v)]
        if isinstance(exc, ValueError) and named:
            # tolerated only if some occurrence of the named variable was never evaluated (dead text);
            # if every occurrence was evaluated and none was missing, each-loops bound all of them
            bound_by_loop = [v for v in named if occ[v] <= ref.evaluated]
            if bound_by_loop:
                return fail("strict-rejects-loop-bound-name",
                            "strict mode refused a template whose only 'missing' name %r is bound by its each-loop"
                            % bound_by_loop[0], error=repr(exc), expected=M.concrete(parts))
            if not quiet and part_a:
                ctx.count(cn("strict_error_for_dead_variable_tolerated"))
            return None
        return fail("strict-spurious-error", "strict mode raised %s although no variable is missing"
                    % type(exc).__name__, error=repr(exc), expected=M.concrete(parts))
    _, text, warnings = res
    if strict:
        if not quiet and part_a:
            ctx.count(tag + "_strict_returned")
        if ref.missing:
            return fail("strict-missing-not-raised", "strict mode rendered although %r is missing" % ref.missing[0],
                        actual=text, warnings=warnings)
    if not quiet and part_a:
        ctx.count(tag + "_text_compared")
    if not M.matches(parts, text):
        mech = "render-mismatch"
        if not quiet and tag in (None, "parta"):
            # localising costs extra renderings (on fresh renderers): do it for the first mismatches of a shard only
            seen = sum(v for k, v in ctx.violation_counts.items() if "render-mismatch" in k)
            mech += ":" + (localise(ctx, templates, bind, strict, via, cfg) if seen < 60 else "not-localised")
        return fail(mech, "rendered text differs from the single-pass expansion",
                    expected=M.concrete(parts), actual=text, warnings=warnings)
    if not quiet:
        # The real output IS the expansion: every construct kind the expansion evaluated was expanded by the real renderer
        # (the constructs' source text contains delimiters, the expected text of a judged case contains none of them).
        # Behavioural evidence that the renderer's conditional / loop / include / variable handling was exercised and
        # judged, independent of how the renderer names or structures those steps internally.
        for kind in expanded_kinds(ref.stats):
            ctx.count("conforming_render_expanded:" + kind)
    if not strict:
        for v in sorted(set(ref.missing)):
            if not quiet and part_a:
                ctx.count(cn("missing_var_warning_checked"))
            if not M.names_var(warnings, v):
                return fail("missing-var-no-warning", "missing variable %r rendered without a warning naming it" % v,
                            actual=text, warnings=warnings)
    if not quiet and part_a:
        ctx.count(cn("unknown_include_checked"), len(ref.unknown))
    return None


_KIND_STATS = {
    "conditional": ("ref_if_true", "ref_if_false", "ref_else_taken"),
    "loop": ("ref_each",),
    "include": ("ref_include_depth1", "ref_include_unknown"),
    "variable": ("ref_var_bound", "ref_var_missing", "ref_loop_bound_var", "ref_dot", "ref_opt_bound", "ref_opt_missing",
                 "ref_def_bound", "ref_def_used"),
}


def expanded_kinds(stats):
    """Construct kinds the reference expansion evaluated at least once (from the reference's own statistics)."""
    kinds = [kind for kind, keys in _KIND_STATS.items() if any(stats.get(k) for k in keys)]
    if "variable" not in kinds and any(k.startswith("ref_filter_") and v for k, v in stats.items()):
        kinds.append("variable")
    return kinds


def localise(ctx, templates, bind, strict, via, cfg=None):
    """Which single construct already misrenders on its own? (stable classifier for mismatches)"""
    prof, silent, reg = cfg or (M.CLASSIC, True, "register")
    def walk(nodes, label):
        for nd in nodes:
            if nd[0] == "text":
                continue
            t = dict(templates)
            t["__main__"] = [("text", "<"), nd, ("text", ">")]
            if judge(ctx, t, bind, strict, via, quiet=True, prof=prof, silent=silent, reg=reg):
                inner = None
                if nd[0] == "inc" and nd[1] in templates:
                    inner = walk(templates[nd[1]], label + "inc>")
                elif nd[0] == "if":
                    inner = walk(nd[2] + (nd[3] or []), label + "if>")
                return inner or label + nd[0]
        return None
    return walk(templates["__main__"], "") or "interaction"


def binding_pattern(templates, bind):
    plain, filt, cond, each = M.used_names(templates)
    pat = []
    for nme in sorted(plain | filt | cond | each):
        if nme not in bind:
            pat.append("-")
        else:
            v = bind[nme]
            t = type(v).__name__
            if isinstance(v, list):
                t += "%d%s" % (len(v), "d" if any(isinstance(i, dict) for i in v) else "")
            elif not v:
                t += "0"
            pat.append(t)
    return tuple(pat)


def case_A(ctx, n):
    rng = ctx.rng("A", n)
    prof = M.gen_profile(rng)                    # what the renderer is configured with (filters: none / {} / custom names)
    silent = rng.random() < 0.7                  # a fair share of the workload runs the console-output branches
    reg = rng.choice(REGS)
    templates, names = M.gen_templates(rng, prof=prof)
    kinds = M.construct_kinds(templates)
    shp = tuple(sorted((k, M.shape(v)) for k, v in templates.items()))
    ctx.count("parta_cases_filters_" + ("classic" if prof is M.CLASSIC else prof.ctor if prof.ctor != "dict" else "custom"))
    ctx.count("parta_cases_" + ("silent" if silent else "verbose"))
    ctx.count("parta_cases_partials_through_" + reg)
    for j in range(CTX_PER_CASE):
        p_bound = rng.choice([1.0, 1.0, 0.85, 0.6])
        bind = M.gen_context(rng, templates, p_bound)
        strict = rng.random() < 0.35
        via = VIAS[(n + j) % len(VIAS)]
        ctx.count("parta_pairs")
        ctx.count("via_" + via)
        if strict:
            ctx.count("parta_strict_runs")
        before = sum(ctx.violation_counts.values())
        mech = judge(ctx, templates, bind, strict, via, prof=prof, silent=silent, reg=reg)
        if mech is None and sum(ctx.violation_counts.values()) == before:
            note_classes(ctx, templates, bind, prof)
        if len(kinds) >= 2:
            ctx.nontrivial(("A", shp, binding_pattern(templates, bind), strict))
        if j == 0 and n % 997 == 0:
            ctx.sample(witness(templates, bind, strict, via, part="A", verdict=mech or "conforms",
                               renderer=dict(prof.describe(), silent=silent, partials_given_through=reg)))


def _walk(templates):
    for nodes in templates.values():
        stack = list(nodes)
        while stack:
            nd = stack.pop()
            yield nd
            if nd[0] == "if":
                stack.extend(nd[2])
                stack.extend(nd[3] or [])
            elif nd[0] == "each":
                stack.extend(nd[2])


def note_classes(ctx, templates, bind, prof):
    """Counters for the input classes whose absence would make a run say nothing about them (coarse: the class occurs in the
    case's templates / bindings; whether it was evaluated is the reference's business)."""
    low = {f.lower() for f in prof.fset}
    names = set()
    for nd in _walk(templates):
        k = nd[0]
        if k == "def":
            names.add(nd[1])
            w = nd[2]
            if w.strip().lower() in low or any(f.startswith(w) or w.startswith(f) for f in prof.fset):
                ctx.count("class:default_text_near_a_filter_name")
                if nd[1] in bind:
                    ctx.count("class:default_text_near_a_filter_name_bound")
                else:
                    ctx.count("class:default_text_near_a_filter_name_unbound")
        elif k == "filt":
            names.add(nd[1])
            if nd[2] not in M.BUILTIN_NAMES and nd[2].lower() in M.SAFE_FILTERS:
                ctx.count("class:custom_filter_named_like_a_builtin_in_other_case")
            elif nd[2] in M.BUILTIN_NAMES and nd[2] in prof.custom:
                ctx.count("class:builtin_filter_overridden")
        elif k == "inc":
            if nd[1] not in templates and any(t.lower() == nd[1].lower() for t in templates):
                ctx.count("class:unknown_include_differs_in_case_from_a_template")
            elif nd[1] in templates and any(t != nd[1] and t.lower() == nd[1].lower() for t in templates):
                ctx.count("class:two_templates_differ_in_case_only")
            if nd[1] in bind:
                ctx.count("class:include_named_like_a_bound_variable")
        elif k in ("var", "opt", "if", "each"):
            names.add(nd[1])
    lowb = {}
    for k in bind:
        lowb.setdefault(k.strip().lower(), []).append(k)
    for nme in names:
        if nme not in bind and nme.lower() in lowb:
            ctx.count("class:unbound_name_with_near_miss_binding")
    for v in bind.values():
        if isinstance(v, tuple) and v and not isinstance(v[0], int):
            ctx.count("class:tuple_bound")
        if isinstance(v, (list, tuple)) and len(v) > 1:
            if any(a is b for i, a in enumerate(v) for b in v[i + 1:] if isinstance(a, dict)):
                ctx.count("class:same_dict_item_twice")
            if len({repr(x) for x in v}) == len(v) and len(v) > len({(x if isinstance(x, (int, float, str)) else id(x)) for x in v}):
                ctx.count("class:items_equal_across_types")
        if isinstance(v, float) and (v != v or v in (float("inf"), float("-inf")) or abs(v) > 1e20) or \
                (isinstance(v, int) and not isinstance(v, bool) and abs(v) > 2 ** 53):
            ctx.count("class:boundary_number_bound")
        if isinstance(v, (M.Obj, M.Empty)):
            ctx.count("class:non_builtin_object_bound")
        if isinstance(v, str) and ("{" in v or "}" in v):
            ctx.count("class:single_brace_in_value")
    vals = [v for v in bind.values() if isinstance(v, (list, dict))]
    if any(a is b for i, a in enumerate(vals) for b in vals[i + 1:]):
        ctx.count("class:one_object_under_two_names")


# ----------------------------------------------------------------------------- Part B: taint sentinels
MK = "zmk7"
DFLT = "zmk d"


def wrap(x):
    return "[s:" + x + ":s]"


VAR_FORMS = ["simple", "optional", "default", "filtered:trim", "filtered:lower", "filtered:json", "filtered:repr"]
VAR_LOCS = ["top", "if", "else", "eachbody", "inc1", "inc2", "inc3"]
LOOP_FORMS = ["item", "dot", "field"]
LOOP_LOCS = ["top", "inc1", "inc2"]
COMMON_SENT = ["simple", "optional", "filtered", "default", "include", "if", "each"]
LOOP_SENT = {"item": ["ls-index", "ls-first", "ls-last"], "dot": ["ls-item", "ls-index", "ls-last"], "field": ["ls-field"]}
SENT_PASS = {"simple": "simple", "optional": "optional", "filtered": "filtered", "default": "default",
             "default-echo": "default", "include": "include", "if": "conditionals", "each": "loops",
             "ls-index": "loop-specials", "ls-first": "loop-specials", "ls-last": "loop-specials",
             "ls-item": "loop-specials", "ls-field": "loop-specials"}

# Echo variants: the sentinel construct does not only arrive inside the value, the SAME construct (same name) is also a
# real slot of the template that holds the value slot, before or after it. A renderer that substitutes per name / per
# distinct construct text (instead of per occurrence) re-reads an inserted value only when its construct also occurs
# as a real slot, which sentinels over names that occur nowhere else can never show.
ECHO_FORMS = ["simple", "optional", "default", "filtered:trim", "filtered:json"]
ECHOES = ["before", "after"]

COMBOS = ([(loc, form, s, None) for form in VAR_FORMS for loc in VAR_LOCS for s in COMMON_SENT]
          + [(loc, "default", "default-echo", None) for loc in ("top", "if")]
          + [(loc, form, s, None) for form in LOOP_FORMS for loc in LOOP_LOCS for s in COMMON_SENT + LOOP_SENT[form]]
          + [(loc, form, s, e) for form in ECHO_FORMS for loc in VAR_LOCS for s in COMMON_SENT for e in ECHOES]
          + [(loc, form, s, e) for form in LOOP_FORMS for loc in LOOP_LOCS for s in COMMON_SENT for e in ECHOES])


def mechanism_key(loc, form, pass_):
    if form in LOOP_FORMS:
        return "opacity:loop-item->%s" % ("variables" if pass_ in M.VAR_ORDER else pass_)
    base = form.split(":")[0]
    if loc.startswith("inc") and pass_ in M.VAR_ORDER and not M.VAR_ORDER[base] < M.VAR_ORDER[pass_]:
        return "opacity:included-output->parent-variables"
    return "opacity:%s->%s" % (base, pass_)


def echo_node(sk, q):
    """The sentinel construct of kind `sk` over name `q` as a real AST node (its unparsed text equals the construct)."""
    return {"simple": ("var", q), "optional": ("opt", q), "filtered": ("filt", q, "lower"), "default": ("def", q, DFLT),
            "include": ("inc", q + "t"), "if": ("if", q, [("text", MK)], None, " "),
            "each": ("each", q, [("text", MK)], " ")}[sk]


def build_B(rng, host, host_bind, loc, form, sk, echo=None):
    """Insert one value slot into the host. Returns (templates, make_bind(value), construct, signature, info).
    The sentinel's name sorts before ("zq") or after ("zu") the slot's name "zs", and the slot's value is bound
    first or last in the context (a renderer that substitutes name by name in some order of the names must be
    caught whatever that order is)."""
    T = {k: list(v) for k, v in host.items()}
    extra = {}
    q = rng.choice(["zq", "zu"])
    slot_first = rng.random() < 0.5
    n_items = rng.choice([2, 3])
    k = rng.randrange(n_items)
    if form in LOOP_FORMS:
        slot = {"item": ("var", "item"), "dot": ("dot",), "field": ("var", "zf")}[form]
        node = ("each", "zl", [("text", "<"), slot, ("text", ">")], " ")

        def place(b, v):
            items = []
            for i in range(n_items):
                x = v if i == k else "zo%d" % i
                items.append({"zf": x, "zg": MK} if form == "field" else x)
            b["zl"] = items
    else:
        base, _, flt = form.partition(":")
        slot = {"simple": ("var", "zs"), "optional": ("opt", "zs"), "default": ("def", "zs", "zd fallback"),
                "filtered": ("filt", "zs", flt)}[base]
        node = slot
        if loc == "if":
            node = ("if", "zc", [("text", "("), slot, ("text", ")")], None, " ")
            extra["zc"] = True
        elif loc == "else":
            node = ("if", "zc", [("text", "no")], [("text", "("), slot], " ")
            extra["zc"] = 0
        elif loc == "eachbody":
            node = ("each", "zl", [("dot",), slot, ("text", ",")], " ")
            extra["zl"] = ["u", "w"]

        def place(b, v):
            b["zs"] = v
    # sentinel
    construct = {"simple": "{{%s}}" % q, "optional": "{{?%s}}" % q, "filtered": "{{%s|lower}}" % q,
                 "default": "{{%s|%s}}" % (q, DFLT), "default-echo": "{{%s|%s}}" % (q, DFLT), "include": "{{>%st}}" % q,
                 "if": "{{#if %s}}%s{{/if}}" % (q, MK), "each": "{{#each %s}}%s{{/each}}" % (q, MK),
                 "ls-index": "{{index}}", "ls-first": "{{first}}",
                 "ls-last": "{{last}}", "ls-item": "{{item}}", "ls-field": "{{zg}}"}[sk]
    sig = MK
    if sk in ("simple", "optional", "filtered"):
        extra[q] = MK
    elif sk in ("default", "default-echo"):
        sig = DFLT
    elif sk == "include":
        T[q + "t"] = [("text", MK)]
    elif sk == "if":
        extra[q] = 1
    elif sk == "each":
        extra[q] = [0]
    elif sk == "ls-index":
        sig = str(k)
    elif sk == "ls-first":
        sig = str(k == 0)
    elif sk == "ls-last":
        sig = str(k == n_items - 1)
    elif sk == "ls-item":
        sig = wrap(construct)
    # placement
    nodes = [("text", "|"), node, ("text", "|")]
    if sk == "default-echo":
        nodes.append(("def", q, DFLT))   # the same construct also occurs literally later in the template
    if echo is not None:                   # ... as a real slot of the same template, before / after the value slot
        en = echo_node(sk, q)
        assert unparse_one(en) == construct
        nodes = [en] + nodes if echo == "before" else nodes + [en]
    if loc.startswith("inc"):
        depth = int(loc[3])
        for d in range(1, depth + 1):
            inner = nodes if d == depth else [("inc", "zi%d" % (d + 1))]
            T["zi%d" % d] = [("text", "%d(" % d)] + inner + [("text", ")")]
        nodes = [("inc", "zi1")]
    main = T["__main__"]
    pos = rng.randint(0, len(main))
    T["__main__"] = main[:pos] + nodes + main[pos:]

    def make_bind(v):
        b = {}
        if slot_first:
            place(b, v)
        b.update(host_bind)
        b.update(extra)
        place(b, v)          # (assigning an existing key keeps its position)
        return b
    return T, make_bind, construct, sig, {"sentinel_name": q, "slot_bound_first": slot_first}


def unparse_one(node):
    return M.unparse([node])


def case_B(ctx, n):
    rng = ctx.rng("B", n)
    host, names = M.gen_templates(rng, max_main=4, specials_as_outer=False)
    host_bind = M.gen_context(rng, host, 1.0)
    for s in M.SPECIALS:     # keep one interpretation per sentinel: no outer binding of the loop's own names
        host_bind.pop(s, None)
    hshape = tuple(sorted(M.construct_kinds(host)))   # coarse on purpose: 429 combinations per host
    for ci, (loc, form, sk, echo) in enumerate(COMBOS):
        crng = ctx.rng("B", n, ci)
        T, make_bind, construct, sig, info = build_B(crng, host, host_bind, loc, form, sk, echo)
        via = VIAS[(n + ci) % len(VIAS)]
        ctx.count("partb_combos")
        if echo:
            ctx.count("partb_echo_" + echo)
        if form not in LOOP_FORMS and sk in COMMON_SENT:
            ctx.count("partb_slot_bound_%s_sentinel_name_sorts_%s" % (
                "first" if info["slot_bound_first"] else "last", "after" if info["sentinel_name"] > "zs" else "before"))
        # 1. same shape with an inert value: must conform (so that a grammar bug is never booked as an opacity finding)
        if judge(ctx, T, make_bind(wrap("zinert")), False, via, prefix="partb-baseline:") is not None:
            continue
        ctx.count("partb_baseline_ok")
        # 2. the value carries a construct: the output must be the verbatim expansion
        bind = make_bind(wrap(construct))
        rib, res = render_real(T, bind, False, via)
        ref = M.Ref(T, rib.filters, bind)
        try:
            parts = ref.render("__main__")
        except M.FilterRaised:
            ctx.count("filter_raised_not_judged")
            continue
        ctx.nontrivial(("B", hshape, loc, form, sk, echo))
        slotname = "loop-item" if form in LOOP_FORMS else form.split(":")[0]
        if res[0] == "raise":
            ctx.violation("opacity-render-raises:%s" % slotname,
                          "rendering raised %s when a value contained %s" % (type(res[1]).__name__, construct),
                          witness(T, bind, False, via, error=repr(res[1]), slot=[loc, form], sentinel=sk, echo=echo))
            continue
        text = res[1]
        if M.matches(parts, text):
            ctx.count("partb_opaque_ok")
            ctx.count("opaque_ok:%s" % slotname)
            if echo:
                ctx.count("partb_echo_opaque_ok")
                ctx.count("opaque_ok_echo_%s:%s" % (echo, slotname))
            continue
        # 3. which pass interpreted it? compare with the expansion in which exactly this construct was expanded
        ibind = make_bind(wrap(sig))
        iparts = M.Ref(T, rib.filters, ibind).render("__main__")
        w = witness(T, bind, False, via, expected=M.concrete(parts), actual=text, slot=[loc, form], sentinel=sk,
                    sentinel_construct_also_a_real_slot=echo, **info)
        if M.matches(iparts, text):
            key = mechanism_key(loc, form, SENT_PASS[sk])
            ctx.count("reinterpreted:" + key[len("opacity:"):])
            ctx.violation(key, "a %s value containing %s was re-interpreted by the %s pass (slot at %s%s)"
                          % (slotname, construct, SENT_PASS[sk], loc,
                             "; the same construct is a real slot %s the value slot" % echo if echo else ""), w)
        else:
            ctx.violation("opacity-unclassified:%s:%s" % (slotname, sk),
                          "output with a %s value containing %s is neither the verbatim nor the single-interpretation expansion"
                          % (slotname, construct), w)
        if ci % 97 == 0:
            ctx.sample(dict(w, part="B"))


# ----------------------------------------------------------------------------- Part C: one long-lived renderer
NEST_MAIN = [("text", "<"), ("inc", "zsub"), ("text", "|"), ("var", "zr"), ("text", "|"), ("opt", "zo"), ("text", ">")]
NEST_SUB = [("text", "["), ("var", "zr"), ("text", "]")]


class Reentry:
    """Filter callables of a session: pure functions of their argument that, as a side effect, render a small
    unrelated template (different bindings, its own include) on the SAME renderer while the outer rendering is in
    progress, and log what that nested rendering returned next to its single-pass expansion."""

    def __init__(self, pure):
        self.pure = pure
        self.rib = None
        self.busy = False
        self.calls = 0
        self.log = []

    def filters(self):
        def wrapped(name):
            def f(x):
                self.nested()
                return self.pure[name](x)
            return f
        return {name: wrapped(name) for name in self.pure}

    def nested(self):
        if self.rib is None or self.busy:
            return
        self.busy = True
        try:
            self.calls += 1
            if self.calls % 2 == 0:
                read_apis(self.rib, self.calls)
            bind = {"zr": "r%d" % self.calls, "zo": self.calls % 3}
            expected = M.concrete(M.Ref({"__main__": NEST_MAIN, "zsub": NEST_SUB}, {}, bind).render("__main__"))
            try:
                with muted():
                    got = ("ok", self.rib.synthesize(M.unparse(NEST_MAIN), **bind).sequence)
            except Exception as e:
                got = ("raise", repr(e))
            self.log.append((bind, got, expected))
        finally:
            self.busy = False


RENDER_STEPS = ["revalue", "revalue-one", "same", "new", "mutate-list", "reregister", "register-unknown", "repage",
                "toggle-strict", "neighbour", "register-alias"]
STEP_WEIGHTS = [30, 10, 8, 15, 10, 10, 5, 4, 4, 8, 3]
REG_HOW = ["register", "register-named", "create", "create-described"]


def register(rib, mRNA, name, seq, how):
    """(Re-)register `seq` under `name` through the public API."""
    with registering("create_template" if how.startswith("create") else "register_template", {"name": name, "sequence": seq}):
        if how == "register":
            rib.register_template(mRNA(sequence=seq, name=name))
        elif how == "register-named":
            rib.register_template(mRNA(sequence=seq, name="draft_of_" + name, description="draft"), name=name)
        elif how == "create":
            rib.create_template(seq, name)
        else:
            rib.create_template(seq, name, description="{{user}} {{>%s}} {{#each items}}" % name)


def read_apis(rib, k):
    """What a caller may look at between (or during) renderings: the reporting / listing API, repr, the page's declared
    variables. Read-only by contract: no later rendering may depend on whether this was called. Returns the number of
    reads that raised (recorded, not judged: the statement is about renderings)."""
    bad = 0
    reads = [lambda: rib.get_statistics(), lambda: rib.list_templates(), lambda: repr(rib), lambda: str(rib),
             lambda: sorted(rib.templates), lambda: sorted(rib.filters), lambda: [t.get_required_variables() for t in
                                                                                   list(rib.templates.values())[:3]],
             lambda: (rib.strict, rib.silent)]
    for i in range(3):
        try:
            reads[(k + i * 3) % len(reads)]()
        except Exception:
            bad += 1
    return bad


def build_neighbour(rng, templates, strict):
    """ANOTHER renderer in the same process, configured differently from the session's renderer in everything a renderer
    can be configured with: its own custom filters (named like the single-word default texts of the session's templates,
    like the generator's default words, sometimes like a built-in filter or like the session's own custom filter), its
    own templates under the SAME names as the session's (plus names the session's renderer does not know), the other
    `strict`. Its own page uses its filter, a shared template name, a default text that is a custom filter name of the
    SESSION's renderer, and an include that only one of the two renderers may know."""
    R, mRNA = _classes()
    fnames = [w for w in sorted(M.default_words(templates)) if rng.random() < 0.8]
    fnames += [w for w in M.DEFAULT_WORDS if w not in fnames and rng.random() < 0.5]
    if rng.random() < 0.3:
        fnames.append(rng.choice(["upper", "trim", "json", "title"]))
    if rng.random() < 0.25:
        fnames.append("rev")
    fnames.append("nbf")
    filters = {w: (lambda x, w=w: "<%s:%s>" % (w, x)) for w in fnames}
    names = [nm for nm in templates if nm != "__main__"]
    names += [u for u in M.UNKNOWN_INC if u not in templates and rng.random() < 0.5]
    nbt = {nm: [("text", "[nb %s:" % nm), ("var", "zr"), ("text", "]")] for nm in names}
    dword = "rev" if "rev" not in filters else "nbword"
    nbt["__main__"] = [("text", "<"), ("filt", "zr", "nbf"), ("text", "|"), ("inc", rng.choice(sorted(names))),
                       ("text", "|"), ("def", "zm", dword), ("text", "|"), ("def", "zr", dword), ("text", "|"),
                       ("inc", rng.choice(M.UNKNOWN_INC)), ("text", ">")]
    pre = {nm: mRNA(sequence=M.unparse(nodes), name=nm) for nm, nodes in nbt.items() if nm != "__main__"}
    seq = M.unparse(nbt["__main__"])
    nb_silent = rng.random() < 0.6
    with registering("constructor/register_template/create_template", {"silent": nb_silent, "templates": sorted(pre), "page0": seq}):
        if rng.random() < 0.5:
            rib = R(templates=dict(pre), filters=filters, strict=not strict, silent=nb_silent)
        else:
            rib = R(filters=filters, strict=not strict, silent=nb_silent)
            for nm in pre:
                rib.register_template(pre[nm])
        rib.create_template(seq, "page0")
    pure = dict(_MON["builtin"])
    pure.update(filters)
    return {"rib": rib, "templates": nbt, "seq": seq, "page": rib.templates["page0"], "pure": pure, "strict": not strict,
            "filter_names": set(fnames), "template_names": set(names),
            "desc": {"filters": sorted(fnames), "templates": {k: M.unparse(v) for k, v in nbt.items()},
                     "strict": not strict}}


def case_C(ctx, n):
    """A session: ONE renderer, 3-9 renderings separated by the things a caller does between renderings (new values
    for the same names, one value changed, a bound list changed in place, a partial / the page registered again, a so
    far unknown partial registered, strict switched). Every rendering must be the expansion of the templates
    registered AT THAT MOMENT with the bindings given to THAT call."""
    rng = ctx.rng("C", n)
    R, mRNA = _classes()
    prof = M.gen_profile(rng)
    silent = rng.random() < 0.7
    reads = rng.random() < 0.5          # this session's caller also looks at the reporting API between renderings
    templates, names = M.gen_templates(rng, max_main=6, p_inc=0.9, prof=prof)
    templates["zsub"] = NEST_SUB
    strict = rng.random() < 0.25
    pure = pure_filters(prof)
    reentrant = rng.random() < 0.6
    re_ = Reentry(pure)
    flt = re_.filters() if reentrant else prof.ctor_arg()

    def make_renderer():
        """A renderer with the session's configuration and the templates registered at this moment."""
        return build_renderer(R, mRNA, {nm: M.unparse(nodes) for nm, nodes in templates.items() if nm != "__main__"},
                              prof, strict, silent, rng.choice(REGS), filters=flt)
    rib = make_renderer()
    re_.rib = rib
    st = {"seq": None, "page": None}
    neighbours = []
    created_after_neighbour = False

    def use_neighbour(nb, when):
        """The other renderer renders its own page; it must follow ITS configuration (and not the session renderer's)."""
        via = rng.choice(VIAS)
        nbind = M.copy.deepcopy(bind) if bind else {}
        nbind.pop("zm", None)
        nbind["zr"] = "n%d" % len(history)
        res = render_on(nb["rib"], nb["seq"], nb["page"], nbind, via)
        ctx.count("partc_neighbour_renders")
        history.append({"step": "neighbour-renders-its-page", "via": via, "zr": nbind["zr"]})
        assess(ctx, nb["templates"], nb["pure"], res, nbind, nb["strict"], via, prefix="session:neighbour-%s:" % when,
               tag="partc_nb", extra_witness=lambda: {"history": list(history), "neighbour": nb["desc"]})

    def set_page(how="register"):
        st["seq"] = M.unparse(templates["__main__"])
        register(rib, mRNA, "page0", st["seq"], how)
        st["page"] = rib.templates["page0"]
    set_page()
    shp = tuple(sorted((k, M.shape(v)) for k, v in templates.items()))
    kinds = M.construct_kinds(templates)
    history = []
    seen_keysets = {}       # frozenset(keys) -> repr of the last values rendered with that key set
    steps = ["new"] + rng.choices(RENDER_STEPS, weights=STEP_WEIGHTS, k=rng.randint(2, 8))
    bind = None
    done = []
    ctx.count("partc_sessions")
    if reentrant:
        ctx.count("partc_sessions_reentrant_filters")
    if not silent:
        ctx.count("partc_sessions_verbose")
    if prof is not M.CLASSIC:
        ctx.count("partc_sessions_other_filter_configuration")
    prev = None                 # how the previous rendering of the session ended: "judged" / "filter-raised" / "error"
    for step in steps:
        # ---- what the caller does before this rendering
        if step == "new" or bind is None:
            step = "new"
            bind = M.gen_context(rng, templates, rng.choice([1.0, 1.0, 0.85, 0.6]))
        elif step == "revalue":
            bind = M.revalue(rng, templates, bind)
        elif step == "revalue-one":
            bind = M.revalue(rng, templates, bind, one_only=True)
        elif step == "same":
            bind = M.copy.deepcopy(bind)           # equal, but distinct objects
        elif step == "mutate-list":
            if M.mutate_list_in_place(rng, bind) is None:
                step = "revalue"
                bind = M.revalue(rng, templates, bind)
        elif step == "toggle-strict":
            strict = not strict
            rib.strict = strict
        elif step == "neighbour":
            nb = build_neighbour(rng, templates, strict)
            neighbours.append(nb)
            ctx.count("partc_neighbours_built")
            moved = rng.random() < 0.5
            history.append(dict(nb["desc"], step="another renderer is created and used",
                                session_continues_on="a renderer created afterwards" if moved else "the same renderer"))
            use_neighbour(nb, "own-page")
            if moved:       # the session goes on with a renderer created AFTER the other one (same configuration, same templates)
                rib = make_renderer()
                re_.rib = rib
                set_page()
            created_after_neighbour = moved      # relative to the most recently created other renderer
            if rng.random() < 0.5:
                bind = M.revalue(rng, templates, bind)
        else:
            how = rng.choice(REG_HOW)
            lv = M.include_levels(templates)
            target, nodes = None, None
            if step == "reregister" and lv:
                level = rng.choice(sorted(lv))
                target = rng.choice(lv[level])
                deeper = [t for l2 in lv if l2 > level for t in lv[l2]]
                nodes = M.gen_nodes(rng, names, deeper, rng.choice([0, 1, 1, 1]), 4, prof=prof)
            elif step == "register-unknown":
                target = rng.choice(M.UNKNOWN_INC)
                nodes = M.gen_nodes(rng, names, None, 1, 3, prof=prof)
            elif step == "register-alias" and lv:
                # the very same template OBJECT that is registered under one name is registered under a second name
                src = rng.choice([t for l2 in lv for t in lv[l2]])
                target = rng.choice(M.UNKNOWN_INC)
                nodes = templates[src]
                how = "same-object:" + src
            elif step == "repage":
                target = "__main__"
                nodes = M.gen_nodes(rng, names, [t for l2 in lv for t in lv[l2]], 1, 6, prof=prof)
                if lv.get(1) and rng.random() < 0.8:
                    nodes.insert(rng.randint(0, len(nodes)), ("inc", rng.choice(lv[1])))
            if target is not None:
                old = templates.get(target)
                templates[target] = nodes
                if M.include_depth(templates) > 3:       # stay inside the quantifier (<= 3 levels of includes)
                    if old is None:
                        del templates[target]
                    else:
                        templates[target] = old
                    target = None
            if target is None:
                step = "revalue"
                bind = M.revalue(rng, templates, bind)
            elif target == "__main__":
                set_page(how)
                history.append({"step": step, "how": how, "page": st["seq"]})
            else:
                if how.startswith("same-object:"):
                    with registering("register_template", {"name": target, "same_object_as": how}):
                        rib.register_template(rib.templates[how.split(":", 1)[1]], name=target)
                    ctx.count("partc_same_template_object_under_two_names")
                else:
                    register(rib, mRNA, target, M.unparse(nodes), how)
                history.append({"step": step, "how": how, "name": target, "sequence": M.unparse(nodes)})
            if target is not None:
                if rng.random() < 0.4:
                    bind = M.revalue(rng, templates, bind)
                bind = M.bind_filtered(rng, templates, bind)
        # ---- the rendering
        via = rng.choice(VIAS)
        snap = M.copy.deepcopy(bind)
        history.append({"step": "render:" + step, "via": via, "strict": strict, "context": snap})
        if reads and rng.random() < 0.7:
            bad = read_apis(rib, rng.randrange(8))
            ctx.count("partc_reporting_api_read_before_render")
            if bad:
                ctx.count("recorded_not_judged:reporting-api-raised", bad)
            history.append({"step": "reporting API read"})
        page_obj = st["page"]
        if via == "translate_mrna" and rng.random() < 0.5:       # an equal but distinct template object
            page_obj = mRNA(sequence=st["seq"], name="page0")
            ctx.count("partc_equal_but_distinct_page_object")
        exp = expand(templates, pure, bind)      # the expansion of the bindings as given (before the renderer sees them)
        res = render_on(rib, st["seq"], page_obj, bind, via)
        ctx.count("partc_renders")
        ctx.count("partc_step:" + step)
        ctx.count("via_" + via)
        stats = {}

        def extra(bind=snap, strict=strict, via=via):
            # would a renderer without this history render it correctly?
            fresh = judge(ctx, {k: v for k, v in templates.items()}, bind, strict, via, quiet=True, prof=prof) is None
            return {"history": list(history), "reentrant_filters": reentrant, "fresh_renderer_conforms": fresh,
                    "other_renderers_in_the_process": len(neighbours),
                    "renderer": dict(prof.describe(), silent=silent), "reporting_api_read_in_between": reads}
        refs = []
        mech = assess(ctx, templates, pure, res, snap, strict, via, prefix="session:after-%s:" % step, tag="partc",
                      extra_witness=extra, stats_out=stats, ref_out=refs, exp=exp)
        done.append(step)
        if stats and prev == "filter-raised":
            ctx.count("partc_render_judged_after_a_filter_raised")
        if stats and prev == "error":
            ctx.count("partc_render_judged_after_an_error_was_raised")
        prev = "filter-raised" if not stats else ("error" if res[0] == "raise" else "judged")
        for nb in neighbours:      # the two renderers are used alternately
            if rng.random() < 0.25:
                use_neighbour(nb, "own-page-alternating")
        if neighbours and stats:
            ctx.count("partc_renders_while_another_renderer_exists")
            ctx.count("partc_render_on_renderer_created_%s_the_other" % ("after" if created_after_neighbour else "before"))
            if any(refs[0].def_words & nb["filter_names"] for nb in neighbours):
                ctx.count("partc_default_text_is_filter_name_on_other_renderer")
            if any(set(refs[0].unknown) & nb["template_names"] for nb in neighbours):
                ctx.count("partc_unknown_include_is_template_of_other_renderer")
        # the deciding situations, counted so that their absence makes the run inconclusive
        ks = frozenset(bind)
        has_inc = any(stats.get("ref_include_depth%d" % d) for d in (1, 2, 3))
        if stats:
            vals = repr(sorted((k, repr(v)) for k, v in bind.items()))
            if ks in seen_keysets and seen_keysets[ks] != vals and has_inc:
                ctx.count("partc_same_names_new_values_with_include")
            seen_keysets[ks] = vals
            if step == "mutate-list":
                ctx.count("partc_list_mutated_in_place_then_rendered")
            if step in ("reregister", "register-unknown", "repage"):
                ctx.count("partc_registry_changed_then_rendered")
            if step == "toggle-strict":
                ctx.count("partc_strict_toggled_then_rendered")
        # nested renderings made from inside filters during this rendering
        for nb, got, expected in re_.log:
            ctx.count("partc_nested_renders")
            if got[0] == "raise":
                ctx.violation("session:nested-render-raises", "a rendering started from a filter callback raised",
                              {"nested_context": nb, "error": got[1], "history": list(history)})
            elif got[1] != expected:
                ctx.violation("session:nested-render-mismatch",
                              "a rendering started from a filter callback (while another rendering was in progress on the "
                              "same renderer) differs from its single-pass expansion",
                              {"nested_template": M.unparse(NEST_MAIN), "zsub": M.unparse(NEST_SUB), "nested_context": nb,
                               "expected": expected, "actual": got[1], "history": list(history)})
        del re_.log[:]
    for nb in neighbours:      # ... and the session renderer's later registrations / strict changes must not reach the other one
        use_neighbour(nb, "own-page-later")
    if len(kinds) >= 2 and len(done) >= 2:
        ctx.nontrivial(("C", shp, tuple(done), reentrant))
    if n % 499 == 0:
        ctx.sample({"part": "C", "templates": {k: M.unparse(v) for k, v in templates.items()}, "history": history[-6:]})


# ----------------------------------------------------------------------------- Part D: overlapping renderings (threads)
def _overlap_class():
    if "Overlap" not in _MON:
        import threading
        from rv import sched
        R, _ = _classes()

        def yp(tag):
            s = sched._ACTIVE
            if s is not None:
                me = s.index.get(threading.get_ident())
                if me is not None:
                    s.yield_point(me, tag, 0)

        class OverlapRibosome(R):
            """Every read / write of an instance field (whatever its name) is a scheduling point."""

            def __getattribute__(self, name):
                if name in object.__getattribute__(self, "__dict__"):
                    yp("read:" + name)
                return object.__getattribute__(self, name)

            def __setattr__(self, name, value):
                yp("write:" + name)
                object.__setattr__(self, name, value)

        _MON["Overlap"] = OverlapRibosome
    return _MON["Overlap"]


def case_D(ctx, n):
    """2-3 threads render on ONE renderer at the same time (controlled scheduler; switches at the renderer's field
    accesses). The registry is not changed meanwhile, so each rendering has exactly one expansion."""
    from rv import sched
    rng = ctx.rng("D", n)
    R, mRNA = _classes()
    O = _overlap_class()
    templates, names = M.gen_templates(rng, max_main=5, p_inc=0.9)
    strict = rng.random() < 0.2
    rib = O(filters=M.custom_filters(), strict=strict, silent=True)
    for nm, nodes in templates.items():
        if nm != "__main__":
            rib.register_template(mRNA(sequence=M.unparse(nodes), name=nm))
    seq = M.unparse(templates["__main__"])
    page = mRNA(sequence=seq, name="page0")
    rib.register_template(page)
    nthreads = rng.choice([2, 2, 3])
    base = M.gen_context(rng, templates, rng.choice([1.0, 1.0, 0.85]))
    binds = [base]
    for _ in range(nthreads - 1):
        binds.append(M.revalue(rng, templates, base) if rng.random() < 0.75
                     else M.gen_context(rng, templates, rng.choice([1.0, 0.85])))
    reps = rng.choice([1, 1, 2])
    vias = [[rng.choice(VIAS) for _ in range(reps)] for _ in range(nthreads)]
    if rng.random() < 0.5:
        policy, plabel = sched.RandomPolicy(rng, rng.choice([0.15, 0.3, 0.5])), "random"
    else:
        policy, plabel = sched.PCTPolicy(rng, nthreads, rng.choice([1, 2, 3]), horizon=60), "pct"
    sc = sched.Scheduler(policy, watchdog_s=30.0)
    sc.run([(lambda i=i: [render_on(rib, seq, page, binds[i], v) for v in vias[i]]) for i in range(nthreads)])
    ctx.count("partd_schedules")
    if sc.stuck:
        ctx.inconclusive("a Part D schedule hit the wall-clock watchdog (not a verdict)")
        return
    desc = {"threads": [{"context": binds[i], "vias": vias[i]} for i in range(nthreads)], "policy": plabel,
            "choices": sc.choices[:300]}
    if sc.deadlock:
        if JUDGE_OVERLAP:
            ctx.violation("overlap:deadlock", "overlapping renderings deadlocked: %s" % sc.deadlock,
                          witness(templates, binds[0], strict, vias[0][0], **desc))
        else:
            ctx.count("recorded_not_judged:overlap:deadlock")
        return
    if sc.switch_while_other_inside:
        ctx.count("partd_schedules_interleaved")
    ctx.count("partd_yield_points", sc.step)
    for i in range(nthreads):
        if sc.errors[i] is not None:
            if JUDGE_OVERLAP:
                ctx.violation("overlap:thread-died", "a rendering thread died with %r" % (sc.errors[i],),
                              witness(templates, binds[i], strict, vias[i][0], **desc))
            else:
                ctx.count("recorded_not_judged:overlap:thread-died")
            continue
        for j, res in enumerate(sc.results[i]):
            ctx.count("partd_renders")

            def extra(i=i, j=j):
                fresh = judge(ctx, dict(templates), binds[i], strict, vias[i][j], quiet=True) is None
                return dict(desc, thread=i, fresh_renderer_conforms=fresh)
            assess(ctx, templates, rib.filters, res, binds[i], strict, vias[i][j], prefix="overlap:", tag="partd",
                   extra_witness=extra)
    if sc.switch_while_other_inside and len(M.construct_kinds(templates)) >= 2:
        ctx.nontrivial(("D", tuple(sorted((k, M.shape(v)) for k, v in templates.items())), nthreads, sc.trace_hash()))


# ----------------------------------------------------------------------------- Part E: long histories
def case_E(ctx, k):
    """Long histories on ONE renderer (cheap templates, the Part A oracle):
    k % 3 == 0: > 20 000 renderings, each after one more distinct template was registered; every page includes the newest, an
                early and a random earlier template; now and then a variable is missing (warning / strict error), a filter
                raises, the reporting API is read, an unknown include occurs; a second renderer is used alternately;
    k % 3 == 1: each-loops over > 20 000 distinct items (scalars, dicts, an include per item);
    k % 3 == 2: one page of several thousand constructs with very long values."""
    rng = ctx.rng("E", k)
    R, mRNA = _classes()
    kind = k % 3
    ctx.count("parte_cases")
    if kind == 0:
        return long_session(ctx, rng, R, mRNA)
    prof = M.CLASSIC
    pure = pure_filters(prof)
    if kind == 1:
        n_items = E_OPS[ctx.tier] + rng.randrange(5000)
        templates = {
            "row": [("text", "<"), ("var", "zr"), ("opt", "zo"), ("text", ">")],
            "__main__": [("text", "A:"),
                         ("each", "items", [("var", "index"), ("text", "="), ("dot",), ("text", "/"), ("var", "first"),
                                            ("var", "last"), ("text", ";")], " "),
                         ("text", "\nB:"),
                         ("each", "rows", [("var", "fname"), ("text", ":"), ("var", "price"), ("text", "@"), ("var", "index"),
                                           ("var", "last"), ("text", "\n")], " "),
                         ("text", "C:"),
                         ("each", "users", [("var", "item"), ("inc", "row"), ("filt", "zr", "upper"), ("def", "zd", "Upper")],
                          "  "),
                         ("text", "."), ("var", "zmissing")]}
        bind = {"items": ["i%d" % i for i in range(n_items)],
                "rows": [{"fname": "f%d" % i, "price": i * 3} if i % 1000 else {"price": i} for i in range(n_items)],
                "users": tuple(range(300)), "zr": "r", "fname": "outer"}
        ctx.count("parte_loop_items", 2 * n_items + 300)
    else:
        names = M.OUTER[:8]
        templates = {"t1a": M.gen_nodes(rng, names, None, 2, 5), "t1b": [("text", "(b)")]}
        templates["__main__"] = M.gen_nodes(rng, names, ["t1a", "t1b"], 2500, 3500)
        bind = M.gen_context(rng, templates, 0.9)
        for nme in sorted(M.used_names(templates)[1]):      # every filter must accept its argument (else nothing is judged)
            bind[nme] = M.gen_text(rng, 0, 3)
        long_names = [nme for nme in sorted(bind) if isinstance(bind[nme], str)][:3]
        for i, nme in enumerate(long_names):
            bind[nme] = ("%d-long value \\1 $1 %%s | " % i) * 80
        ctx.count("parte_page_constructs", len(templates["__main__"]))
    for via in (VIAS[k % len(VIAS)], VIAS[(k + 1) % len(VIAS)]):
        exp = []
        rib, res = render_real(templates, bind, False, via, prof, True, "register", exp_out=exp)
        ctx.count("parte_big_renders")
        mech = assess(ctx, templates, None, res, bind, False, via, prefix="long:", tag="parte", exp=exp[0])
        if mech is None and exp[0][2] is None:
            ctx.count("parte_big_renders_conforming")
    ctx.nontrivial(("E", kind, k))


def long_session(ctx, rng, R, mRNA):
    ops = E_OPS[ctx.tier] + rng.randrange(3000)
    prof = M.Profile(("rev", "Upper"), "dict")
    pure = pure_filters(prof)
    rib = build_renderer(R, mRNA, {}, prof, False, False, "register")      # console output on (swallowed)
    other = build_renderer(R, mRNA, {"p0": "[other p0:{{v}}]"}, M.CLASSIC, True, True, "register")
    other_t = {"p0": [("text", "[other p0:"), ("var", "v"), ("text", "]")],
               "__main__": [("inc", "p0"), ("inc", "p7"), ("def", "v", "UPPER")]}
    templates = {}
    strict = False
    prev_bad = False
    shapes = set()
    for i in range(ops):
        name = "p%d" % i
        r = i % 5
        body = [("text", "[%d:" % i), ("var", "v")]
        if r == 1:
            body.append(("def", "d", rng.choice(["UPPER", "REV", "dflt", " trim", "Rev"])))     # none of them is a filter here
        elif r == 2:
            body.append(("filt", "w", rng.choice(["rev", "Upper", "upper", "json"])))
        elif r == 3:
            body.append(("each", "xs", [("var", "index"), ("dot",), ("var", "last")], " "))
        elif r == 4:
            body.append(("if", "c", [("opt", "o")], [("text", "no")], " "))
        body.append(("text", "]"))
        templates[name] = body
        with registering("register_template/create_template", {"name": name, "sequence": M.unparse(body), "registered_before": i}):
            if i % 3:
                rib.register_template(mRNA(sequence=M.unparse(body), name=name))
            else:
                rib.create_template(M.unparse(body), name)
        early = rng.choice([0, 1, i // 2, rng.randrange(i + 1)])
        page = [("inc", "p%d" % early), ("text", "|"), ("inc", name), ("text", "|"), ("inc", "p%d" % rng.randrange(i + 1)),
                ("def", "d", "Json"), ("var", "v")]
        if i % 17 == 0:
            page.append(("inc", "p%d" % (i + 1)))              # not registered yet: unknown now, known in the next round
        if i % 29 == 0:
            page.append(("filt", "n", "length"))               # raises for a number (the caller's filter error propagates)
        templates["__main__"] = page
        bind = {"v": "v%d" % i, "w": "w%d" % (i * 7), "xs": [i, "x"][: i % 3], "c": i % 4, "o": i, "n": i}
        if i % 13 == 0:
            del bind["v"]                                      # missing: a warning, or an error in strict mode
        if i % 7 == 0:
            bind["d"] = i
        if i % 97 == 0:
            strict = not strict
            rib.strict = strict
        if i % 401 == 0:
            read_apis(rib, i)
            ctx.count("parte_reporting_api_read")
        via = VIAS[1 + i % 3]        # the page changes every time: an mRNA object or a sequence (never registered)
        seq = M.unparse(page)
        exp = expand(templates, pure, bind)
        res = render_on(rib, seq, mRNA(sequence=seq, name="page%d" % (i % 5)), bind, via)
        ctx.count("parte_session_renders")
        before = sum(ctx.violation_counts.values())
        stats = {}
        assess(ctx, templates, None, res, bind, strict, via, prefix="long-session:", tag="parte", exp=exp, stats_out=stats,
               extra_witness=lambda: {"renderings_before_this_one": i, "templates_registered": i + 1})
        ok = bool(stats) and sum(ctx.violation_counts.values()) == before
        if ok:
            ctx.count("parte_session_renders_conforming")
            if early < i - 20000:
                ctx.count("parte_include_of_template_registered_over_20000_registrations_ago")
            if prev_bad:
                ctx.count("parte_render_judged_after_a_raised_error")
        prev_bad = res[0] == "raise"
        shapes.add((r, len(page), res[0]))
        if i % 1000 == 999:          # the second renderer is used alternately; it knows p0 only (its own), never p7
            ob = {"v": i} if i % 2000 == 999 else {}
            ores = render_on(other, M.unparse(other_t["__main__"]), None, ob, "synthesize")
            ctx.count("parte_other_renderer_renders")
            assess(ctx, other_t, pure_filters(M.CLASSIC), ores, ob, True, "synthesize", prefix="long-session:other-renderer:",
                   tag="parte_nb")
    ctx.count("parte_distinct_templates_on_one_renderer", ops)
    ctx.nontrivial(("E", 0, ops, tuple(sorted(shapes))))


if __name__ == "__main__":
    core.main(sys.modules[__name__])
