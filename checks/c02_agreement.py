"""C02 — the safe evaluator computes the same value Python would on the allowed subset.

Oracle: an independent reference evaluation — the generated expression is first CHECKED to lie in
the allowed grammar (own classifier), then evaluated by Python itself with no builtins and a
namespace built from the verif-side list of allow-listed names (plus, on the tool pathway, an independent
twin of every registered tool function). Only the stated directions are judged: engine success =>
value equals Python's (bool-coerced on the logic pathway); Python raises => the engine must report
failure. Tool functions record what they receive, so what a tool was called with is compared as
well as what the call returned.

Workload (see RULE): single expressions and sessions on engines in every configuration the public
constructor / registration API offers (verbose mode, timeouts under a self-advancing virtual clock,
ROS limits with repair(), capability sets, tools with and without parameter schemas registered through
every route, tools that raise / mutate their arguments / return a shared object), several engines used
alternately, reporting APIs interleaved, results mutated and the expression re-evaluated, values at the
edges of the arithmetic, degenerate whole expressions, every entry point (metabolize auto / forced,
digest_glucose), and long histories (> 20 000 evaluations on one engine).

Round 4: a systematic sweep of every operator / one-argument function over every pairing of operand KINDS (numbers, booleans, strings,
lists, tuples, each also empty); comparisons BETWEEN sequences whose elements are equal but of different numeric types (ints >= 2**63
next to the equal float / complex, nested, list vs tuple, unequal lengths); every identifier the engine's module uses for a parameter
or local variable as a keyword-argument NAME (discovered from the code objects of the tree under test); the same keyword twice;
public settings (silent, timeout, max_ros, allowed_capabilities, the tools registry, the instance-level function table) assigned mid-
session with the reference following the CURRENT value; non-bool flags, Fraction / Decimal / bool limits, one-shot iterables of tools,
falsy callables and falsy tool objects, str-subclass expressions, results that are sentinels / exception instances / objects with
attributes named like the engine's own labels; copy / deepcopy / pickle duplicates of the engine mid-session; address reuse (fresh
equal-length strings dropped in a loop with gc.collect()); more exception types from tool bodies; execute_tool_call interleaved; a
strict UTF-8 text stream in verbose mode, hostile tool names registered next to the callable ones, hostile string literals; one
small probe in a child interpreter started with -O.
"""
import ast
import gc
import json
import os
import subprocess
import sys

from rv import core
from rv import vclock
from rv.exprgen import AllowedGen, PURE_NAMES, in_allowed_grammar
from rv.c02_gen import BoundaryGen, HostileGen, KIND_SWEEP, CHEAP_NAMES, NotCheap
from rv import c02_rig as rig

PID = "C02"
LEVEL = "exploration"
TECHNIQUE = "runtime monitoring by differential oracle: every generated allowed-subset expression is run through the real engine on each accepting pathway and compared with Python's own value under the same allow-listed names"
RULE = ("expressions generated from the allowed grammar (depth <= 5, literal exponents/repeat counts so evaluation is cheap, keyword arguments, chains, "
        "short-circuit corners, strings containing True/false/and/<, failing sub-expressions, integers above 2**53, floats one ulp / 1e-13 apart, "
        "denormals, nan/inf/-0.0, other literal spellings, whole expressions that are one literal), each run on auto-detect and on every forced "
        "pathway that accepts it and through digest_glucose; engines in default and non-default configurations (verbose, timeouts under a virtual "
        "clock, ROS limits + repair, capability sets, tools with/without schemas via every registration route, raising/mutating tools), several "
        "engines alternately, reporting APIs interleaved, long histories; round 4: operator x operand-kind sweep (empty operands included), sequence "
        "comparisons with equal-but-distinct elements, library identifiers as keyword names, repeated keywords, settings/registry changed mid-session, "
        "non-bool / Fraction / Decimal settings, one-shot tool iterables, falsy callables, duck-typed / sentinel results, copy/deepcopy/pickle duplicates, "
        "address reuse, strict output stream, hostile tool names, a -O child interpreter; "
        "non-trivial = >= 2 operators or a call; distinct = normalised ast.dump of the expression")
ASSUMPTIONS = ["the reference binds the lower-case spellings true/false only on the logic pathway (the normalisation the engine documents)",
               "a failure where Python succeeds is not a violation (the statement says 'whenever it reports success')",
               "value equality = same type and ==, NaN-aware, element-wise for lists/tuples (so 0.0 and -0.0 count as equal, as they do in Python)",
               "a registered tool is an allow-listed function on the tool pathway: Python's value of `tool(args, kw=...)` is the registered function applied to Python's values of the arguments",
               "leading blanks/tabs of the expression text are ignored by the reference, as Python's eval() ignores them",
               "an exception escaping metabolize() is C01's subject (totality) and is only counted here",
               "'Python's evaluation raises' includes the SyntaxError Python raises when it COMPILES the expression although ast.parse accepts the text "
               "(a keyword argument repeated in one call, wherever that call stands in the expression)",
               "the allow-listed names of an engine are those CURRENTLY registered on it: a tool withdrawn from the public registry is a NameError for the "
               "reference, a name re-bound to another function means that function, names added to the instance-level function table are bound for the "
               "reference as well; execute_tool_call() takes no expression and is driven but not judged",
               "process time zone (class C) and locks (class J) do not apply: the engine reads time.time() only and owns no lock"]

# long sessions: case -> (evaluations, variant); variant 0 = plain engine, 1 = configured engine on the default ROS limit kept alive with repair()
LONG = {"quick": {7: (22000, 0)},
        "thorough": {7: (30000, 0), 100007: (60000, 1), 300007: (30000, 0), 500007: (30000, 1), 700007: (30000, 0), 900007: (30000, 1),
                     1000007: (30000, 0), 1100007: (30000, 1)}}


def plan(tier):
    return {"cases": 80000 if tier == "quick" else 1200000, "shards": 8 if tier == "quick" else 14, "min_nontrivial": 5000,
            "timeout": 600 if tier == "quick" else 2400,
            "require": {"engine_success_compared": 20000, "python_raises_checked": 5000, "keyword_calls_compared": 300,
                        "chains_compared": 1000, "boolop_compared": 2000, "logic_pathway_compared": 3000, "math_pathway_compared": 3000,
                        "tool_args_compared": 500, "transform_pathway_compared": 200, "string_literal_with_keywords": 300,
                        "sessions": 1500, "session_steps": 8000, "session_failed_logic_evaluations": 500,
                        # round 3
                        "bare_numeric_literal_compared": 400, "near_comparisons_compared": 1500, "beyond_2**53_compared": 800,
                        "digest_glucose_compared": 800, "verbose_mode_compared": 2000, "virtual_clock_compared": 800,
                        "timed_out_mid_evaluation": 50, "nondefault_config_compared": 3000, "schema_tool_calls_compared": 500,
                        "tool_results_compared": 1500, "tool_call_python_raises_checked": 500, "tool_body_raised_checked": 60,
                        "undeclared_keyword_reached_tool": 100, "reads_interleaved": 1500, "repairs": 500,
                        "reevaluated_after_result_mutation": 150, "multi_instance_steps": 5000, "long_session_evaluations": 15000,
                        "registration_routes_used": 4,
                        # round 4
                        "sequence_comparisons_compared": 600, "mixed_kind_operations_judged": 4000, "kind_sweep_items": 1800,
                        "mixed_kind_python_raises_checked": 1500, "library_identifier_keywords_reached_tool": 300,
                        "identifier_sweep_calls": 100, "settings_changed_mid_session": 2000, "judged_after_settings_change": 2000,
                        "engine_duplicated": 400, "judged_on_duplicate": 800, "engine_duplicated:pickle": 150, "execute_tool_call_made": 1500, "churn_evaluations": 1500,
                        "strict_stream_compared": 1000, "call_style_variants_compared": 5000, "extended_allow_list_compared": 100,
                        "removed_tool_calls_checked": 20, "optimized_child_outcomes_judged": 100, "function_valued_arguments_compared": 150}}


class _Raised:
    def __init__(self, e):
        self.e = e

    def __repr__(self):
        return "raises %s" % type(self.e).__name__


def _r(x, n=200):
    """repr that cannot raise (an integer beyond the str() digit limit)"""
    try:
        return repr(x)[:n]
    except Exception:  # noqa
        return "<%s, unprintable>" % type(x).__name__


def same_value(a, b):
    """same type and ==, NaN-aware (also inside complex), recursive for lists/tuples"""
    if type(a) is not type(b):
        return False
    if isinstance(a, float):
        return (a != a and b != b) or a == b
    if isinstance(a, complex):
        return same_value(a.real, b.real) and same_value(a.imag, b.imag)
    if isinstance(a, (list, tuple)):
        return len(a) == len(b) and all(same_value(x, y) for x, y in zip(a, b))
    try:
        return bool(a == b)
    except Exception:
        return a is b


def _repeated_keyword(e):
    return isinstance(e, SyntaxError) and "keyword argument repeated" in str(e)


def _ref_tree(tree, ns):
    # confine: names may be unknown (-> NameError, legitimately "Python raises"), everything else must be in the grammar
    names = set(ns) | {n.id for n in ast.walk(tree) if isinstance(n, ast.Name)}
    if not in_allowed_grammar(tree, names=names):
        return None
    try:
        return eval(compile(tree, "<ref>", "eval"), {"__builtins__": {}}, ns)
    except (RecursionError, NotCheap):
        return None
    except BaseException as e:  # noqa
        return _Raised(e)


def reference(expr, lower_bools, extra=None):
    """Python's value of `expr` with the allow-listed names; _Raised if Python raises; None if not confinable."""
    try:
        tree = ast.parse(expr.lstrip(" \t"), mode="eval")
    except (SyntaxError, ValueError, RecursionError, MemoryError):
        return None
    ns = dict(CHEAP_NAMES)
    if lower_bools:
        ns["true"], ns["false"] = True, False
    if extra:
        ns.update(extra)
    return _ref_tree(tree, ns)


class Prepared:
    """an expression + the features the counters / mechanism keys are derived from"""

    def __init__(self, expr, mode="?"):
        self.expr = expr
        self.mode = mode
        self.tree = ast.parse(expr.lstrip(" \t"), mode="eval")
        walk = list(ast.walk(self.tree))
        self.nops = sum(isinstance(x, (ast.BinOp, ast.UnaryOp, ast.Compare, ast.BoolOp, ast.IfExp)) for x in walk)
        self.ncalls = sum(isinstance(x, ast.Call) for x in walk)
        self.has_kw = any(isinstance(x, ast.Call) and x.keywords for x in walk)
        self.has_chain = any(isinstance(x, ast.Compare) and len(x.ops) > 1 for x in walk)
        self.has_boolop = any(isinstance(x, ast.BoolOp) for x in walk)
        self.kw_in_str = any(isinstance(x, ast.Constant) and isinstance(x.value, str) and any(w in x.value for w in ("True", "False", "true", "false"))
                             for x in walk)
        self.big = any(isinstance(x, ast.Constant) and isinstance(x.value, (int, float)) and not isinstance(x.value, bool) and
                       x.value == x.value and abs(x.value) > 2 ** 53 for x in walk)
        body = self.tree.body
        while isinstance(body, ast.UnaryOp) and isinstance(body.op, (ast.USub, ast.UAdd)):
            body = body.operand
        self.bare = isinstance(body, (ast.Constant, ast.Name)) or (isinstance(body, (ast.List, ast.Tuple)) and len(body.elts) <= 1 and self.nops == 0)
        self.bare_num = self.bare and isinstance(body, ast.Constant) and isinstance(body.value, (int, float, complex)) and not isinstance(body.value, bool)
        self.near = False
        self.seqcmp = False
        self.mixed = False
        self.funcval = any(isinstance(x, ast.keyword) and x.arg == "key" for x in walk)


def judge(ctx, eng, p, pathway, extra_w=None):
    """run p.expr through eng on `pathway` and judge the two stated directions; returns the MetabolicResult (or None)"""
    from operon_ai.organelles.mitochondria import MetabolicPathway as MP
    expr = p.expr
    del eng.eng_log[:]
    del eng.ref_log[:]
    t_before = eng.clock.offset if eng.clock is not None else 0.0
    try:
        with eng.quiet():
            res = eng.call(expr, pathway)
    except BaseException:  # noqa
        ctx.count("engine_raised(totality is C01's subject)")
        return None
    used = res.atp.pathway if (res.success and res.atp is not None) else res.pathway
    w = {"expression": expr, "requested_pathway": pathway.value if pathway else None,
         "engine": {"success": res.success, "value": _r(res.atp.value) if res.success else None, "error": res.error,
                    "pathway": used.value if used else None}}
    if not eng.plain:
        w["engine_setup"] = eng.desc
    if extra_w:
        w.update(extra_w)
    if eng.clock is not None and eng.clock.offset - t_before > eng.timeout:
        ctx.count("timed_out_mid_evaluation")      # the virtual clock passed the deadline while the engine was evaluating
        ctx.count("timed_out_and_failed" if not res.success else "timed_out_and_succeeded")
    if used == MP.OXIDATIVE:
        judge_tool(ctx, eng, p, res, w)
        return res
    lower = (used == MP.KREBS_CYCLE)
    ref = reference(expr, lower, extra=eng.pure_extra)
    if ref is None:
        ctx.count("reference_not_confinable")
        return res
    w["python"] = _r(ref)
    if p.mixed:
        ctx.count("mixed_kind_operations_judged")
    if isinstance(ref, _Raised):
        ctx.count("python_raises_checked")
        if p.mixed:
            ctx.count("mixed_kind_python_raises_checked")
        if res.success:
            kind = type(ref.e).__name__
            mech = "success-where-python-raises:%s" % ("called-constant" if "not callable" in str(ref.e) else
                                                       "repeated-keyword" if _repeated_keyword(ref.e) else
                                                       "keyword-argument" if p.has_kw and kind == "TypeError" else kind)
            ctx.violation(mech, "engine reports success (%s) but Python raises %r" % (_r(res.atp.value), ref.e), w)
        return res
    if not res.success:
        ctx.count("engine_failure_where_python_succeeds(not judged)")
        return res
    ctx.count("engine_success_compared")
    expected = bool(ref) if used == MP.KREBS_CYCLE else ref
    ctx.count({MP.KREBS_CYCLE: "logic_pathway_compared", MP.GLYCOLYSIS: "math_pathway_compared",
               MP.BETA_OXIDATION: "transform_pathway_compared"}.get(used, "other_pathway_compared"))
    for flag, key in ((p.has_kw, "keyword_calls_compared"), (p.has_chain, "chains_compared"), (p.has_boolop, "boolop_compared"),
                      (p.kw_in_str, "string_literal_with_keywords"), (p.bare_num, "bare_numeric_literal_compared"),
                      (p.near, "near_comparisons_compared"), (p.big, "beyond_2**53_compared"),
                      (not eng.silent, "verbose_mode_compared"), (eng.clock is not None, "virtual_clock_compared"),
                      (not eng.plain, "nondefault_config_compared")) + _round4_flags(eng, p):
        if flag:
            ctx.count(key)
    if not same_value(res.atp.value, expected):
        if p.seqcmp and not p.has_kw:
            mech = "wrong-value:sequence-comparison"
        elif p.has_kw and not p.has_boolop:
            mech = "wrong-value:keyword-arguments-dropped"
        elif used == MP.KREBS_CYCLE and p.kw_in_str:
            mech = "wrong-value:logic-rewrite-inside-literal"
        elif p.has_boolop and used != MP.KREBS_CYCLE:
            mech = "wrong-value:boolop-not-operand-valued"
        elif p.bare:
            mech = "wrong-value:bare-literal:%s" % (used.value if used else "?")
        else:
            mech = "wrong-value:%s" % (used.value if used else "?")
        ctx.violation(mech, "engine value %s (%s) != Python value %s (%s) on the %s pathway" % (
            _r(res.atp.value), type(res.atp.value).__name__, _r(expected), type(expected).__name__, used.value if used else "?"), w)
    return res


def _round4_flags(eng, p):
    return ((p.seqcmp, "sequence_comparisons_compared"), (p.funcval, "function_valued_arguments_compared"),
            (not eng.silent and eng.strict_out, "strict_stream_compared"), (eng.style != "plain", "call_style_variants_compared"),
            (eng.changed, "judged_after_settings_change"), (eng.duplicated, "judged_on_duplicate"),
            (bool(eng.pure_extra) and any(k in p.expr for k in eng.pure_extra), "extended_allow_list_compared"))


def judge_tool(ctx, eng, p, res, w):
    """tool pathway: Python's value of the call = the registered function (its twin) applied to Python's values of the arguments"""
    eng_calls = list(eng.eng_log)
    ref = reference(p.expr, False, extra=dict(eng.pure_extra, **eng.ref_ns))
    ref_calls = list(eng.ref_log)
    if ref is None:
        ctx.count("reference_not_confinable")
        return
    w["python"] = _r(ref)
    w["python_tool_received"] = _r(ref_calls, 300)
    w["engine_tool_received"] = _r(eng_calls, 300)
    call = p.tree.body
    fname = call.func.id if isinstance(call, ast.Call) and isinstance(call.func, ast.Name) else None
    schema = eng.schemas.get(fname)
    if isinstance(ref, _Raised):
        ctx.count("python_raises_checked")
        ctx.count("tool_call_python_raises_checked")
        if ref_calls:
            ctx.count("tool_body_raised_checked")
        if fname in eng.removed:
            ctx.count("removed_tool_calls_checked")
        if res.success:
            if ref_calls:
                mech = "success-where-python-raises:tool-body"
            elif _repeated_keyword(ref.e):
                mech = "success-where-python-raises:repeated-keyword"
            else:
                ns = dict(CHEAP_NAMES)
                parts = [a for a in call.args] + [k.value for k in call.keywords] if isinstance(call, ast.Call) else []
                bad = any(isinstance(_ref_tree(ast.fix_missing_locations(ast.Expression(body=a)), ns), _Raised) for a in parts)
                mech = "success-where-python-raises:" + ("tool-args" if bad else "tool-not-registered" if isinstance(ref.e, NameError) else "tool-binding")
            ctx.violation(mech, "tool call succeeded (%s) although Python raises %r" % (_r(res.atp.value), ref.e), w)
        return
    if not res.success:
        ctx.count("engine_failure_where_python_succeeds(not judged)")
        return
    ctx.count("engine_success_compared")
    ctx.count("tool_args_compared")
    ctx.count("tool_results_compared")
    if schema:
        ctx.count("schema_tool_calls_compared")
        if isinstance(call, ast.Call) and any(k.arg not in schema for k in call.keywords):
            ctx.count("undeclared_keyword_reached_tool")
    libkw = isinstance(call, ast.Call) and any(k.arg in _lib_idents() for k in call.keywords)
    for flag, key in ((not eng.silent, "verbose_mode_compared"), (eng.clock is not None, "virtual_clock_compared"),
                      (not eng.plain, "nondefault_config_compared"), (p.has_kw, "keyword_calls_compared"),
                      (libkw, "library_identifier_keywords_reached_tool")) + _round4_flags(eng, p):
        if flag:
            ctx.count(key)
    if len(eng_calls) != len(ref_calls):
        ctx.violation("tool-invocation-count", "tool ran %d times for one successful call (Python: %d)" % (len(eng_calls), len(ref_calls)), w)
        return
    for (ea, ek), (ra, rk) in zip(eng_calls, ref_calls):
        if not same_value(ea, ra):
            ctx.violation("wrong-value:tool-positional-args", "tool received %s, Python evaluates the arguments to %s" % (_r(ea), _r(ra)), w)
            return
        if not same_value(ek, rk):
            ctx.violation("wrong-value:tool-keyword-args", "tool received keywords %s, Python evaluates them to %s" % (_r(ek), _r(rk)), w)
            return
    if not same_value(res.atp.value, ref):
        ctx.violation("wrong-value:tool-result", "engine value %s != value of the call in Python %s" % (_r(res.atp.value), _r(ref)), w)


_LIB = None


def _lib_idents():
    global _LIB
    if _LIB is None:
        _LIB = frozenset(rig.lib_identifiers())
    return _LIB


def judge_digest(ctx, eng, p):
    """legacy entry point: str(value) on the math pathway, or a 'Metabolic Failure' text"""
    try:
        with eng.quiet():
            out = eng.mito.digest_glucose(p.expr)
    except BaseException:  # noqa
        ctx.count("engine_raised(totality is C01's subject)")
        return
    ref = reference(p.expr, False, extra=eng.pure_extra)
    if ref is None or not isinstance(out, str):
        return
    failed = out.startswith("Metabolic Failure")
    w = {"expression": p.expr, "entry": "digest_glucose", "engine": out[:200], "python": _r(ref)}
    if isinstance(ref, _Raised):
        ctx.count("python_raises_checked")
        if not failed:
            ctx.violation("success-where-python-raises:digest_glucose", "digest_glucose returned %r but Python raises %r" % (out[:80], ref.e), w)
        return
    if failed:
        return
    try:
        want = str(ref)
    except ValueError:
        return
    if want.startswith("Metabolic Failure"):
        return
    ctx.count("digest_glucose_compared")
    if p.big:
        ctx.count("beyond_2**53_compared")
    if out != want:
        ctx.violation("wrong-value:digest_glucose", "digest_glucose returned %r, str() of Python's value is %r" % (out[:80], want[:80]), w)


# ------------------------------------------------------------------------------------------------ workload
def make_expression(rng, eng, in_session, boundary, depth=None, hostile=False):
    """-> (Prepared, [(pathway, label)], also_digest) or None when the text does not parse"""
    from operon_ai.organelles.mitochondria import MetabolicPathway as MP
    mode = rng.choice(["math", "math", "logic", "logic", "auto", "auto", "tool", "transform"] + ["tool"] * eng.tool_bias)
    # in a session the lower-case spellings may also appear where they are NOT names Python knows (math / tool pathway)
    lower = (mode == "logic" or (mode == "auto" and rng.random() < 0.3) or (in_session and rng.random() < 0.35))
    if hostile:
        g = HostileGen(rng, lower_bools=lower)
    else:
        g = BoundaryGen(rng, lower_bools=lower) if boundary else AllowedGen(rng, lower_bools=lower)
    if depth is None:
        depth = rng.choice([1, 2, 2, 3, 3, 4, 5])
    if mode == "tool":
        expr = rig.tool_call_source(rng, g, eng, depth - 1)
        runs = [(rng.choice([MP.OXIDATIVE, None]), "tool")]
    elif mode == "transform":
        expr = g.lst(min(depth, 2))
        if not expr.startswith("["):
            expr = "[%s]" % expr
        runs = [(MP.BETA_OXIDATION, "transform"), (None, "auto")]
    else:
        expr = g.top(depth)
        if rng.random() < 0.15 and expr.startswith("(") and expr.endswith(")"):
            expr = expr[1:-1]
        runs = {"math": [(MP.GLYCOLYSIS, "math")], "logic": [(MP.KREBS_CYCLE, "logic")],
                "auto": [(None, "auto"), (rng.choice([MP.GLYCOLYSIS, MP.KREBS_CYCLE]), "forced")]}[mode]
        if eng.pure_extra and rng.random() < 0.4:
            # names this engine's allow-list was extended with
            expr = rng.choice(["twice(%s)", "(%s, twice(2))", "clamp(%s, hi=5)", "(halfpi * 2 == pi, %s)", "clamp(x=%s)", "twice(x=%s)"]) % expr
    try:
        p = Prepared(expr, mode)
    except (SyntaxError, ValueError):
        return None
    p.near = bool(getattr(g, "near_made", 0))
    p.seqcmp = bool(getattr(g, "seqcmp_made", 0))
    p.mixed = bool(getattr(g, "mixed_made", 0))
    digest = mode in ("math", "auto") and rng.random() < (0.5 if boundary else 0.1)
    return p, runs, digest


def one_expression(ctx, n, rng, eng, in_session, boundary=False, depth=None, hostile=False):
    made = make_expression(rng, eng, in_session, boundary, depth, hostile)
    if made is None:
        ctx.count("generator_syntax_error")
        return None
    p, runs, digest = made
    last = None
    for pathway, label in runs:
        last = (judge(ctx, eng, p, pathway), pathway)
    if digest:
        judge_digest(ctx, eng, p)
    if p.nops >= 2 or p.ncalls >= 1:
        ctx.nontrivial(ast.dump(p.tree))
    if n % 5000 == 0:
        ctx.sample({"expression": p.expr, "mode": p.mode, "engine_setup": eng.desc})
    return p, last


def reads(ctx, rng, eng):
    """reporting / read-only APIs: calling them (and scribbling on what they return) must not change any later verdict"""
    m = eng.mito
    with eng.quiet():
        for _ in range(rng.randint(1, 3)):
            k = rng.randrange(6)
            try:
                if k == 0:
                    s = m.get_statistics()
                    if isinstance(s, dict):
                        for v in s.values():
                            if isinstance(v, list):
                                del v[:]
                        s.clear()
                elif k == 1:
                    lst = m.list_tools()
                    if isinstance(lst, list):
                        for d in lst:
                            if isinstance(d, dict):
                                d.clear()
                        del lst[:]
                elif k == 2:
                    out = m.export_tool_schemas()
                    if isinstance(out, list):
                        del out[:]
                elif k == 3:
                    m.get_efficiency()
                elif k == 4:
                    m.get_ros_level()
                else:
                    repr(m), str(m)
            except Exception:  # noqa
                ctx.count("read_api_raised(not judged)")
    ctx.count("reads_interleaved")


def maintenance(ctx, rng, eng, force=False):
    """repair(): the maintenance API that adjusts the accumulated-error level"""
    m = eng.mito
    with eng.quiet():
        try:
            if force:
                m.repair(1e9)
            else:
                r = rng.random()
                if r < 0.4:
                    m.repair()
                else:
                    m.repair(rng.choice([0, 0.1, 0.5, 1, 2.5, 1e9, 0.1 + 0.2, 1e-12, float("inf"), -0.05, 10 ** 30]))
        except Exception:  # noqa
            ctx.count("repair_raised(not judged)")
    ctx.count("repairs")


def healthy(eng):
    try:
        return eng.mito.get_ros_level() < eng.mito.max_ros
    except Exception:  # noqa
        return True


def reevaluate_after_mutation(ctx, rng, eng, p, last):
    """the caller scribbles on the value it got back, then asks for the same expression again (same str object / an equal copy)"""
    res, pathway = last
    if res is None or not res.success or res.atp is None:
        return
    v = res.atp.value
    if v is rig.SHARED_CONSTANT:
        return
    if isinstance(v, list):
        v.append("scribble")
        if v and rng.random() < 0.5:
            v[0] = ["scribble"]
    elif isinstance(v, tuple) and any(isinstance(x, list) for x in v):
        for x in v:
            if isinstance(x, list):
                x.append("scribble")
    elif rng.random() < 0.8:
        return
    again = p
    if rng.random() < 0.5:
        try:
            again = Prepared((p.expr + " ")[:-1] if rng.random() < 0.5 else p.expr + " ", p.mode)
        except (SyntaxError, ValueError):
            again = p
        again.near = p.near
    ctx.count("reevaluated_after_result_mutation")
    judge(ctx, eng, again, pathway, {"note": "second evaluation after the first result object was modified by the caller"})


FAILING_LOGIC = ["true and 1/0 > 0", "false or foo", "(true, 1/0)", "not (1/0)", "true and len(5)"]


def session(ctx, n, rng, engines, steps, boundary_share=0.3, extras=True, label=None):
    """`steps` unrelated expressions (failing ones included) on long-lived engine(s); anything an earlier evaluation, a read, a repair,
    a raising tool or ANOTHER engine leaves behind on the engine, its class or its module would show up as a wrong value / missing failure"""
    from operon_ai.organelles.mitochondria import MetabolicPathway as MP
    for k in range(steps):
        eng = engines[0] if len(engines) == 1 else rng.choice(engines)
        ctx.count("session_steps")
        if label:
            ctx.count(label)
        if k and rng.random() < 0.3:
            # an expression that fails part-way on the logic pathway (names true/false involved), then carry on
            try:
                with eng.quiet():
                    eng.mito.metabolize(rng.choice(FAILING_LOGIC), rng.choice([None, MP.KREBS_CYCLE]))
            except BaseException:  # noqa
                pass
            ctx.count("session_failed_logic_evaluations")
        if extras:
            r = rng.random()
            if r < 0.25:
                reads(ctx, rng, eng)
            elif r < 0.4:
                maintenance(ctx, rng, eng)
            r = rng.random()
            if r < 0.14:
                try:
                    rig.reconfigure(ctx, rng, eng)
                except Exception:  # noqa  (the engine refused the assignment: its state and the harness' picture are unchanged)
                    ctx.count("setting_not_assignable(not judged)")
                eng.changed = True
                eng.plain = False
                eng.desc = dict(eng.desc, settings_changed_mid_session=True)
            elif r < 0.19:
                before = eng.mito
                rig.duplicate(ctx, rng, eng)
                if eng.mito is not before:
                    eng.duplicated = True
                    eng.plain = False
                    eng.desc = dict(eng.desc, engine_is_a_duplicate=True)
            elif r < 0.27:
                rig.direct_tool_call(ctx, rng, eng)
            if not healthy(eng) and rng.random() < 0.7:
                maintenance(ctx, rng, eng, force=True)
        hb = rng.random()
        out = one_expression(ctx, n, rng, eng, True, boundary=hb < boundary_share, hostile=hb > 0.75)
        if extras and out is not None and out[1] is not None and rng.random() < 0.35:
            reevaluate_after_mutation(ctx, rng, eng, out[0], out[1])


def long_session(ctx, n, rng, ops, variant):
    """one engine, > 20 000 evaluations of distinct small expressions; early expressions are asked again much later; tools keep being
    registered; the ROS level is kept in check with repair() on the default limit every other long session"""
    eng = rig.build_engine(rng, plain=(variant == 0), want_tools=3, force_kw={"max_ros": 1.0, "timeout_seconds": 1e9})
    early = []
    for k in range(ops):
        ctx.count("long_session_evaluations")
        if variant and k % 4 == 0 and not healthy(eng):
            maintenance(ctx, rng, eng, force=True)
        if k % 2500 == 2499:
            reads(ctx, rng, eng)
            for i in range(10):                     # late registrations
                name = "late%d_%d" % (k, i)
                kind = rng.choice(sorted(rig.KINDS))
                with eng.quiet():
                    eng.mito.register_function(name, rig.make_tool(kind, eng.eng_log, None), parameters_schema=rig.schema_for(rng, kind))
                eng.kinds[name] = kind
                eng.ref_ns[name] = rig.make_tool(kind, eng.ref_log, None)
                eng.schemas[name] = None      # (not counted as a schema call)
        if early and rng.random() < 0.08:
            p, pathway = rng.choice(early)
            judge(ctx, eng, p, pathway, {"note": "asked again at evaluation %d of a long session" % k})
            continue
        out = one_expression(ctx, n, rng, eng, True, boundary=rng.random() < 0.4, depth=rng.choice([1, 1, 2, 2, 3]))
        if out is not None and out[1] is not None and (len(early) < 400 or rng.random() < 0.01):
            early.append((out[0], out[1][1]))
            if len(early) > 800:
                del early[rng.randrange(400)]


def kind_sweep(ctx, n, rng, idx):
    """systematic: every operator / one-argument function on every pairing of operand kinds (numbers, booleans, strings, lists, tuples,
    each also empty), on both forced pathways and auto-detected"""
    from operon_ai.organelles.mitochondria import MetabolicPathway as MP
    eng = rig.build_engine(rng, plain=True)
    for item in (KIND_SWEEP[(2 * idx) % len(KIND_SWEEP)], KIND_SWEEP[(2 * idx + 1) % len(KIND_SWEEP)]):
        p = Prepared(item, "sweep")
        p.mixed = True
        ctx.count("kind_sweep_items")
        for pathway in (MP.GLYCOLYSIS, MP.KREBS_CYCLE, None):
            judge(ctx, eng, p, pathway)
        ctx.nontrivial(ast.dump(p.tree))


def identifier_sweep(ctx, n, rng, idx):
    """systematic: every identifier the engine's module uses for a parameter or a local variable, as the NAME of a keyword argument of a
    tool call (alone, and next to other keywords)"""
    from operon_ai.organelles.mitochondria import MetabolicPathway as MP
    idents = rig.lib_identifiers()
    eng = rig.build_engine(rng, plain=True)
    fn = rig.make_tool("describe", eng.eng_log, None)
    eng.mito.engulf_tool(rig.CustomTool("describe", "protocol object", fn))
    eng.kinds["describe"] = "describe"
    eng.ref_ns["describe"] = rig.make_tool("describe", eng.ref_log, None)
    name = idents[idx % len(idents)]
    other = idents[(idx * 7 + 3) % len(idents)]
    exprs = ["probe(1, %s=2)" % name, "describe('t', %s=[1, 2])" % name, "probe(%s=1 + 1, k=3)" % name]
    if other != name:
        exprs.append("probe(0, %s='x', %s=('y',))" % (other, name))
    for expr in exprs:
        p = Prepared(expr, "tool")
        ctx.count("identifier_sweep_calls")
        for pathway in (MP.OXIDATIVE, None):
            judge(ctx, eng, p, pathway)


def churn(ctx, n, rng, eng):
    """address reuse: many short-lived, equal-length, freshly built expression strings (and fresh results) created and dropped in a
    loop with collections in between; each is judged like any other expression"""
    from operon_ai.organelles.mitochondria import MetabolicPathway as MP
    pathway = rng.choice([MP.GLYCOLYSIS, MP.KREBS_CYCLE, None])
    shape = rng.choice(["%d %s %d", "[%d] %s [%d]", "(%d %s %d, 0)", "probe(%d, k=%d)", "%d %s %d.0", "len('%d') %s %d"])
    for i in range(32):
        a, b = rng.randrange(10, 100), rng.randrange(10, 100)
        if shape.count("%") == 3:
            expr = shape % (a, rng.choice(["+", "-", "*", "%", "<", ">"] if not shape.startswith("[") else ["+", "<", ">"]), b)
        else:
            expr = shape % (a, b)
        p = Prepared(expr, "churn")
        ctx.count("churn_evaluations")
        res = judge(ctx, eng, p, pathway if "probe" not in shape else rng.choice([MP.OXIDATIVE, None]))
        del p, expr, res
        if i % 16 == 15:
            gc.collect()


OPT_CASE = 19      # the case that starts the -O child interpreter


def _unsigned_zero(text):
    """0.0 and -0.0 count as equal (see ASSUMPTIONS); only a complete -0.0 token is rewritten"""
    import re
    return re.sub(r"(?<![0-9.])-0\.0(?![0-9eE_])", "0.0", text)


def optimized_child(ctx, n, rng):
    """one small probe in a child interpreter started with -O (assert statements are compiled away): refusals and values as everywhere"""
    g = AllowedGen(rng)
    items = [(g.failing(1), None) for _ in range(40)]
    items += [(e, None) for e in ["pi()", "e(2)", "len(5)", "nosuch(1)", "probe(1, k=2)", "probe(", "abs(1, nosuch=2)", "round(2.567, ndigits=2)",
                                  "1 if 1 / 0 else 2", "[1, 2] + ()", "'a' + 1", "-'a'", "not 1 / 0", "1 < 'a'", "max([])", "unknown", "probe2(1)",
                                  "(1, 2) + [3]", "2 ** 3 ** 2", "1 < 2 < 3 > 0", "'True' == 'true'", "sum([1, 2], start=3)", "0 and 1 / 0"]]
    items += [(rng.choice(KIND_SWEEP), None) for _ in range(120)]
    items += [(g.top(3), None) for _ in range(40)]
    spec = []
    for expr, _ in items:
        for pw in ("GLYCOLYSIS", "KREBS_CYCLE", None):
            spec.append([expr, pw])
    try:
        r = subprocess.run([sys.executable, "-O", "-B", "-m", "rv.c02_child"], input=json.dumps(spec), capture_output=True, text=True,
                           timeout=600, cwd=core.VERIF, env=dict(os.environ))
        data = json.loads(r.stdout)
    except Exception as e:  # noqa
        ctx.inconclusive("the -O child interpreter could not be run: %r" % (e,))
        return
    if data.get("debug") is not False:
        ctx.inconclusive("the child interpreter did not run with -O")
        return

    class _E:
        pass
    for (expr, pw), rec in zip(spec, data["results"]):
        if "raised" in rec:
            ctx.count("engine_raised(totality is C01's subject)")
            continue
        used = rec.get("pathway") if rec["success"] else pw
        if used == "OXIDATIVE" or (used is None):
            if not rec["success"]:
                continue
        w = {"expression": expr, "requested_pathway": pw, "interpreter": "python -O", "engine": rec}
        if used == "OXIDATIVE":
            log = []

            def probe(*a, **k):
                log.append(1)
                return ("probe", a, tuple(sorted(k.items())))
            ref = reference(expr, False, extra={"probe": probe})
        elif used == "BETA_OXIDATION":
            ref = reference(expr, False)
        else:
            ref = reference(expr, used == "KREBS_CYCLE")
        if ref is None:
            continue
        ctx.count("optimized_child_outcomes_judged")
        w["python"] = _r(ref)
        if isinstance(ref, _Raised):
            if rec["success"]:
                ctx.violation("optimized-interpreter:success-where-python-raises", "under python -O the engine reports success (%s) but Python raises %r"
                              % (rec.get("value"), ref.e), w)
            continue
        if not rec["success"] or rec.get("value") is None:
            continue
        expected = bool(ref) if used == "KREBS_CYCLE" else ref
        try:
            want = repr(expected)
        except Exception:  # noqa
            continue
        if _unsigned_zero(rec["value"]) != _unsigned_zero(want) or rec.get("type") != type(expected).__name__:
            ctx.violation("optimized-interpreter:wrong-value", "under python -O the engine returns %s, Python's value is %s" % (rec["value"], want), w)


def run_case(ctx, n):
    """Case kinds by n % 10 (all pure functions of (seed, n)):
    0-3     one expression on a fresh plain engine (2, 3: boundary generator; a share with the hostile generator)
    9       systematic sweeps (operator x operand kinds; library identifiers as keyword names), then hostile-generator expressions;
            case 19 runs the -O child interpreter
    4       session of 3-7 expressions on one plain engine (+ reads, repairs, re-evaluation after result mutation)
    5       engine in a non-default configuration (verbose, timeout under a self-advancing virtual clock, ROS limit, capabilities), short session
    6       tool family: tools of several signatures, with/without schema, every registration route, raising / mutating / shared-object tools
    7       two or three differently configured engines (same tool names, different functions) used alternately
    8       boundary generator: near comparisons, degenerate whole expressions, digest_glucose
    plus the long sessions listed in LONG."""
    import operon_ai.organelles.mitochondria as mitomod
    rng = ctx.rng(n)
    long = LONG.get(ctx.tier, {}).get(n)
    if long:
        return long_session(ctx, n, rng, *long)
    kind = n % 10
    if n == OPT_CASE:
        optimized_child(ctx, n, ctx.rng(n, "child"))
    if n == 7:
        rig.public_surface(ctx, rig.build_engine(rng, plain=True))
    if kind == 9:
        idx = n // 10
        if idx < (len(KIND_SWEEP) + 1) // 2:
            kind_sweep(ctx, n, rng, idx)
        if idx < 4 * len(rig.lib_identifiers()):
            identifier_sweep(ctx, n, rng, idx)
        eng = rig.build_engine(rng, plain=True)
        one_expression(ctx, n, rng, eng, False, hostile=True)
    elif kind in (0, 1, 2, 3):
        eng = rig.build_engine(rng, plain=True)
        one_expression(ctx, n, rng, eng, False, boundary=kind in (2, 3), hostile=rng.random() < 0.15)
    elif kind == 4:
        ctx.count("sessions")
        r = rng.random()
        if r < 0.04:
            churn(ctx, n, rng, rig.build_engine(rng, plain=True))
        elif r < 0.2:
            # an engine without tools in a non-default configuration (it can be pickled: no closures inside)
            eng = rig.build_engine(rng, want_tools=-1)
            try:
                with eng.quiet():
                    eng.mito.metabolize(rng.choice(FAILING_LOGIC))      # some state to carry over
            except BaseException:  # noqa
                pass
            before = eng.mito
            rig.duplicate(ctx, rng, eng, how="pickle")
            if eng.mito is not before:
                eng.duplicated = True
            session(ctx, n, rng, [eng], rng.randint(3, 7))
        else:
            session(ctx, n, rng, [rig.build_engine(rng, plain=True)], rng.randint(3, 7))
    elif kind == 8:
        eng = rig.build_engine(rng, plain=True)
        for _ in range(2):
            one_expression(ctx, n, rng, eng, False, boundary=True, depth=rng.choice([0, 1, 1, 2, 2, 3]))
    else:
        # non-default engines; half of them under a virtual clock that moves on every read
        clock = None
        if rng.random() < (0.6 if kind == 5 else 0.3):
            step = rng.choice([0.0, 0.0, 1e-6, 1e-6, 1e-3, 1e-3, 0.013, 0.05, 0.25, 1.0, 0.1 + 0.2, 3600.0, 90000.0])
            clock = rig.StepClock(step)
        if kind == 7:
            names = rng.sample(rig.TOOL_NAMES, 2)
            engines = [rig.build_engine(rng, clock, names=names) for _ in range(rng.randint(2, 3))]
            label = "multi_instance_steps"
        else:
            engines = [rig.build_engine(rng, clock, want_tools=rng.randint(2, 5) if kind == 6 else 0)]
            label = None
        for e in engines:
            e.tool_bias = {5: 1, 6: 10, 7: 4}[kind]
        for e in engines:
            for r in e.routes:
                ctx.count("route:" + r)
                if ("route", r) not in _seen:
                    _seen.add(("route", r))
                    ctx.count("registration_routes_used")
        steps = rng.randint(3, 7) if kind != 7 else rng.randint(4, 8)
        if clock is not None:
            with vclock.patched(clock, mitomod):
                session(ctx, n, rng, engines, steps, label=label)
        else:
            session(ctx, n, rng, engines, steps, label=label)


_seen = set()


if __name__ == "__main__":
    core.main(sys.modules[__name__])
