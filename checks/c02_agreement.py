"""C02 — the safe evaluator computes the same value Python would on the allowed subset.

Oracle: an independent reference evaluation — the generated expression is first CHECKED to lie in
the allowed grammar (own classifier), then evaluated by Python itself with no builtins and a
namespace built from the verif-side list of allow-listed names. Only the stated directions are
judged: engine success => value equals Python's (bool-coerced on the logic pathway); Python
raises => the engine must report failure. A stub tool records the argument values it receives, so
arguments on the tool pathway are compared too.
"""
import ast
import sys

from rv import core
from rv.exprgen import AllowedGen, PURE_NAMES, in_allowed_grammar, values_equal

PID = "C02"
LEVEL = "exploration"
TECHNIQUE = "runtime monitoring by differential oracle: every generated allowed-subset expression is run through the real engine on each accepting pathway and compared with Python's own value under the same allow-listed names"
RULE = ("expressions generated from the allowed grammar (depth <= 5, literal exponents/repeat counts so evaluation is cheap, keyword arguments, chains, "
        "short-circuit corners, strings containing True/false/and/<, failing sub-expressions), each run on auto-detect and on every forced pathway that "
        "accepts it; non-trivial = >= 2 operators or a call; distinct = normalised ast.dump of the expression")
ASSUMPTIONS = ["the reference binds the lower-case spellings true/false only on the logic pathway (the normalisation the engine documents)",
               "a failure where Python succeeds is not a violation (the statement says 'whenever it reports success')",
               "value equality = same type and ==, NaN-aware, element-wise for lists/tuples"]


def plan(tier):
    return {"cases": 120000 if tier == "quick" else 1500000, "shards": 8 if tier == "quick" else 14, "min_nontrivial": 5000,
            "timeout": 600 if tier == "quick" else 2400,
            "require": {"engine_success_compared": 20000, "python_raises_checked": 5000, "keyword_calls_compared": 300,
                        "chains_compared": 1000, "boolop_compared": 2000, "logic_pathway_compared": 3000, "math_pathway_compared": 3000,
                        "tool_args_compared": 500, "transform_pathway_compared": 200, "string_literal_with_keywords": 300,
                        "sessions": 2000, "session_steps": 8000, "session_failed_logic_evaluations": 500}}


class _Raised:
    def __init__(self, e):
        self.e = e

    def __repr__(self):
        return "raises %s" % type(self.e).__name__


def reference(expr, lower_bools, extra=None):
    """Python's value of `expr` with the allow-listed names; _Raised if Python raises; None if not confinable."""
    try:
        tree = ast.parse(expr, mode="eval")
    except (SyntaxError, ValueError, RecursionError, MemoryError):
        return None
    ns = dict(PURE_NAMES)
    if lower_bools:
        ns["true"], ns["false"] = True, False
    if extra:
        ns.update(extra)
    # confine: names may be unknown (-> NameError, legitimately "Python raises"), everything else must be in the grammar
    names = set(ns) | {n.id for n in ast.walk(tree) if isinstance(n, ast.Name)}
    if not in_allowed_grammar(tree, names=names):
        return None
    try:
        return eval(compile(tree, "<ref>", "eval"), {"__builtins__": {}}, ns)
    except RecursionError:
        return None
    except BaseException as e:  # noqa
        return _Raised(e)


def run_case(ctx, n):
    """One engine per case. Most cases evaluate one generated expression (on 1-2 pathways); every fifth case is a SESSION: the same
    engine evaluates 3-7 unrelated expressions in a row (failing ones included), so that anything an earlier evaluation leaves
    behind on the engine, its class or its module would show up as a wrong value / missing failure later."""
    from operon_ai.organelles.mitochondria import Mitochondria
    rng = ctx.rng(n)
    got_args = []

    def probe(*a, **k):
        got_args.append((a, k))
        return "probe-result"

    mito = Mitochondria(silent=True, max_ros=1e12)
    mito.register_function("probe", probe, "records its arguments")
    steps = 1
    if n % 5 == 4:
        steps = rng.randint(3, 7)
        ctx.count("sessions")
    for k in range(steps):
        if steps > 1:
            ctx.count("session_steps")
            if k and rng.random() < 0.3:
                # an expression that fails part-way on the logic pathway (names true/false involved), then carry on
                fail = rng.choice(["true and 1/0 > 0", "false or foo", "(true, 1/0)", "not (1/0)", "true and len(5)"])
                try:
                    mito.metabolize(fail, rng.choice([None, __import__("operon_ai.organelles.mitochondria", fromlist=["x"]).MetabolicPathway.KREBS_CYCLE]))
                except BaseException:
                    pass
                ctx.count("session_failed_logic_evaluations")
        one_expression(ctx, n, rng, mito, got_args, in_session=steps > 1)


def one_expression(ctx, n, rng, mito, got_args, in_session):
    from operon_ai.organelles.mitochondria import MetabolicPathway as MP
    mode = rng.choice(["math", "math", "logic", "logic", "auto", "auto", "tool", "transform"])
    # in a session the lower-case spellings may also appear where they are NOT names Python knows (math / tool pathway)
    lower = (mode == "logic" or (mode == "auto" and rng.random() < 0.3) or (in_session and rng.random() < 0.35))
    g = AllowedGen(rng, lower_bools=lower)
    depth = rng.choice([1, 2, 2, 3, 3, 4, 5])
    if mode == "tool":
        nargs = rng.randint(0, 3)
        argsrc = [g.anyv(depth - 1) for _ in range(nargs)]
        kwsrc = {"k%d" % i: g.anyv(depth - 1) for i in range(rng.randint(0, 2))}
        expr = "probe(%s)" % ", ".join(argsrc + ["%s=%s" % kv for kv in kwsrc.items()])
        runs = [(rng.choice([MP.OXIDATIVE, None]), "tool")]
    elif mode == "transform":
        expr = g.lst(min(depth, 2))
        if not expr.startswith("["):
            expr = "[%s]" % expr
        runs = [(MP.BETA_OXIDATION, "transform"), (None, "auto")]
    else:
        expr = g.top(depth)
        if rng.random() < 0.15 and expr.startswith("(") and expr.endswith(")"):
            expr = expr[1:-1]
        runs = {"math": [(MP.GLYCOLYSIS, "math")], "logic": [(MP.KREBS_CYCLE, "logic")],
                "auto": [(None, "auto"), (rng.choice([MP.GLYCOLYSIS, MP.KREBS_CYCLE]), "forced")]}[mode]
    try:
        tree = ast.parse(expr, mode="eval")
    except SyntaxError:
        ctx.count("generator_syntax_error")
        return
    nops = sum(isinstance(x, (ast.BinOp, ast.UnaryOp, ast.Compare, ast.BoolOp, ast.IfExp)) for x in ast.walk(tree))
    ncalls = sum(isinstance(x, ast.Call) for x in ast.walk(tree))
    has_kw = any(isinstance(x, ast.Call) and x.keywords for x in ast.walk(tree))
    has_chain = any(isinstance(x, ast.Compare) and len(x.ops) > 1 for x in ast.walk(tree))
    has_boolop = any(isinstance(x, ast.BoolOp) for x in ast.walk(tree))
    kw_in_str = any(isinstance(x, ast.Constant) and isinstance(x.value, str) and any(w in x.value for w in ("True", "False", "true", "false"))
                    for x in ast.walk(tree))

    for pathway, label in runs:
        del got_args[:]
        try:
            res = mito.metabolize(expr, pathway)
        except BaseException as e:
            ctx.count("engine_raised(totality is C01's subject)")
            continue
        used = res.atp.pathway if (res.success and res.atp is not None) else res.pathway
        w = {"expression": expr, "requested_pathway": pathway.value if pathway else None,
             "engine": {"success": res.success, "value": repr(res.atp.value)[:200] if res.success else None, "error": res.error,
                        "pathway": used.value if used else None}}
        if used == MP.OXIDATIVE or mode == "tool":
            # compare what the tool actually received with Python's values of the argument expressions
            if mode != "tool":
                continue
            refs = [reference(a, False) for a in argsrc]
            krefs = {k: reference(v, False) for k, v in kwsrc.items()}
            if any(r is None for r in refs) or any(r is None for r in krefs.values()):
                continue
            any_raise = any(isinstance(r, _Raised) for r in refs) or any(isinstance(r, _Raised) for r in krefs.values())
            w["python_args"] = [repr(r)[:80] for r in refs] + ["%s=%r" % (k, v) for k, v in krefs.items()]
            if res.success:
                if any_raise:
                    ctx.violation("success-where-python-raises:tool-args", "tool call succeeded although evaluating an argument raises in Python", w)
                elif len(got_args) != 1:
                    ctx.violation("tool-invocation-count", "tool ran %d times for one successful call" % len(got_args), w)
                else:
                    a, k = got_args[0]
                    ctx.count("tool_args_compared")
                    if len(a) != len(refs) or not all(values_equal(x, y) for x, y in zip(a, refs)):
                        ctx.violation("wrong-value:tool-positional-args", "tool received %r, Python evaluates the arguments to %r" % (a, refs), w)
                    elif set(k) != set(krefs) or not all(values_equal(k[x], krefs[x]) for x in krefs):
                        ctx.violation("wrong-value:tool-keyword-args", "tool received keywords %r, Python evaluates them to %r" % (k, krefs), w)
            elif any_raise:
                ctx.count("python_raises_checked")
            continue
        lower = (used == MP.KREBS_CYCLE)
        ref = reference(expr, lower)
        if ref is None:
            ctx.count("reference_not_confinable")
            continue
        w["python"] = repr(ref)[:200]
        if isinstance(ref, _Raised):
            ctx.count("python_raises_checked")
            if res.success:
                kind = type(ref.e).__name__
                mech = "success-where-python-raises:%s" % ("called-constant" if "not callable" in str(ref.e) else
                                                           "keyword-argument" if has_kw and kind == "TypeError" else kind)
                ctx.violation(mech, "engine reports success (%r) but Python raises %r" % (res.atp.value, ref.e), w)
            continue
        if not res.success:
            ctx.count("engine_failure_where_python_succeeds(not judged)")
            continue
        ctx.count("engine_success_compared")
        expected = bool(ref) if used == MP.KREBS_CYCLE else ref
        ctx.count({MP.KREBS_CYCLE: "logic_pathway_compared", MP.GLYCOLYSIS: "math_pathway_compared",
                   MP.BETA_OXIDATION: "transform_pathway_compared"}.get(used, "other_pathway_compared"))
        if has_kw:
            ctx.count("keyword_calls_compared")
        if has_chain:
            ctx.count("chains_compared")
        if has_boolop:
            ctx.count("boolop_compared")
        if kw_in_str:
            ctx.count("string_literal_with_keywords")
        if not values_equal(res.atp.value, expected):
            if has_kw and not has_boolop:
                mech = "wrong-value:keyword-arguments-dropped"
            elif used == MP.KREBS_CYCLE and kw_in_str:
                mech = "wrong-value:logic-rewrite-inside-literal"
            elif has_boolop and used != MP.KREBS_CYCLE:
                mech = "wrong-value:boolop-not-operand-valued"
            else:
                mech = "wrong-value:%s" % (used.value if used else "?")
            ctx.violation(mech, "engine value %r (%s) != Python value %r (%s) on the %s pathway" % (
                res.atp.value, type(res.atp.value).__name__, expected, type(expected).__name__, used.value if used else "?"), w)
    if nops >= 2 or ncalls >= 1:
        ctx.nontrivial(ast.dump(tree))
    if n % 5000 == 0:
        ctx.sample({"expression": expr, "mode": mode})


if __name__ == "__main__":
    core.main(sys.modules[__name__])
