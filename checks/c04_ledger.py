"""C04 — energy ledger: no overdraft, exact charging, free failures, bounded total spend.

History checker: after EVERY call on the real ATP_Store the harness reads balances/debt/statistics
and checks the per-step obligations with net = atp+gtp+nadh-debt. icontract invariants run on every
public method of a harness-side subclass; the store's lock is wrapped in a DetectingLock.
"""
import sys

from rv import core
from rv.locks import DetectingLock, WouldHang, wrap_all_locks

PID = "C04"
LEVEL = "exploration"
TECHNIQUE = "runtime monitoring: per-step conservation/charging history checker + icontract class invariants on the real ATP_Store, over swept and random operation histories"
RULE = ("configs from budget,gtp,nadh in {0,1,2,5,10,100} x max_debt {0,1,5,50} x interest {0,.1,1}; histories of <= 25 ops over "
        "{consume(all currencies, debt, priority), regenerate, transfer_to(peer|self), convert, dormancy, interest, reset} with boundary amounts; "
        "first cases = systematic depth-<=3 sweep on a small grid; non-trivial = history took >= 2 different consume branches "
        "(direct/top-up/debt/gated/refused, recognised from the observed deltas); distinct = (config class, branch sequence)")
ASSUMPTIONS = ["non-negative integer amounts", "user state-change callbacks do not raise",
               "NADH->ATP top-up inside a failed ATP spend is net-worth-neutral and therefore allowed"]


class InvariantBroken(Exception):
    pass


_INV = {"n": 0}


def _debt_of(self):
    # public accessor through the base class (bypasses the contract wrappers; private field names are not relied upon)
    from operon_ai.state.metabolism import ATP_Store
    return ATP_Store.get_debt(self)


def _nonneg(self):
    _INV["n"] += 1
    return self.atp >= 0 and self.gtp >= 0 and self.nadh >= 0 and _debt_of(self) >= 0


_Monitored = None


def monitored_class():
    global _Monitored
    if _Monitored is None:
        import icontract
        from operon_ai.state.metabolism import ATP_Store

        class MonitoredStore(ATP_Store):
            pass
        _Monitored = icontract.invariant(_nonneg, error=lambda self: InvariantBroken(
            "negative balance/debt: atp=%r gtp=%r nadh=%r debt=%r" % (self.atp, self.gtp, self.nadh, _debt_of(self))))(MonitoredStore)
    return _Monitored


GRID = [0, 1, 2, 5, 10, 100]
DEBTS = [0, 1, 5, 50]
INTEREST = [0.0, 0.1, 1.0]

# systematic sweep: small configs x all op sequences of depth <= 3 over a small op alphabet
SWEEP_CONFIGS = [(b, g, n, d) for b in (0, 2, 5) for g in (0, 2) for n in (0, 3) for d in (0, 5)]


def sweep_ops():
    ops = []
    for cur in ("ATP", "GTP", "NADH"):
        for cost in (0, 1, 3, 6, 20):
            for debt in (False, True):
                ops.append(("consume", cost, cur, debt, 10))
    ops += [("regenerate", 2, "ATP"), ("regenerate", 50, "ATP"), ("regenerate", 2, "NADH"), ("convert", 2),
            ("transfer", 2, "ATP", "peer"), ("transfer", 1, "NADH", "self"), ("interest",), ("dormant",), ("wake",)]
    return ops


SWEEP_OPS = sweep_ops()
# depth-2 complete, depth-3 sampled by stride (kept deterministic)
N_SWEEP = len(SWEEP_CONFIGS) * (len(SWEEP_OPS) ** 2)


def plan(tier):
    extra = 18000 if tier == "quick" else 400000
    return {"cases": N_SWEEP // 8 + extra if tier == "quick" else N_SWEEP + extra,
            "shards": 8 if tier == "quick" else 14, "min_nontrivial": 500,
            "timeout": 600 if tier == "quick" else 2400,
            "require": {"steps": 100000, "branch:direct": 5000, "branch:topup": 500, "branch:debt": 2000,
                        "branch:refused": 5000, "branch:gated": 500, "invariant_evaluations": 100000,
                        "transfers_ok": 500, "lock_acquisitions": 100000}}


def snapshot(s):
    from operon_ai.state.metabolism import EnergyType
    st = s.get_statistics()
    return {"atp": s.get_balance(EnergyType.ATP), "gtp": s.get_balance(EnergyType.GTP),
            "nadh": s.get_balance(EnergyType.NADH), "debt": s.get_debt(),
            "consumed": st["total_consumed"], "state": s.get_state().value}


def net(x):
    return x["atp"] + x["gtp"] + x["nadh"] - x["debt"]


def run_case(ctx, n):
    from operon_ai.state.metabolism import EnergyType

    sweep_n = N_SWEEP // 8 if ctx.tier == "quick" else N_SWEEP
    if n < sweep_n:
        idx = n * 8 + (ctx.seed % 8) if ctx.tier == "quick" else n
        idx %= N_SWEEP
        ci, rest = divmod(idx, len(SWEEP_OPS) ** 2)
        a, b = divmod(rest, len(SWEEP_OPS))
        budget, gtp, nadh, max_debt = SWEEP_CONFIGS[ci]
        interest = 0.1
        rng = ctx.rng("sweep", n)
        ops = [SWEEP_OPS[a], SWEEP_OPS[b], SWEEP_OPS[rng.randrange(len(SWEEP_OPS))]]
        peer_cfg = (5, 0, 0, 0)
    else:
        rng = ctx.rng(n)
        budget, gtp, nadh = rng.choice(GRID), rng.choice(GRID + [0, 0]), rng.choice(GRID + [0, 0])
        max_debt, interest = rng.choice(DEBTS), rng.choice(INTEREST)
        peer_cfg = (rng.choice(GRID), rng.choice([0, 5]), rng.choice([0, 5]), rng.choice([0, 5]))
        ops = None

    M = monitored_class()
    states = []
    store = M(budget, gtp_budget=gtp, nadh_reserve=nadh, max_debt=max_debt, debt_interest=interest,
              on_state_change=lambda st: states.append(st.value), silent=True)
    peer = M(peer_cfg[0], gtp_budget=peer_cfg[1], nadh_reserve=peer_cfg[2], max_debt=peer_cfg[3], silent=True)
    wrapped = wrap_all_locks(store, DetectingLock, "ATP_Store") + wrap_all_locks(peer, DetectingLock, "peer")
    cfg = {"budget": budget, "gtp": gtp, "nadh": nadh, "max_debt": max_debt, "interest": interest, "peer": peer_cfg}
    ET = {"ATP": EnergyType.ATP, "GTP": EnergyType.GTP, "NADH": EnergyType.NADH}

    def amount(cur):
        bal = store.get_balance(ET[cur])
        cap = {"ATP": store.max_atp, "GTP": store.max_gtp, "NADH": store.max_nadh}[cur]
        return rng.choice([0, 1, 2, 3, 5, max(0, bal - 1), bal, bal + 1, cap + 1, bal + store.nadh, bal + store.nadh + 1,
                           bal + max_debt, bal + max_debt + 1, 10 ** 9])

    def gen_op():
        r = rng.random()
        if r < 0.5:
            cur = rng.choice(["ATP", "ATP", "ATP", "GTP", "NADH"])
            return ("consume", amount(cur), cur, rng.random() < 0.5, rng.choice([0, 0, 5, 10, 10]))
        if r < 0.62:
            cur = rng.choice(["ATP", "ATP", "GTP", "NADH"])
            return ("regenerate", amount(cur), cur)
        if r < 0.74:
            cur = rng.choice(["ATP", "ATP", "GTP", "NADH"])
            return ("transfer", amount(cur), cur, rng.choice(["peer", "peer", "self", "from_peer"]))
        if r < 0.82:
            return ("convert", amount("NADH"))
        if r < 0.87:
            return ("dormant",)
        if r < 0.92:
            return ("wake",)
        if r < 0.97:
            return ("interest",)
        return ("reset",)

    history = []
    branches = []
    spent_ok = 0
    regen_free = True
    initial_total = budget + gtp + nadh
    nsteps = len(ops) if ops is not None else rng.randint(3, 25)

    def viol(mech, what):
        ctx.violation(mech, what, {"config": cfg, "history": history[-12:], "steps_before": max(0, len(history) - 12)})

    for i in range(nsteps):
        op = ops[i] if ops is not None else gen_op()
        b, pb = snapshot(store), snapshot(peer)
        ctx.count("steps")
        ret = None
        exc = None
        try:
            if op[0] == "consume":
                ret = store.consume(op[1], "op%d" % i, ET[op[2]], allow_debt=op[3], priority=op[4])
            elif op[0] == "regenerate":
                ret = store.regenerate(op[1], ET[op[2]])
            elif op[0] == "transfer":
                if op[3] == "peer":
                    ret = store.transfer_to(peer, op[1], ET[op[2]])
                elif op[3] == "self":
                    ret = store.transfer_to(store, op[1], ET[op[2]])
                else:
                    ret = peer.transfer_to(store, op[1], ET[op[2]])
            elif op[0] == "convert":
                ret = store.convert_nadh_to_atp(op[1])
            elif op[0] == "dormant":
                store.enter_dormancy()
            elif op[0] == "wake":
                store.exit_dormancy()
            elif op[0] == "interest":
                store.apply_debt_interest()
            elif op[0] == "reset":
                store.reset()
        except WouldHang as e:
            exc = e
            history.append({"op": op, "before": b, "raised": "WouldHang"})
            viol("self-deadlock", "%s would hang: lock re-acquired at %s (held since %s)" % (op[0], e.second_stack[-2:], e.first_stack[-2:]))
            return
        except InvariantBroken as e:
            history.append({"op": op, "before": b, "raised": str(e)})
            viol("negative-balance", "class invariant broken during %s: %s" % (op[0], e))
            return
        except BaseException as e:
            exc = e
        a, pa = snapshot(store), snapshot(peer)
        rec = {"op": list(op), "ret": ret, "before": b, "after": a}
        if op[0] == "transfer":
            rec["peer_before"], rec["peer_after"] = pb, pa
        history.append(rec)
        if exc is not None:
            rec["raised"] = repr(exc)
            if isinstance(exc, ZeroDivisionError) and store.max_atp + store.max_gtp == 0:
                viol("zero-capacity-division", "%s raised ZeroDivisionError on a store with zero ATP+GTP capacity" % op[0])
            else:
                viol("raises:%s:%s" % (op[0], type(exc).__name__), "%s raised %r" % (op[0], exc))
            return
        # ---- universal obligations
        for k in ("atp", "gtp", "nadh", "debt"):
            if a[k] < 0:
                viol("negative-balance", "%s is %r after %s" % (k, a[k], op[0]))
                return
        d = net(a) - net(b)
        if a["debt"] > b["debt"] and op[0] != "interest":
            if op[0] != "consume" or not op[3]:
                viol("debt-created-by-" + op[0], "debt rose %d -> %d in %s" % (b["debt"], a["debt"], op[0]))
            if a["debt"] > max_debt:
                viol("debt-limit-exceeded", "debt %d > max_debt %d after %s" % (a["debt"], max_debt, op[0]))
        if op[0] == "consume":
            cost, cur = op[1], op[2]
            if ret is True:
                spent_ok += cost
                if d != -cost:
                    if cur == "ATP" and b["nadh"] > 0 and a["debt"] > b["debt"]:
                        mech = "topup-then-debt-overcharge"
                    elif cur == "NADH" and a["debt"] > b["debt"]:
                        mech = "nadh-debt-undercharge"
                    else:
                        mech = "charge-mismatch"
                    viol(mech, "successful consume(%d, %s, allow_debt=%s) changed net worth by %d" % (cost, cur, op[3], d))
                if a["consumed"] - b["consumed"] != cost:
                    viol("total-consumed-mismatch", "total_consumed moved by %d for a successful spend of %d" % (a["consumed"] - b["consumed"], cost))
                if a["debt"] > b["debt"]:
                    br = "debt"
                elif cur == "ATP" and a["nadh"] < b["nadh"]:
                    br = "topup"
                else:
                    br = "direct"
            elif ret is False:
                if d != 0:
                    viol("failure-not-free", "failed consume(%d, %s) changed net worth by %d" % (cost, cur, d))
                moved = [k for k in ("atp", "gtp", "nadh", "debt") if a[k] != b[k]]
                legit_topup = (cur == "ATP" and set(moved) <= {"atp", "nadh"} and a["nadh"] <= b["nadh"])
                if moved and not legit_topup:
                    viol("failure-moves-balances", "failed consume(%d, %s) moved %s" % (cost, cur, moved))
                if a["consumed"] != b["consumed"]:
                    viol("total-consumed-mismatch", "total_consumed moved on a failed spend")
                gated = (b["state"] == "starving" and op[4] < 5) or (b["state"] == "dormant" and op[4] < 10)
                br = "gated" if gated else "refused"
            else:
                viol("consume-return-type", "consume returned %r" % (ret,))
                br = "?"
            ctx.count("branch:" + br)
            branches.append(br)
        elif op[0] == "regenerate":
            regen_free = False
            amt, cur = op[1], op[2].lower()
            cap = {"atp": store.max_atp, "gtp": store.max_gtp, "nadh": store.max_nadh}[cur]
            if a[cur] > max(cap, b[cur]):
                viol("regenerate-above-capacity", "regenerate(%d, %s) lifted the balance %d -> %d above capacity %d" % (amt, cur, b[cur], a[cur], cap))
            # (a balance that a failed spend's NADH top-up left above capacity may be clamped back: energy
            #  destroyed, never created — the statement only forbids creation)
            if d > amt:
                viol("regenerate-creates-energy", "regenerate(%d) changed net worth by %d" % (amt, d))
            others = [k for k in ("atp", "gtp", "nadh") if k != cur and a[k] != b[k]]
            if others or a["debt"] > b["debt"]:
                viol("regenerate-moves-other", "regenerate(%s) moved %s / debt %d -> %d" % (cur, others, b["debt"], a["debt"]))
        elif op[0] == "transfer":
            amt = op[1]
            regen_free = False
            if op[3] == "self":
                if ret is True and d > 0:
                    viol("self-transfer-creates-energy", "self transfer of %d changed net worth by %d" % (amt, d))
                if ret is False and (a != b):
                    viol("failed-transfer-moves", "failed self transfer changed the store")
            else:
                src_b, src_a, dst_b, dst_a = (b, a, pb, pa) if op[3] == "peer" else (pb, pa, b, a)
                ds, dd = net(src_a) - net(src_b), net(dst_a) - net(dst_b)
                if ret is True:
                    ctx.count("transfers_ok")
                    if ds != -amt:
                        viol("transfer-debit-mismatch", "transfer of %d debited the source by %d" % (amt, -ds))
                    if dd > amt or ds + dd > 0:
                        viol("transfer-creates-energy", "transfer of %d credited the destination by %d" % (amt, dd))
                elif ret is False:
                    if ds != 0 or dd != 0 or {k: src_a[k] for k in ("atp", "gtp", "nadh", "debt")} != {k: src_b[k] for k in ("atp", "gtp", "nadh", "debt")}:
                        viol("failed-transfer-moves", "failed transfer changed net worth (source %d, destination %d)" % (ds, dd))
                else:
                    viol("transfer-return-type", "transfer_to returned %r" % (ret,))
                cur = op[2].lower()
                capd = {"atp": (peer if op[3] == "peer" else store).max_atp, "gtp": (peer if op[3] == "peer" else store).max_gtp,
                        "nadh": (peer if op[3] == "peer" else store).max_nadh}[cur]
                if dst_a[cur] > max(capd, dst_b[cur]):
                    viol("transfer-above-capacity", "transfer lifted the destination %s balance to %d above capacity %d" % (cur, dst_a[cur], capd))
        elif op[0] == "convert":
            c = ret
            if not isinstance(c, int) or c > op[1]:
                viol("convert-amount", "convert_nadh_to_atp(%d) returned %r" % (op[1], c))
            elif c <= 0:
                if any(a[k] != b[k] for k in ("atp", "gtp", "nadh", "debt")):
                    viol("convert-not-conserving", "convert returned %d but balances moved %s -> %s" % (c, b, a))
            elif a["nadh"] != b["nadh"] - c or a["atp"] != b["atp"] + c or a["gtp"] != b["gtp"] or a["debt"] != b["debt"]:
                viol("convert-not-conserving", "convert returned %d but balances moved %s -> %s" % (c, b, a))
            elif a["atp"] > max(store.max_atp, b["atp"]):
                viol("convert-above-capacity", "convert lifted ATP above capacity")
        elif op[0] in ("dormant", "wake"):
            if any(a[k] != b[k] for k in ("atp", "gtp", "nadh", "debt")):
                viol("dormancy-moves-balances", "%s changed balances" % op[0])
        elif op[0] == "interest":
            regen_free = regen_free and a["debt"] == b["debt"]
            if any(a[k] != b[k] for k in ("atp", "gtp", "nadh")) or a["debt"] < b["debt"]:
                viol("interest-moves-balances", "apply_debt_interest changed balances or lowered debt")
        elif op[0] == "reset":
            regen_free = False
            if (a["atp"], a["gtp"], a["nadh"], a["debt"]) != (store.max_atp, store.max_gtp, store.max_nadh, 0):
                viol("reset-state", "reset left %s" % a)
    if regen_free and spent_ok > initial_total + max_debt:
        viol("unbounded-total-spend", "successful spends total %d > initial %d + max_debt %d without regeneration" % (
            spent_ok, initial_total, max_debt))
    ctx.counters["invariant_evaluations"] = _INV["n"]
    ctx.counters["lock_acquisitions"] = ctx.counters.get("lock_acquisitions", 0) + sum(w.acquisitions for w in wrapped)
    if len(set(branches)) >= 2:
        cls = (min(budget, 3), min(gtp, 1), min(nadh, 1), min(max_debt, 1))
        ctx.nontrivial((cls, tuple(branches[:10])))
    if n % 4000 == 0:
        ctx.sample({"config": cfg, "history": history[:6]})


if __name__ == "__main__":
    core.main(sys.modules[__name__])
