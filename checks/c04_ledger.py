"""C04 — energy ledger: no overdraft, exact charging, free failures, bounded total spend.

History checker: after EVERY call on the real ATP_Store the harness reads balances/debt/statistics
and checks the per-step obligations with net = atp+gtp+nadh-debt. icontract invariants run on every
public method of a harness-side subclass; every lock of the store is wrapped in a DetectingLock.

Sessions run on TWO differently configured stores used alternately (each is the other's transfer peer). Besides the
ledger operations a session interleaves: read-only/reporting calls (must move nothing), public-attribute
reconfiguration (silent, max_debt, debt_interest, capacities), construction of unrelated third instances,
verbose (silent=False) stores with stdout sent to a sink, state-change callbacks that raise (the user's exception
may propagate; the ledger obligations are judged on the state afterwards and the lock must be free), deterministic
"ticks" of the background regeneration thread (regeneration_rate > 0, the module-level `time` is replaced by a
shim whose sleep() parks the thread until the harness releases it) and a quiet twin pair (silent, no callback, no
reads, not monitored) that receives the same operations and must report the same results.
"""
import collections
import contextlib
import sys
import threading

from rv import core
from rv.locks import DetectingLock, WouldHang, wrap_all_locks

PID = "C04"
LEVEL = "exploration"
TECHNIQUE = ("runtime monitoring: per-step conservation/charging history checker + icontract class invariants on the real ATP_Store, "
             "over swept and random operation histories on two alternately used stores, with a quiet differential twin")
RULE = ("configs from budget,gtp,nadh in {0,1,2,5,10,100,1e9,2^53+1,2^64+3} x max_debt {0,1,5,50,2.5,1e9,2^64} x interest "
        "{0,.1,1,1e-9,.5,2.5,.1+.2,1,2} x silent {True,False} x regeneration_rate {0,.5,1,2.7,1e9} for TWO stores; histories of <= 25 ops "
        "over {consume(all currencies, debt, priority, call style, odd operation names), regenerate, transfer_to(other|self), convert, "
        "dormancy, interest, reset, background-regeneration tick, reporting reads, attribute reconfiguration, spawning a third instance} "
        "on either store with boundary amounts; raising state-change callbacks; first cases = systematic depth-<=3 sweep on a small grid "
        "(alternately verbose); a few sessions of > 20 000 ops on one pair; non-trivial = history took >= 2 different consume branches "
        "(direct/top-up/debt/gated/refused, recognised from the observed deltas); distinct = (config class, branch sequence)")
ASSUMPTIONS = ["non-negative integer amounts; outside the dedicated 'astronomic' sessions (integers beyond 1e308 / 4300 digits, whose OverflowError / ValueError "
               "are registered known findings) all quantities stay inside the float range (the state ratio is a float division)",
               "a user state-change callback may raise: its exception propagates, the ledger obligations are judged on the state left behind",
               "user callbacks do not call back into locking methods of the same store (the lock is not re-entrant)",
               "NADH->ATP top-up inside a failed ATP spend is net-worth-neutral and therefore allowed",
               "when max_debt is re-assigned during a session the debt limit judged is the largest value it had in that session"]


class InvariantBroken(Exception):
    pass


class UserCallbackError(Exception):
    """Raised by the harness's own state-change callback (class 'user hook raises')."""


class _Sink:
    def write(self, s):
        return len(s)

    def flush(self):
        pass


SINK = _Sink()

_INV = {"n": 0}


def _debt_of(self):
    # public accessor through the base class (bypasses the contract wrappers; private field names are not relied upon)
    from operon_ai.state.metabolism import ATP_Store
    return ATP_Store.get_debt(self)


def _nonneg(self):
    _INV["n"] += 1
    return self.atp >= 0 and self.gtp >= 0 and self.nadh >= 0 and _debt_of(self) >= 0


_Monitored = None


def monitored_class():
    global _Monitored
    if _Monitored is None:
        import icontract
        from operon_ai.state.metabolism import ATP_Store

        class MonitoredStore(ATP_Store):
            pass
        _Monitored = icontract.invariant(_nonneg, error=lambda self: InvariantBroken(
            "negative balance/debt: atp=%r gtp=%r nadh=%r debt=%r" % (self.atp, self.gtp, self.nadh, _debt_of(self))))(MonitoredStore)
    return _Monitored


# ---------------------------------------------------------------------------------------------------------------------
# background regeneration made deterministic: the module-level `time` of operon_ai.state.metabolism is replaced by a shim
# whose sleep() parks the calling (regeneration) thread until the harness releases it for exactly one round.
class SleepShim:
    def __init__(self, real):
        self.real = real
        self.cv = threading.Condition()
        self.state = {}          # Thread -> "parked" | "go" | "running"
        self.final = set()       # threads that must never park again (session over)

    def __getattr__(self, k):
        return getattr(self.real, k)

    def sleep(self, d):
        me = threading.current_thread()      # keyed by the Thread object (idents are reused)
        if me is threading.main_thread():
            return self.real.sleep(d)
        with self.cv:
            if me not in self.final:
                self.state[me] = "parked"
                self.cv.notify_all()
                while self.state.get(me) == "parked" and me not in self.final:
                    self.cv.wait(1.0)
                self.state[me] = "running"
                self.cv.notify_all()
                return
        self.real.sleep(0.0005)

    def wait_parked(self, thread, timeout):
        """True when `thread` is parked in sleep(); False when it died or did not arrive in time."""
        end = self.real.monotonic() + timeout
        with self.cv:
            while self.state.get(thread) != "parked":
                if not thread.is_alive() or self.real.monotonic() > end:
                    return False
                self.cv.wait(0.05)
        return True

    def tick(self, thread, timeout=120.0):
        """Release `thread` for one loop round and wait until it is parked again. Returns False if it died / got lost."""
        if not self.wait_parked(thread, timeout):
            return False
        with self.cv:
            self.state[thread] = "go"
            self.cv.notify_all()
        return self.wait_parked(thread, timeout)

    def finish(self, thread):
        with self.cv:
            self.final.add(thread)
            self.cv.notify_all()

    def forget(self, thread):
        with self.cv:
            if not thread.is_alive():
                self.final.discard(thread)
                self.state.pop(thread, None)


_SHIM = {"obj": None, "unavailable": False, "thread_errors": []}


def install_shim():
    if _SHIM["obj"] is None:
        import operon_ai.state.metabolism as mm
        real = getattr(mm, "time", None)
        if real is None or not hasattr(real, "sleep"):
            _SHIM["unavailable"] = True
            return None
        _SHIM["obj"] = SleepShim(real)
        mm.time = _SHIM["obj"]
        prev = threading.excepthook

        def hook(args):
            _SHIM["thread_errors"].append((args.thread.ident if args.thread else None, args.exc_type.__name__, repr(args.exc_value)))
        threading.excepthook = hook
        _SHIM["prev_hook"] = prev
    return _SHIM["obj"]


# ---------------------------------------------------------------------------------------------------------------------
GRID = [0, 1, 2, 5, 10, 100]
BIG = [10 ** 9, 2 ** 53 + 1, 2 ** 64 + 3]
DEBTS = [0, 1, 5, 50]
ODD_DEBTS = [2.5, 0.5, 10 ** 9, 2 ** 64]
INTEREST = [0.0, 0.1, 1.0]
ODD_INTEREST = [1e-9, 0.5, 2.5, 0.1 + 0.2, 0.999999, 1, 2]
RATES = [0.5, 1, 2.7, 3, 10 ** 9]
PRIORITIES = [0, 0, 5, 10, 10, 4, 6, 9, 11, -1, 10 ** 9]
OPNAMES = ["", "x" * 300, "{}", "{0!r:>{1}}", "%s %d %(a)s", "näme ✓\n\t\u0000", "\U0001F480 apoptosis", "unknown"]

# systematic sweep: small configs x all op sequences of depth <= 3 over a small op alphabet
SWEEP_CONFIGS = [(b, g, n, d) for b in (0, 2, 5) for g in (0, 2) for n in (0, 3) for d in (0, 5)]


def sweep_ops():
    ops = []
    for cur in ("ATP", "GTP", "NADH"):
        for cost in (0, 1, 3, 6, 20):
            for debt in (False, True):
                ops.append({"k": "consume", "who": 0, "amt": cost, "cur": cur, "debt": debt, "prio": 10})
    ops += [{"k": "regenerate", "who": 0, "amt": 2, "cur": "ATP"}, {"k": "regenerate", "who": 0, "amt": 50, "cur": "ATP"},
            {"k": "regenerate", "who": 0, "amt": 2, "cur": "NADH"}, {"k": "convert", "who": 0, "amt": 2},
            {"k": "transfer", "who": 0, "amt": 2, "cur": "ATP", "to": "other"}, {"k": "transfer", "who": 0, "amt": 1, "cur": "NADH", "to": "self"},
            {"k": "interest", "who": 0}, {"k": "dormant", "who": 0}, {"k": "wake", "who": 0}]
    return ops


SWEEP_OPS = sweep_ops()
# depth-2 complete, depth-3 sampled by stride (kept deterministic)
N_SWEEP = len(SWEEP_CONFIGS) * (len(SWEEP_OPS) ** 2)
LONG_STEPS = 24000


def n_long(tier):
    return 2 if tier == "quick" else 12


def plan(tier):
    extra = 18000 if tier == "quick" else 400000
    sweep = N_SWEEP // 8 if tier == "quick" else N_SWEEP
    return {"cases": sweep + n_long(tier) + extra,
            "shards": 8 if tier == "quick" else 14, "min_nontrivial": 500,
            "timeout": 600 if tier == "quick" else 2400,
            "require": {"steps": 100000, "branch:direct": 5000, "branch:topup": 500, "branch:debt": 2000,
                        "branch:refused": 5000, "branch:gated": 500, "invariant_evaluations": 100000,
                        "transfers_ok": 500, "lock_acquisitions": 100000,
                        # round 3
                        "verbose_steps": 20000, "verbose_debt_repaid_in_full": 100, "twin_sessions": 500, "twin_steps": 5000,
                        "reads": 3000, "reconfigurations": 1000, "spawned_instances": 500,
                        "callback_raised": 200, "callback_observations": 5000, "steps_on_second_store": 10000,
                        "big_value_sessions": 200, "odd_config_sessions": 400, "default_constructor_sessions": 50,
                        "long_sessions": 2, "long_session_steps": 20000, "long_session_spends_ok": 3000,
                        "continuity_checks": 80000, "clock_jumps": 1000, "astronomic_sessions": 50}}


CORE = ("atp", "gtp", "nadh", "debt")


def snapshot(s):
    from operon_ai.state.metabolism import EnergyType
    st = s.get_statistics()
    return {"atp": s.get_balance(EnergyType.ATP), "gtp": s.get_balance(EnergyType.GTP),
            "nadh": s.get_balance(EnergyType.NADH), "debt": s.get_debt(),
            "consumed": st["total_consumed"], "state": s.get_state().value}


def net(x):
    return x["atp"] + x["gtp"] + x["nadh"] - x["debt"]


def caps(store):
    return {"atp": store.max_atp, "gtp": store.max_gtp, "nadh": store.max_nadh}


def build(cls, cfg, cb, silent, style):
    """Construct through one of three call styles (all-defaults where the config equals the defaults)."""
    b, g, n, d, i, rate = cfg["budget"], cfg["gtp"], cfg["nadh"], cfg["max_debt"], cfg["interest"], cfg["rate"]
    if style == "defaults" and (g, n, rate, d, i) == (0, 0, 0.0, 0, 0.1) and cb is None and silent is False:
        return cls(b)
    if style == "positional":
        return cls(b, g, n, rate, d, i, cb, silent)
    return cls(b, gtp_budget=g, nadh_reserve=n, regeneration_rate=rate, max_debt=d, debt_interest=i, on_state_change=cb, silent=silent)


def apply_op(ET, stores, op, i):
    """Perform `op` on stores[op['who']] (the other one is the transfer peer). Same code for the judged pair and the twin."""
    s = stores[op["who"]]
    o = stores[1 - op["who"]]
    k = op["k"]
    style = op.get("style", "kw")
    if k == "consume":
        name = op.get("name", "op%d" % i)
        if style == "defaults" and op["cur"] == "ATP" and not op["debt"] and op["prio"] == 0:
            return s.consume(op["amt"])
        if style == "positional":
            return s.consume(op["amt"], name, ET[op["cur"]], op["debt"], op["prio"])
        return s.consume(op["amt"], name, ET[op["cur"]], allow_debt=op["debt"], priority=op["prio"])
    if k == "regenerate":
        if style == "defaults" and op["cur"] == "ATP":
            return s.regenerate(op["amt"])
        return s.regenerate(op["amt"], ET[op["cur"]])
    if k == "transfer":
        dst = s if op["to"] == "self" else o
        if style == "defaults" and op["cur"] == "ATP":
            return s.transfer_to(dst, op["amt"])
        if style == "positional":
            return s.transfer_to(dst, op["amt"], ET[op["cur"]])
        return s.transfer_to(other=dst, amount=op["amt"], energy_type=ET[op["cur"]])
    if k == "convert":
        return s.convert_nadh_to_atp(op["amt"])
    if k == "dormant":
        return s.enter_dormancy()
    if k == "wake":
        return s.exit_dormancy()
    if k == "interest":
        return s.apply_debt_interest()
    if k == "reset":
        return s.reset()
    if k == "set":
        setattr(s, op["attr"], op["value"])
        return None
    raise AssertionError(k)


def do_read(ET, s, op):
    """Reporting / read-only API calls; returns a small summary that is cross-checked against the snapshot."""
    kind = op["kind"]
    if kind == "report":
        r = s.get_report()
        return {"atp": r.atp, "gtp": r.gtp, "nadh": r.nadh, "debt": r.debt}
    if kind == "stats":
        st = s.get_statistics()
        return {"atp": st["atp"], "gtp": st["gtp"], "nadh": st["nadh"], "debt": st["debt"]}
    if kind == "transactions":
        t = s.get_transactions(op["limit"]) if op["limit"] is not None else s.get_transactions()
        return {"len": len(t)}
    if kind == "repr":
        return {"len": len(repr(s)) + len(str(s))}
    if kind == "balance-default":
        return {"atp": s.get_balance()}
    if kind == "getters":
        return {"atp": s.get_balance(ET["ATP"]), "gtp": s.get_balance(ET["GTP"]), "nadh": s.get_balance(ET["NADH"]),
                "debt": s.get_debt(), "state": s.get_state().value}
    raise AssertionError(kind)


def run_case(ctx, n):
    sweep_n = N_SWEEP // 8 if ctx.tier == "quick" else N_SWEEP
    if n < sweep_n:
        idx = n * 8 + (ctx.seed % 8) if ctx.tier == "quick" else n
        idx %= N_SWEEP
        ci, rest = divmod(idx, len(SWEEP_OPS) ** 2)
        a, b = divmod(rest, len(SWEEP_OPS))
        budget, gtp, nadh, max_debt = SWEEP_CONFIGS[ci]
        rng = ctx.rng("sweep", n)
        ops = [SWEEP_OPS[a], SWEEP_OPS[b], SWEEP_OPS[rng.randrange(len(SWEEP_OPS))]]
        verbose = bool(n & 1)
        spec = {"cfgs": [{"budget": budget, "gtp": gtp, "nadh": nadh, "max_debt": max_debt, "interest": 0.1, "rate": 0.0},
                         {"budget": 5, "gtp": 0, "nadh": 0, "max_debt": 0, "interest": 0.1, "rate": 0.0}],
                "silent": [not verbose, not verbose], "ops": ops, "twin": bool(n & 2), "raise_p": 0.0, "cb": [True, False],
                "styles": ["kw", "kw"], "monitored": True, "light": False}
        return session(ctx, n, rng, spec)
    if n < sweep_n + n_long(ctx.tier):
        rng = ctx.rng("long", n)
        j = n - sweep_n
        spec = {"cfgs": [{"budget": rng.choice([40, 60, 100]), "gtp": rng.choice([0, 10]), "nadh": rng.choice([0, 15]),
                          "max_debt": rng.choice([0, 20]) if j else 20, "interest": rng.choice([0.1, 0.5]), "rate": 0.0},
                         {"budget": rng.choice([20, 50]), "gtp": 5, "nadh": 5, "max_debt": 10, "interest": 0.1, "rate": 0.0}],
                "silent": [bool(j & 1), True], "ops": None, "twin": False, "raise_p": 0.0, "cb": [True, False],
                "styles": ["kw", "positional"], "monitored": False, "light": True, "nsteps": LONG_STEPS, "clock": bool(j & 2)}
        return session(ctx, n, rng, spec)

    if ctx.rng("astro?", n).random() < 0.012:
        return astronomic_case(ctx, n)
    rng = ctx.rng(n)
    big = rng.random() < 0.06
    odd = rng.random() < 0.12
    cfgs = []
    for who in (0, 1):
        grid = GRID + (BIG if big else [])
        c = {"budget": rng.choice(grid), "gtp": rng.choice(grid + [0, 0]), "nadh": rng.choice(grid + [0, 0]),
             "max_debt": rng.choice(DEBTS + (ODD_DEBTS if odd or big else [])) if who == 0 else rng.choice([0, 5] + ([2 ** 64] if big else [])),
             "interest": rng.choice(INTEREST + (ODD_INTEREST if odd else [])) if who == 0 else 0.1, "rate": 0.0}
        cfgs.append(c)
    if rng.random() < 0.04:      # everything at the constructor defaults (incl. silent=False)
        cfgs[0].update(gtp=0, nadh=0, max_debt=0, interest=0.1)
        dflt = True
    else:
        dflt = False
    ticks = rng.random() < 0.03
    if ticks:
        for who in (0, 1):
            if who == 0 or rng.random() < 0.5:
                cfgs[who]["rate"] = rng.choice(RATES)
    raise_p = 0.0 if ticks else (rng.choice([0.3, 0.6, 1.0]) if rng.random() < 0.15 else 0.0)
    spec = {"cfgs": cfgs, "silent": [False if dflt else rng.random() < 0.6, rng.random() < 0.6], "ops": None,
            "twin": (not ticks) and raise_p == 0.0 and rng.random() < 0.35, "raise_p": raise_p,
            "cb": [not dflt and rng.random() < 0.85, rng.random() < 0.5], "shared_cb": rng.random() < 0.3,
            "styles": ["defaults" if dflt else rng.choice(["kw", "positional"]), rng.choice(["kw", "positional"])],
            "monitored": True, "light": False, "big": big, "odd": odd, "dflt": dflt, "clock": (not ticks) and rng.random() < 0.2}
    return session(ctx, n, rng, spec)


JUMPS = [0.001, 0.5, 1.0, 59.999, 3600, 86399.5, 86400, 86401, 90000, 30 * 86400, 400 * 86400]

HUGE = [10 ** 309, 2 ** 1100, 10 ** 400, 10 ** 5000]          # non-negative integers beyond the float range / beyond the int->str digit limit


def astronomic_case(ctx, n):
    """The quantifier says 'non-negative integer arguments' without an upper bound. Integers beyond the float range make the
    store's float arithmetic (state ratio, interest, report) raise OverflowError, and integers beyond CPython's int->str digit limit
    make its progress messages raise ValueError. Both are registered known findings (mechanism keys `float-range-overflow`,
    `int-str-digit-limit`); any OTHER exception, and any ledger violation on a session that did not raise, is judged as usual."""
    from operon_ai.state.metabolism import ATP_Store, EnergyType as ET
    rng = ctx.rng("astro", n)
    ctx.count("astronomic_sessions")
    pool = HUGE + [rng.choice(HUGE) + rng.randrange(3), 5, 100, 0, 1]
    verbose = rng.random() < 0.4
    cfgs = [{"budget": rng.choice(pool), "gtp": rng.choice([0, 0, 5] + HUGE), "nadh": rng.choice([0, 0, 3] + HUGE), "max_debt": rng.choice([0, 5] + HUGE),
             "interest": rng.choice([0.0, 0.1, 1.0]), "rate": 0.0},
            {"budget": rng.choice([5, 100] + HUGE), "gtp": 0, "nadh": 0, "max_debt": rng.choice([0, 5]), "interest": 0.1, "rate": 0.0}]
    trace = []
    seen_amounts = [0]

    def classify(where, exc):
        w = {"configs": [{k: (v if not isinstance(v, int) or v < 10 ** 30 else "~10^%d" % (len(str(v)) - 1 if v < 10 ** 4000 else 5000)) for k, v in c.items()} for c in cfgs],
             "silent": not verbose, "trace": trace[-8:], "exception": "%s: %s" % (type(exc).__name__, str(exc)[:120])}
        biggest = max([v for c in cfgs for v in c.values() if isinstance(v, int)] + seen_amounts)
        if isinstance(exc, OverflowError) and biggest >= 10 ** 308:
            ctx.violation("float-range-overflow", "%s with an amount/capacity beyond the float range raised OverflowError" % where, w)
        elif isinstance(exc, ValueError) and "Exceeds the limit" in str(exc) and biggest >= 10 ** 4300:
            ctx.violation("int-str-digit-limit", "%s with an integer of more than 4300 digits raised ValueError (int->str digit limit)" % where, w)
        else:
            ctx.violation("raises:%s:%s" % (where, type(exc).__name__), "%s raised %r with astronomic amounts" % (where, exc), w)

    old_out = sys.stdout
    sys.stdout = SINK
    try:
        try:
            stores = [build(ATP_Store, cfgs[0], None, not verbose, rng.choice(["kw", "positional"])), build(ATP_Store, cfgs[1], None, True, "kw")]
        except Exception as e:  # noqa
            return classify("constructor", e)
        for i in range(rng.randint(3, 10)):
            k = rng.choice(["consume", "consume", "consume", "regenerate", "transfer", "convert", "interest", "read", "dormant", "wake"])
            who = 0 if rng.random() < 0.75 else 1
            amt = rng.choice(pool)
            cur = rng.choice(["ATP", "ATP", "GTP", "NADH"])
            seen_amounts.append(amt)
            op = {"k": k, "who": who, "amt": amt, "cur": cur, "debt": rng.random() < 0.6, "prio": rng.choice([0, 10]), "to": rng.choice(["other", "other", "self"]), "style": "kw"}
            trace.append("%s(%s%s%s) on store %d" % (k, "~10^%d" % (len(str(amt)) - 1) if amt > 10 ** 30 and amt < 10 ** 4000 else ("~10^5000" if amt >= 10 ** 4000 else amt),
                                                     "," + cur if k in ("consume", "regenerate", "transfer") else "", ",allow_debt" if k == "consume" and op["debt"] else "", who))
            try:
                before = [snapshot(x) for x in stores]
                if k == "read":
                    do_read(ET, stores[who], {"kind": rng.choice(["report", "stats", "repr", "getters"])})
                    continue
                res = apply_op(ET, stores, op, i)
                after = [snapshot(x) for x in stores]
            except Exception as e:  # noqa
                return classify(k, e)
            ctx.count("astronomic_steps")
            for j, a in enumerate(after):
                if min(a["atp"], a["gtp"], a["nadh"], a["debt"]) < 0:
                    ctx.violation("negative-balance", "astronomic session: %s left a negative quantity on store %d" % (k, j), {"trace": trace[-8:]})
            if k == "consume":
                d = net(before[who]) - net(after[who])
                if res is True and d != amt:
                    ctx.violation("charge-mismatch", "astronomic session: successful consume changed net worth by %s the cost" % ("less than" if d < amt else "more than"), {"trace": trace[-8:]})
                if res is False and (d != 0):
                    ctx.violation("failure-not-free", "astronomic session: refused consume changed net worth", {"trace": trace[-8:]})
            if k in ("regenerate", "transfer") and net(after[0]) + net(after[1]) > net(before[0]) + net(before[1]) + (amt if k == "regenerate" else 0):
                ctx.violation("%s-creates-energy" % k, "astronomic session: %s created energy" % k, {"trace": trace[-8:]})
        ctx.nontrivial(("astro", tuple(t.split(" on ")[0] for t in trace)))
    finally:
        sys.stdout = old_out


def session(ctx, n, rng, spec):
    """Runs the session; a share of them under a virtual clock that the workload moves by sub-second .. > 1 year jumps."""
    if not spec.get("clock"):
        return _session(ctx, n, rng, spec, None)
    import operon_ai.state.metabolism as mm
    from rv.vclock import VClock, patched
    with patched(VClock(), mm) as clock:
        return _session(ctx, n, rng, spec, clock)


def _session(ctx, n, rng, spec, clock):
    from operon_ai.state.metabolism import ATP_Store, EnergyType
    ET = {"ATP": EnergyType.ATP, "GTP": EnergyType.GTP, "NADH": EnergyType.NADH}
    cfgs = spec["cfgs"]
    light = spec["light"]
    cls = monitored_class() if spec["monitored"] else ATP_Store
    raise_p = spec["raise_p"]
    want_ticks = any(c["rate"] > 0 for c in cfgs)
    shim = install_shim() if want_ticks else None
    if want_ticks and (shim is None or _SHIM["unavailable"]):
        ctx.count("tick_unavailable")
        for c in cfgs:
            c["rate"] = 0.0
        want_ticks = False

    stores = [None, None]
    cb_log = []
    problems = []            # (mechanism, what) found inside callbacks; reported after the call returns

    def make_cb(who):
        def cb(state):
            cb_log.append((who, getattr(state, "value", state)))
            s = stores[who]
            if s is not None:
                ctx.count("callback_observations")
                vals = [ATP_Store.get_balance(s, ET["ATP"]), ATP_Store.get_balance(s, ET["GTP"]), ATP_Store.get_balance(s, ET["NADH"]),
                        ATP_Store.get_debt(s)]
                if min(vals) < 0:
                    problems.append(("negative-balance", "state-change callback saw atp/gtp/nadh/debt = %r" % (vals,)))
            if raise_p and rng.random() < raise_p:
                ctx.count("callback_raised")
                raise UserCallbackError("user hook fails")
        return cb

    cbs = [make_cb(0) if spec["cb"][0] else None, make_cb(1) if spec["cb"][1] else None]
    if spec.get("shared_cb") and cbs[0] and cbs[1]:
        cbs[1] = cbs[0]      # one callback object registered with both stores

    threads = [None, None]
    started = []
    for who in (0, 1):
        before = set(threading.enumerate())
        with contextlib.redirect_stdout(SINK):
            stores[who] = build(cls, cfgs[who], cbs[who], spec["silent"][who], spec["styles"][who])
        if cfgs[who]["rate"] > 0:
            new = [t for t in threading.enumerate() if t not in before]
            started.extend(new)
            if len(new) == 1 and shim.wait_parked(new[0], 30.0):
                threads[who] = new[0]
            else:
                ctx.count("tick_unavailable")
    wrapped = wrap_all_locks(stores[0], DetectingLock, "ATP_Store") + wrap_all_locks(stores[1], DetectingLock, "peer")
    if spec.get("dflt"):
        ctx.count("default_constructor_sessions")
    if spec.get("big"):
        ctx.count("big_value_sessions")
    if spec.get("odd"):
        ctx.count("odd_config_sessions")

    twins = None
    if spec["twin"]:
        twins = [build(ATP_Store, cfgs[w], None, True, "kw") for w in (0, 1)]
        ctx.count("twin_sessions")

    S = [{"limit_max": cfgs[w]["max_debt"], "spent_ok": 0, "regen_free": True,
          "initial_total": cfgs[w]["budget"] + cfgs[w]["gtp"] + cfgs[w]["nadh"], "last": None} for w in (0, 1)]

    def amount(who, cur):
        s = stores[who]
        bal = s.get_balance(ET[cur])
        cap = caps(s)[cur.lower()]
        md = S[who]["limit_max"]
        md = int(md) if md < 10 ** 30 else 0
        pool = [0, 1, 2, 3, 5, max(0, bal - 1), bal, bal + 1, cap + 1, bal + s.nadh, bal + s.nadh + 1, bal + md, bal + md + 1, 10 ** 9]
        if spec.get("big"):
            pool += [2 ** 53 + 1, 2 ** 64, bal + 2 ** 53 + 1]
        return rng.choice(pool)

    def gen_op():
        who = 0 if rng.random() < 0.75 else 1
        r = rng.random()
        if any(threads) and rng.random() < 0.25:
            return {"k": "tick", "who": rng.choice([w for w in (0, 1) if threads[w] is not None])}
        if clock is not None and rng.random() < 0.15:
            return {"k": "clock", "who": who, "seconds": rng.choice(JUMPS)}
        style = rng.choice(["kw", "kw", "positional", "defaults"])
        if r < 0.44:
            cur = rng.choice(["ATP", "ATP", "ATP", "GTP", "NADH"])
            op = {"k": "consume", "who": who, "amt": amount(who, cur), "cur": cur, "debt": rng.random() < 0.5,
                  "prio": rng.choice(PRIORITIES), "style": style}
            if rng.random() < 0.25:
                op["name"] = rng.choice(OPNAMES)
            return op
        if r < 0.55:
            cur = rng.choice(["ATP", "ATP", "GTP", "NADH"])
            return {"k": "regenerate", "who": who, "amt": amount(who, cur), "cur": cur, "style": style}
        if r < 0.66:
            cur = rng.choice(["ATP", "ATP", "GTP", "NADH"])
            return {"k": "transfer", "who": who, "amt": amount(who, cur), "cur": cur, "to": rng.choice(["other", "other", "other", "self"]), "style": style}
        if r < 0.72:
            return {"k": "convert", "who": who, "amt": amount(who, "NADH")}
        if r < 0.76:
            return {"k": "dormant", "who": who}
        if r < 0.80:
            return {"k": "wake", "who": who}
        if r < 0.85:
            return {"k": "interest", "who": who}
        if r < 0.87:
            return {"k": "reset", "who": who}
        if r < 0.93:
            kind = rng.choice(["report", "stats", "transactions", "transactions", "repr", "balance-default", "getters"])
            op = {"k": "read", "who": who, "kind": kind}
            if kind == "transactions":
                op["limit"] = rng.choice([None, 0, 1, 5, 100, 10 ** 6])
            return op
        if r < 0.97:
            attr = rng.choice(["silent", "silent", "max_debt", "debt_interest", "max_atp", "max_gtp", "max_nadh"])
            if attr == "silent":
                v = rng.random() < 0.5
            elif attr == "max_debt":
                v = rng.choice(DEBTS + [2, 20])
            elif attr == "debt_interest":
                v = rng.choice(INTEREST + ODD_INTEREST)
            else:
                v = rng.choice(GRID)
            return {"k": "set", "who": who, "attr": attr, "value": v}
        return {"k": "spawn", "who": who, "budget": rng.choice(GRID), "max_debt": rng.choice([0, 5])}

    def gen_long_op(i):
        who = 0 if rng.random() < 0.8 else 1
        s = stores[who]
        r = rng.random()
        if clock is not None and rng.random() < 0.01:
            return {"k": "clock", "who": who, "seconds": rng.choice(JUMPS)}
        if r < 0.55:
            cur = rng.choice(["ATP", "ATP", "ATP", "GTP", "NADH"])
            return {"k": "consume", "who": who, "amt": rng.choice([0, 1, 1, 2, 3, 7, 30]), "cur": cur, "debt": rng.random() < 0.4,
                    "prio": rng.choice([0, 5, 10, 10]), "style": "kw"}
        if r < 0.80:
            cur = rng.choice(["ATP", "ATP", "ATP", "GTP", "NADH"])
            return {"k": "regenerate", "who": who, "amt": rng.choice([1, 2, 5, 9, 40]), "cur": cur}
        if r < 0.87:
            return {"k": "transfer", "who": who, "amt": rng.choice([0, 1, 2, 6]), "cur": rng.choice(["ATP", "ATP", "GTP", "NADH"]),
                    "to": rng.choice(["other", "other", "self"])}
        if r < 0.90:
            return {"k": "convert", "who": who, "amt": rng.choice([1, 3, 50])}
        if r < 0.93 and s.get_debt() < 10 ** 6:
            return {"k": "interest", "who": who}
        if r < 0.95:
            return {"k": rng.choice(["dormant", "wake", "wake"]), "who": who}
        if r < 0.999:
            return {"k": "read", "who": who, "kind": rng.choice(["report", "stats", "transactions", "getters"]), "limit": rng.choice([None, 5, 5000])}
        return {"k": "reset", "who": who}

    history = collections.deque(maxlen=12)
    nhist = [0]
    branches = []
    flags = {k: spec.get(k) for k in ("silent", "twin", "raise_p", "styles", "cb", "shared_cb", "clock") if spec.get(k) is not None}

    def viol(mech, what):
        ctx.violation(mech, what, {"configs": cfgs, "flags": flags, "history": list(history), "steps_before": max(0, nhist[0] - len(history))})

    def finish():
        for t in started:
            shim.finish(t)
        for who in (0, 1):
            if cfgs[who]["rate"] > 0:
                try:
                    stores[who].stop_regeneration()
                except BaseException as e:  # noqa
                    viol("raises:stop_regeneration:%s" % type(e).__name__, "stop_regeneration raised %r" % (e,))
        for t in started:
            shim.forget(t)
        ctx.counters["invariant_evaluations"] = _INV["n"]
        ctx.counters["lock_acquisitions"] = ctx.counters.get("lock_acquisitions", 0) + sum(w.acquisitions for w in wrapped)

    ops = spec["ops"]
    nsteps = len(ops) if ops is not None else spec.get("nsteps") or rng.randint(3, 25)
    if light:
        ctx.count("long_sessions")
        S[0]["last"], S[1]["last"] = snapshot(stores[0]), snapshot(stores[1])

    for i in range(nsteps):
        op = ops[i] if ops is not None else (gen_long_op(i) if light else gen_op())
        who = op["who"]
        k = op["k"]
        s, o = stores[who], stores[1 - who]
        st = S[who]
        if light:
            b, ob = st["last"], S[1 - who]["last"]
            ctx.count("long_session_steps")
        else:
            b, ob = snapshot(s), snapshot(o)
            # nothing may move between two calls (reads, other instances, the previous call's aftermath)
            for w, fresh in ((who, b), (1 - who, ob)):
                if S[w]["last"] is not None:
                    ctx.count("continuity_checks")
                    if S[w]["last"] != fresh:
                        history.append({"op": "(between calls)", "store": w, "seen_after_previous_call": S[w]["last"], "now": fresh})
                        viol("state-moved-between-calls", "store %d changed with no operation on it: %s -> %s" % (w, S[w]["last"], fresh))
                        return finish()
        ctx.count("steps")
        if who == 1:
            ctx.count("steps_on_second_store")
        verbose_now = not getattr(s, "silent", True)
        if verbose_now:
            ctx.count("verbose_steps")
        ret = None
        exc = None
        nthread_err = len(_SHIM["thread_errors"])
        try:
            with contextlib.redirect_stdout(SINK):
                if k == "read":
                    ret = do_read(ET, s, op)
                elif k == "clock":
                    clock.advance(op["seconds"])
                    ctx.count("clock_jumps")
                elif k == "spawn":
                    third = ATP_Store(op["budget"], max_debt=op["max_debt"]) if rng.random() < 0.5 else cls(op["budget"], max_debt=op["max_debt"], silent=True)
                    r1 = third.consume(op["budget"] + 1, "spawned", allow_debt=True, priority=10)
                    third.regenerate(3)
                    third.enter_dormancy()
                    ret = [r1, ATP_Store.get_balance(third), ATP_Store.get_debt(third)]
                    ctx.count("spawned_instances")
                elif k == "tick":
                    if threads[who] is None:
                        ret = "no-thread"
                    else:
                        ok = shim.tick(threads[who])
                        ctx.count("ticks")
                        ret = "ticked" if ok else "thread-lost"
                else:
                    ret = apply_op(ET, stores, op, i)
        except WouldHang as e:
            history.append({"op": op, "before": b, "raised": "WouldHang"})
            nhist[0] += 1
            viol("self-deadlock", "%s would hang: lock re-acquired at %s (held since %s)" % (k, e.second_stack[-2:], e.first_stack[-2:]))
            return finish()
        except InvariantBroken as e:
            history.append({"op": op, "before": b, "raised": str(e)})
            nhist[0] += 1
            viol("negative-balance", "class invariant broken during %s: %s" % (k, e))
            return finish()
        except BaseException as e:
            exc = e
        a, oa = snapshot(s), snapshot(o)
        st["last"], S[1 - who]["last"] = a, oa
        rec = {"op": op, "ret": ret, "before": b, "after": a}
        if k in ("transfer", "spawn") or ob != oa:
            rec["other_before"], rec["other_after"] = ob, oa
        history.append(rec)
        nhist[0] += 1
        if problems:
            for mech, what in problems:
                viol(mech, what)
            return finish()
        if k == "tick" and (ret == "thread-lost" or len(_SHIM["thread_errors"]) > nthread_err):
            errs = _SHIM["thread_errors"][nthread_err:]
            if errs:
                viol("raises:background-regeneration:%s" % errs[0][1], "the regeneration thread died with %s" % errs[0][2])
            else:
                ctx.count("tick_unavailable")
            threads[who] = None
            return finish()
        user_exc = False
        if exc is not None:
            rec["raised"] = repr(exc)
            if isinstance(exc, UserCallbackError) and raise_p:
                user_exc = True          # the user's own exception propagates (as on the unchanged tree); judge the state left behind
            elif k == "spawn":
                viol("raises:spawn:%s" % type(exc).__name__, "constructing/using a fresh third instance (budget %r, max_debt %r) raised %r" % (op["budget"], op["max_debt"], exc))
                return finish()
            elif isinstance(exc, ZeroDivisionError) and s.max_atp + s.max_gtp == 0 and not verbose_now:
                viol("zero-capacity-division", "%s raised ZeroDivisionError on a store with zero ATP+GTP capacity" % k)
                return finish()
            else:
                viol("raises:%s:%s" % (k, type(exc).__name__), "%s%s raised %r" % (k, " (silent=False)" if verbose_now else "", exc))
                return finish()
        held = [w.name for w in wrapped if w.locked()]
        if held:
            viol("lock-left-held", "%s returned%s with %s still held" % (k, " (callback raised)" if user_exc else "", held))
            return finish()
        # ---- quiet twin: same operation, same results
        if twins is not None and k not in ("read", "spawn", "tick", "clock") and not (k == "set" and op["attr"] == "silent"):
            ctx.count("twin_steps")
            try:
                tret = apply_op(ET, twins, op, i)
            except BaseException as e:  # noqa
                rec["twin_raised"] = repr(e)
                viol("raises:%s:%s" % (k, type(e).__name__), "%s raised %r on the quiet twin" % (k, e))
                return finish()
            ta = [snapshot(twins[who]), snapshot(twins[1 - who])]
            if tret != ret or ta != [a, oa]:
                rec["twin"] = {"ret": tret, "after": ta}
                viol("differential-mismatch", "%s on the observed pair (silent=%s, reads/callback/monitors) returned %r -> %s, on the quiet twin %r -> %s" % (
                    k, [not getattr(x, "silent", True) for x in stores], ret, [a, oa], tret, ta))
                return finish()
        # ---- universal obligations
        for w, x in ((who, a), (1 - who, oa)):
            for f in CORE:
                if x[f] < 0:
                    viol("negative-balance", "%s of store %d is %r after %s" % (f, w, x[f], k))
                    return finish()
        d = net(a) - net(b)
        od = net(oa) - net(ob)
        to_other = k == "transfer" and op["to"] == "other"
        if not to_other and {f: oa[f] for f in CORE} != {f: ob[f] for f in CORE}:
            viol("other-store-moved", "%s on store %d changed the other store %s -> %s" % (k, who, ob, oa))
        if k == "set":
            ctx.count("reconfigurations")
            if op["attr"] == "max_debt":
                st["limit_max"] = max(st["limit_max"], op["value"])
            if a != b:
                viol("reconfiguration-moves-balances", "assigning %s changed the ledger %s -> %s" % (op["attr"], b, a))
            continue
        if k == "clock":
            # no regeneration is configured in these sessions: the passage of time alone must not move the ledger
            if a != b or oa != ob:
                viol("time-moves-ledger", "a clock jump of %r s changed the ledger: %s -> %s / other %s -> %s" % (op["seconds"], b, a, ob, oa))
            continue
        if k in ("read", "spawn"):
            if k == "read":
                ctx.count("reads")
                for f in CORE:
                    if f in ret and ret[f] != a[f]:
                        viol("report-disagrees", "%s reported %s=%r while the getters say %r" % (op["kind"], f, ret[f], a[f]))
            if a != b or oa != ob:
                viol("read-moves-state", "%s changed the ledger: %s -> %s / other %s -> %s" % (op.get("kind", k), b, a, ob, oa))
            continue
        if a["debt"] > b["debt"] and k != "interest":
            if k != "consume" or not op["debt"]:
                viol("debt-created-by-" + k, "debt rose %d -> %d in %s" % (b["debt"], a["debt"], k))
            if a["debt"] > st["limit_max"]:
                viol("debt-limit-exceeded", "debt %d > max_debt %s after %s" % (a["debt"], st["limit_max"], k))
        if k == "consume":
            cost, cur = op["amt"], op["cur"]
            if user_exc:
                # neither success nor failure was reported: the spend either happened completely or not at all
                if d == -cost and a["consumed"] - b["consumed"] == cost:
                    st["spent_ok"] += cost
                    br = "raised-after-charge"
                elif d == 0 and a["consumed"] == b["consumed"]:
                    br = "raised-free"
                else:
                    br = "raised-?"
                    viol("callback-raise-breaks-ledger", "consume(%d, %s) whose state-change callback raised changed net worth by %d and total_consumed by %d" % (
                        cost, cur, d, a["consumed"] - b["consumed"]))
            elif ret is True:
                st["spent_ok"] += cost
                if d != -cost:
                    if cur == "ATP" and b["nadh"] > 0 and a["debt"] > b["debt"]:
                        mech = "topup-then-debt-overcharge"
                    elif cur == "NADH" and a["debt"] > b["debt"]:
                        mech = "nadh-debt-undercharge"
                    else:
                        mech = "charge-mismatch"
                    viol(mech, "successful consume(%d, %s, allow_debt=%s) changed net worth by %d" % (cost, cur, op["debt"], d))
                if a["consumed"] - b["consumed"] != cost:
                    viol("total-consumed-mismatch", "total_consumed moved by %d for a successful spend of %d" % (a["consumed"] - b["consumed"], cost))
                if a["debt"] > b["debt"]:
                    br = "debt"
                elif cur == "ATP" and a["nadh"] < b["nadh"]:
                    br = "topup"
                else:
                    br = "direct"
                if light:
                    ctx.count("long_session_spends_ok")
            elif ret is False:
                if d != 0:
                    viol("failure-not-free", "failed consume(%d, %s) changed net worth by %d" % (cost, cur, d))
                moved = [f for f in CORE if a[f] != b[f]]
                legit_topup = (cur == "ATP" and set(moved) <= {"atp", "nadh"} and a["nadh"] <= b["nadh"])
                if moved and not legit_topup:
                    viol("failure-moves-balances", "failed consume(%d, %s) moved %s" % (cost, cur, moved))
                if a["consumed"] != b["consumed"]:
                    viol("total-consumed-mismatch", "total_consumed moved on a failed spend")
                gated = (b["state"] == "starving" and op["prio"] < 5) or (b["state"] == "dormant" and op["prio"] < 10)
                br = "gated" if gated else "refused"
            else:
                viol("consume-return-type", "consume returned %r" % (ret,))
                br = "?"
            ctx.count("branch:" + br)
            branches.append(br)
        elif k in ("regenerate", "tick"):
            st["regen_free"] = False
            if k == "tick":
                amt, cur = int(cfgs[who]["rate"]), "atp"
            else:
                amt, cur = op["amt"], op["cur"].lower()
            cap = caps(s)[cur]
            if a[cur] > max(cap, b[cur]):
                viol("regenerate-above-capacity", "%s(%d, %s) lifted the balance %d -> %d above capacity %d" % (k, amt, cur, b[cur], a[cur], cap))
            # (a balance that a failed spend's NADH top-up left above capacity may be clamped back: energy
            #  destroyed, never created — the statement only forbids creation)
            if d > amt:
                viol("regenerate-creates-energy", "%s(%d) changed net worth by %d" % (k, amt, d))
            others = [f for f in ("atp", "gtp", "nadh") if f != cur and a[f] != b[f]]
            if others or a["debt"] > b["debt"]:
                viol("regenerate-moves-other", "%s(%s) moved %s / debt %d -> %d" % (k, cur, others, b["debt"], a["debt"]))
            if verbose_now and cur == "atp" and b["debt"] > 0 and a["debt"] == 0:
                ctx.count("verbose_debt_repaid_in_full")
        elif k == "transfer":
            amt = op["amt"]
            st["regen_free"] = False
            S[1 - who]["regen_free"] = False
            if op["to"] == "self":
                if (ret is True or user_exc) and d > 0:
                    viol("self-transfer-creates-energy", "self transfer of %d changed net worth by %d" % (amt, d))
                if ret is False and (a != b):
                    viol("failed-transfer-moves", "failed self transfer changed the store")
                if verbose_now and b["debt"] > 0 and a["debt"] == 0:
                    ctx.count("verbose_debt_repaid_in_full")
            else:
                ds, dd = d, od
                if user_exc:
                    if ds not in (0, -amt) or dd > -ds:
                        viol("callback-raise-breaks-ledger", "transfer of %d whose state-change callback raised moved the source by %d and the destination by %d" % (amt, ds, dd))
                elif ret is True:
                    ctx.count("transfers_ok")
                    if ds != -amt:
                        viol("transfer-debit-mismatch", "transfer of %d debited the source by %d" % (amt, -ds))
                    if dd > amt or ds + dd > 0:
                        viol("transfer-creates-energy", "transfer of %d credited the destination by %d" % (amt, dd))
                elif ret is False:
                    if ds != 0 or dd != 0 or {f: a[f] for f in CORE} != {f: b[f] for f in CORE}:
                        viol("failed-transfer-moves", "failed transfer changed net worth (source %d, destination %d)" % (ds, dd))
                else:
                    viol("transfer-return-type", "transfer_to returned %r" % (ret,))
                cur = op["cur"].lower()
                capd = caps(o)[cur]
                if oa[cur] > max(capd, ob[cur]):
                    viol("transfer-above-capacity", "transfer lifted the destination %s balance to %d above capacity %d" % (cur, oa[cur], capd))
                if oa["debt"] > ob["debt"]:
                    viol("debt-created-by-transfer", "destination debt rose %d -> %d" % (ob["debt"], oa["debt"]))
                if not getattr(o, "silent", True) and cur == "atp" and ob["debt"] > 0 and oa["debt"] == 0:
                    ctx.count("verbose_debt_repaid_in_full")
        elif k == "convert":
            c = ret
            if not isinstance(c, int) or c > op["amt"]:
                viol("convert-amount", "convert_nadh_to_atp(%d) returned %r" % (op["amt"], c))
            elif c <= 0:
                if any(a[f] != b[f] for f in CORE):
                    viol("convert-not-conserving", "convert returned %d but balances moved %s -> %s" % (c, b, a))
            elif a["nadh"] != b["nadh"] - c or a["atp"] != b["atp"] + c or a["gtp"] != b["gtp"] or a["debt"] != b["debt"]:
                viol("convert-not-conserving", "convert returned %d but balances moved %s -> %s" % (c, b, a))
            elif a["atp"] > max(s.max_atp, b["atp"]):
                viol("convert-above-capacity", "convert lifted ATP above capacity")
        elif k in ("dormant", "wake"):
            if any(a[f] != b[f] for f in CORE):
                viol("dormancy-moves-balances", "%s changed balances" % k)
        elif k == "interest":
            st["regen_free"] = st["regen_free"] and a["debt"] == b["debt"]
            if any(a[f] != b[f] for f in ("atp", "gtp", "nadh")) or a["debt"] < b["debt"]:
                viol("interest-moves-balances", "apply_debt_interest changed balances or lowered debt")
        elif k == "reset":
            st["regen_free"] = False
            if (a["atp"], a["gtp"], a["nadh"], a["debt"]) != (s.max_atp, s.max_gtp, s.max_nadh, 0):
                viol("reset-state", "reset left %s" % a)
    for w in (0, 1):
        if S[w]["regen_free"] and S[w]["spent_ok"] - S[w]["initial_total"] > S[w]["limit_max"]:      # int - int, then an exact int/float comparison
            viol("unbounded-total-spend", "successful spends on store %d total %d > initial %d + max_debt %s without regeneration" % (
                w, S[w]["spent_ok"], S[w]["initial_total"], S[w]["limit_max"]))
    finish()
    if len(set(branches)) >= 2:
        c0 = cfgs[0]
        clsfp = (min(c0["budget"], 3), min(c0["gtp"], 1), min(c0["nadh"], 1), min(c0["max_debt"], 1))
        ctx.nontrivial((clsfp, tuple(branches[:10])))
    if n % 4000 == 0:
        ctx.sample({"configs": cfgs, "flags": flags, "history": list(history)[:6]})


if __name__ == "__main__":
    core.main(sys.modules[__name__])
